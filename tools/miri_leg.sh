#!/bin/bash
# usage: tools/miri_leg.sh <property> <seed> <logfile>
# The interpreter leg of C01 / C04 / C05 / C17: the workloads of /verif/miri-leg (hook H8: bare
# memtable, commit pipeline over a mock environment) run natively at a larger scale and then under
# Miri (`cargo +nightly miri run`, 16 scheduler seeds per workload seed, raised preemption rate).
# Miri is the oracle for data races, use-after-free, out-of-bounds and uninitialised reads in the
# lock-free code; the workloads carry behavioural oracles of their own (see miri-leg/src/main.rs).
# Prints one JSON object (for coverage.sanitizer_legs) on the last line.
#   exit 0 clean   exit 1 a report or oracle violation (log kept)   exit 2 leg unavailable / timed out
set -u
PROP="$1"; SEED="$2"; LOG="$3"
case "$PROP" in
  C01) SCEN="memtable" ;;
  C04|C05|C17) SCEN="pipeline" ;;
  *) echo '{"tool":"miri","status":"not attached to this property"}'; exit 0 ;;
esac
cd /verif/miri-leg || exit 2
export CARGO_NET_OFFLINE=true CARGO_TARGET_DIR=/verif/miri-leg/target
: > "$LOG"
if ! cargo build --release --offline >>"$LOG" 2>&1; then
  echo '{"tool":"miri","status":"native build failed - leg unavailable"}'; exit 2
fi
NATIVE=0; NEV=0
for i in $(seq 1 24); do
  out=$(timeout 300 ./target/release/vmiri "$SCEN" $((SEED * 1000 + i)) 20 2>&1); rc=$?
  echo "$out" >>"$LOG"
  if [ $rc -eq 124 ]; then echo "{\"tool\":\"miri\",\"status\":\"native run timed out - inconclusive\"}"; exit 2; fi
  if [ $rc -ne 0 ] || echo "$out" | grep -q "VMIRI-VIOLATION\|panicked"; then
    echo "{\"tool\":\"miri\",\"status\":\"native workload reported a violation\",\"what\":$(echo "$out" | grep -m1 "VMIRI-VIOLATION\|panicked" | python3 -c 'import json,sys; print(json.dumps(sys.stdin.read().strip()[:400]))')}"; exit 1
  fi
  NATIVE=$((NATIVE + 1)); NEV=$((NEV + $(echo "$out" | sed -n 's/.*events=\([0-9]*\).*/\1/p' | head -1)))
done
RUNS=0; EV=0
FLAGS="-Zmiri-disable-isolation -Zmiri-tree-borrows -Zmiri-permissive-provenance -Zmiri-preemption-rate=0.05 -Zmiri-many-seeds=0..16"
for i in 1 2 3; do
  out=$(MIRIFLAGS="$FLAGS" timeout 1500 cargo +nightly miri run --offline -- "$SCEN" $((SEED * 10 + i)) 2 2>&1); rc=$?
  echo "$out" | grep -v "^\s*Compiling\|^Trying seed" >>"$LOG"
  if [ $rc -eq 124 ]; then echo "{\"tool\":\"miri\",\"status\":\"interpreter run timed out - inconclusive\",\"runs\":$RUNS}"; exit 2; fi
  if echo "$out" | grep -q "Undefined Behavior\|VMIRI-VIOLATION\|panicked\|deadlock"; then
    echo "{\"tool\":\"miri\",\"status\":\"report\",\"what\":$(echo "$out" | grep -m1 "Undefined Behavior\|VMIRI-VIOLATION\|panicked\|deadlock" | python3 -c 'import json,sys; print(json.dumps(sys.stdin.read().strip()[:400]))')}"; exit 1
  fi
  n=$(echo "$out" | grep -c "^VMIRI scenario=")
  if [ $rc -ne 0 ] || [ "$n" -eq 0 ]; then
    echo "{\"tool\":\"miri\",\"status\":\"interpreter did not run the workload (exit $rc) - leg unavailable\"}"; exit 2
  fi
  RUNS=$((RUNS + n)); EV=$((EV + $(echo "$out" | sed -n 's/^VMIRI .*events=\([0-9]*\).*/\1/p' | paste -sd+ | bc)))
done
echo "{\"tool\":\"miri\",\"status\":\"clean\",\"scenario\":\"$SCEN\",\"native_runs\":$NATIVE,\"native_events\":$NEV,\"interpreted_runs\":$RUNS,\"interpreted_events\":$EV,\"flags\":\"$FLAGS\"}"
exit 0
