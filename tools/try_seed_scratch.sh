#!/bin/bash
# usage: tools/try_seed_scratch.sh <seed dir under /verif/seeded> <property> [tier]
# Like try_seed.sh, but leaves /repo and /verif/harness/target alone: the seeded change is applied
# to a scratch worktree of /repo (/tmp/repo-seedtest) and a scratch copy of the harness
# (/tmp/harness-seedtest) is built against it; evidence and replays go to /tmp/seedtest-out.
set -u
d=/verif/seeded/$1; prop=$2; tier=${3:-quick}
[ -d /tmp/repo-seedtest ] || git -C /repo worktree add -q --detach /tmp/repo-seedtest HEAD
git -C /tmp/repo-seedtest checkout -q --detach "$(git -C /repo rev-parse HEAD)" 2>/dev/null
git -C /tmp/repo-seedtest checkout -q -- .
mkdir -p /tmp/harness-seedtest /tmp/seedtest-out
rsync -a --exclude 'target*' /verif/harness/ /tmp/harness-seedtest/
sed -i 's#path = "/repo"#path = "/tmp/repo-seedtest"#' /tmp/harness-seedtest/Cargo.toml
git -C /tmp/repo-seedtest apply "$d/patch.diff" || { echo "patch does not apply"; exit 9; }
(cd /tmp/harness-seedtest && CARGO_NET_OFFLINE=true cargo build --release --offline 2>&1 | grep -E "^error" -A6 | head -20)
out=$(cd /tmp/harness-seedtest && VERIF_OUT_DIR=/tmp/seedtest-out VERIF_TIER=$tier ./target/release/vharness $prop --tier $tier --seed ${VERIF_SEED:-1} 2>&1); code=$?
git -C /tmp/repo-seedtest checkout -q -- .
echo "exit=$code"
echo "$out" | grep -E "VIOLATION|what:|KNOWN|tier=" | cut -c1-400 | head -8
