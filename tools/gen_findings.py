#!/usr/bin/env python3
"""Regenerates /verif/known_findings.json from the table below (run by hand when a finding
is added or repaired; the checks only ever read the file)."""
import json
F = [
 # property, scenario id, status, commit, what failed
 ("C09","C09-memtable-seek-last-after-upper","fixed","df1007c","range cursor over data in a memtable: after a forward pass crossed the upper bound, seek_last returned nothing (stale cached upper-bound node)"),
 ("C09","C09-unbounded-cursor","fixed","865bc36","range_with_options with both bounds absent listed no keys (absent bound mapped to an empty key)"),
 ("C09","C09-lower-only-cursor","fixed","865bc36","range_with_options with only a lower bound listed nothing / panicked in BTreeMap::range"),
 ("C09","C09-inverted-bounds","fixed","865bc36","range(start > end) panicked in BTreeMap::range instead of yielding an empty cursor"),
 ("C09","C09-overlay-direction-switch","fixed","39f39fd","direction reversal of a cursor merging pending writes with the snapshot re-seeked the write set to its end when one source was exhausted (seek(z); prev skipped keys / stayed valid past the front)"),
 ("C07","C07-last-sequence-after-tombstone-compaction","fixed","6f103b7","set k; flush; delete k; flush; compact to the bottom level; close; reopen failed with 'Manifest last_sequence mismatch'"),
 ("C07","C07-l1-key-disjoint-tables","fixed","f603285","two key-disjoint L1 tables whose sequence ranges are not in key order; close; reopen failed with 'overlapping sequence numbers'"),
 ("C07","C07-vlog-torn-header","fixed","4326f2d","a value-log file shorter than its header (power loss during file creation) made open fail with 'File ID mismatch'"),
 ("C07","C07-compaction-output-not-synced","fixed","5918cdc","power loss after a compaction switched the manifest: the output table had never been fsynced (0 bytes) and the store refused to open"),
 ("C07","C07-wal-segment-split-on-replay","fixed","e820426","a WAL segment larger than one memtable was split on replay; flushing the first part marked the whole segment flushed; after a clean close + reopen the rest was gone"),
 ("C01","C01-shared-start-reader-dropped","fixed","b18b67d","two readers share a start point, one is dropped, the key is overwritten, flush + compaction: the survivor's get lost its snapshot value (snapshot registry was a set)"),
 ("C01","C01-cursor-unregisters-snapshot","fixed","73f65cf","a reader that had opened a range cursor lost compaction protection (a temporary Snapshot value unregistered the sequence number on drop)"),
 ("C01","C01-bottom-level-delete-under-reader","fixed","30581fa","hard delete compacted to the bottom level while an older reader was open: the reader's version was discarded"),
 ("C02","C02-commit-after-wal-repair","fixed","f1e13ff","a commit acknowledged in the session after a WAL repair was written to the replaced (unlinked) segment file and was gone after the next reopen"),
 ("C02","C02-commit-after-torn-header","fixed","c99ad00","a commit acknowledged after recovery from a torn record tail was appended behind the garbage and was unreachable on the next recovery"),
 ("C02","C02-rotation-straddling-commit","fixed","8c90803","the commit whose apply step rotated the full memtable had its WAL record in the old segment but lived in the new memtable; flushing the old memtable released the segment and the acknowledged commit was lost on restart"),
 ("C03","C03-batch-torn-by-rotation","fixed","fe65499","a multi-key transaction met a full memtable half-way: part of it stayed in the old memtable and was flushed to a table on its own (transaction partly present after losing the WAL tail)"),
 ("C09","C09-inverted-bounds-deep-level","fixed","d018cae","range(start > end) panicked (slice index) when tables exist on a level >= 1"),
 ("C10","C10-backward-history-stops-at-hidden-key","fixed","9bfe09a","a complete backward history traversal stopped at the first key that had nothing to list (hard-deleted, filtered, invisible)"),
 ("C10","C10-ts-range-lists-erased-version","fixed","1a654d5","history restricted to a timestamp range listed versions erased by a hard delete / replace whose timestamp lies outside the range"),
 ("C10","C10-compaction-drops-version-above-replace","fixed","58ed867","compaction discarded versions written AFTER a replace (unlimited retention): time-travel read at their timestamp returned the replaced value"),
 ("C10","C10-compaction-resurrects-erased-version","fixed","c0e5062","set@10, hard delete@20, set@30: compaction dropped the non-newest delete but kept the version it had erased; it came back in history and get_at"),
 ("C10","C10-ts-range-out-of-order-memtable","fixed","dcbe5a0","index back-end, unflushed versions written out of timestamp order: history with a timestamp range skipped in-range versions"),
 ("C10","C10-open-reader-makes-compaction-drop-history","fixed","0d4cc9f","versioning with unlimited retention: flush + compaction while any reader was open discarded older versions (snapshot-boundary supersession applied to history)"),
 ("C10","C10-retention-drops-replace-barrier","open","","finite retention, LSM back-end: a non-bottom compaction drops an expired replace while versions it erased survive on a deeper level; they come back in history / get_at. Not repaired: src/test/iterator_tests.rs (test_compaction_iterator_set_with_delete_marks_older_versions_stale, ..._multiple_replace_operations) pins dropping the expired replace at a non-bottom level"),
 ("C10","C10-index-retention-barrier-cleaned","open","","version index + finite retention: the index entry of an expired replace is cleaned with its value-log file while older tombstone entries (no value pointer) stay; the erased tombstone is listed again. Not repaired: needs a redesign of index clean-up (entries without value pointers are never collected)"),
 ("C14","C14-stale-block-cache-after-restore","fixed","3ecb0f2","after restore, a new table reused the id of a table of the discarded timeline and reads were served from that table's cached blocks"),
 ("C14","C14-vlog-writer-after-restore","fixed","4b82ba1","after restore the value-log writer kept appending to the replaced file: values written after the restore were unreadable (live and after reopen)"),
 ("C14","C14-version-index-not-restored","open","","the B+tree version index is neither part of a checkpoint nor rewound by restore: with the index enabled, versioned reads after a restore see (or fail on) entries of the discarded timeline, and a checkpoint opened standalone has an empty index. Not repaired: needs checkpoint format + restore support for the index file"),
 ("C01","C01-begin-races-compaction","fixed","86e5d29","begin loaded its horizon and was delayed before registering its snapshot; a compaction started in between discarded the versions it reads"),
 ("C05","C05-l0-order-by-largest-seq","fixed","1f6f81f","two commits whose memtable applies finish out of WAL order around a rotation: the older memtable's table holds the larger sequence number, is listed first on L0, and get() returned the older version of a key (stale read after an acknowledged commit)"),
 ("C17","C17-bottom-level-outranks-l0","fixed","a7d2717","bottom level over its size target outranked L0 on every compaction round; L0 stayed at the write-stall limit and stalled commits never resumed"),
 ("C17","C17-one-compaction-round-per-wakeup","fixed","692a107","level task ran one round per flush; with L1 outranking an L0 at the write-stall limit the task went idle, writers stayed stalled and nothing woke it again"),
 ("C12","C12-damaged-first-header","fixed","183d420","the record-type byte of a segment's first record header altered: open in the repairing recovery mode failed with 'Invalid Record Type' (compression detection ran before recovery) instead of keeping the valid prefix"),
 ("C12","C12-compression-record-unchecked","fixed","2920b0d","compressed segment: the reader did not verify the checksum of the compression-type record; one flipped payload bit made every later record read back as bytes never appended"),
 ("C12","C12-torn-tail-behind-compression-header","fixed","3bd6d37","compressed segment cut inside its first record: the torn tail behind the compression header was kept on reopen, records appended in that session were unreachable"),
 ("C18","C18-separator-overflow-on-leaf-redistribution","fixed","2d51b9f","keys longer than the inline limit (~1 KB): when leaves redistribute, the parent separator was replaced but its overflow chain kept - the new key was reconstructed from the wrong chain ('Reconstructed key size .. doesn't match expected ..' on later loads and after reopen) or the chain was leaked (page neither reachable nor free)"),
 ("C19","C19-refused-open-truncates-lock","fixed","59b92d9","a refused second open truncated the live owner's LOCK file (opened with truncate before the lock was tried): the directory was not left untouched"),
 ("C16","C16-filter-block-unchecked","fixed","27fb7a5","an altered byte inside a table's filter block was not detected (the block's checksum was never verified): point lookups of stored keys returned nothing, or the filter reader panicked on an out-of-range slice index"),
 ("C15","C15-oversize-transaction-logged-then-rejected","fixed","3410593","a transaction larger than a whole memtable was written to the commit log, its apply failed, commit() returned an error - and after close + reopen the failed transaction was there"),
 ("C15","C15-table-footer-short-write","fixed","5aacede","the table footer was written with write() instead of write_all(): a short write (legal) left a cut footer and a table that fails its checks"),
 ("C15","C15-flush-on-close-after-failed-manifest-sync","fixed","757d307","a sync error after a new manifest had been installed made the flush report failure; close() with flush_on_close then flushed again under the same table id and rewrote the table file the installed manifest references (a crash in that window left a store that does not open / unreadable values)"),
 ("C15","C15-failed-commit-record-stays-in-log","open","","a commit that fails at the commit log (append or sync error; also an apply failure for a batch just under the memtable size) returns an error but its record stays in the log: after a crash and restart it is replayed - the failed transaction is visible and the recovered state is not a commit prefix. Not repaired: taking the record back needs the log writer to roll back its buffered, block-framed position (or a tombstone record), which is more than a small patch"),
 ("C05","C05-commit-queue-use-after-free","fixed","c66cd00","two committers publishing at once: one reads the raw pointer of the tail batch, the other dequeues that batch, completes it and frees it, the first then dereferences the freed batch (CommitQueue::dequeue_applied; reported by the ThreadSanitizer leg as a race between free() and the atomic read in is_applied)"),
 ("C07","C07-crash-during-wal-repair","fixed","8d35d34","a crash while recovery repairs a damaged commit-log segment leaves wal/repair_temp with a partial file; the next repair appended to it, the result was 'still corrupted after repair' and the store did not open (found by the second-generation crash runs: crash -> recover -> crash inside recovery)"),
 ("C10","C10-version-listed-twice-after-crash","fixed","a4b37bd","process crash between the in-place update of the version index and the manifest switch of the same flush: after recovery the history listed those versions twice (once from the replayed memtable, once from the index)"),
 ("C10","C10-version-index-not-crash-consistent","open","","the B+tree version index is updated in place without journaling: a process crash between its page writes (header / node pages) leaves a tree file that does not load ('B+ tree error: Deserialization error: Invalid child count'), so the store does not open or versioned reads fail. Not repaired: needs a crash-safe update protocol for the index file (shadow paging or a log), far beyond a small patch"),
 ("C17","C17-wakeup-lost-before-idle","fixed","7c3c34e","a memtable rotated in while the flush task was between its last look at the queue and clearing its running flag was never flushed (the wake-up is skipped while the flag is set): the task went idle, the immutable-memtable limit was reached and every commit waited in the write stall forever (seen as a quiescent process with 12 commits outstanding in a stress history)"),
 ("C15","C15-failed-apply-poisons-memtable","fixed","fde39b2","a commit failed in its apply step on an empty memtable (batch just below the memtable size): the arena was used up, the rotation was skipped because the memtable held no entry, and every later commit failed with 'Memtable arena is full' until restart"),
 ("C04","C04-rollback-forgets-earlier-committer","fixed","0fd085e","a failed commit rolled back its conflict-map entry by removing it, which also forgot the earlier committer of that key: a transaction begun before that earlier commit then wrote the key and committed without a conflict (lost update)"),
 ("C11","C11-vlog-rotation-inside-flush-not-synced","fixed","f424741","a value-log file rotated away inside a flush was never fsynced; after power loss the installed table pointed at missing bytes"),
]
out = {"_comment": "Committed; never written at run time. status=open: the directed scenario with the same id (harness/src/scenarios.rs or harness/src/props/crash.rs) still fails on the tree; the check prints KNOWN-FINDING for it and the generators mask exactly that pattern. status=fixed: repaired by the named fix: commit in /repo; suppresses nothing - the scenario stays in the check as a regression monitor and reports VIOLATION if the behaviour returns.",
       "findings": []}
import subprocess
for p, i, st, c, w in F:
    if st == "fixed":
        subj = subprocess.run(["git", "-C", "/repo", "log", "-1", "--format=%s", c], capture_output=True, text=True)
        assert subj.returncode == 0 and subj.stdout.startswith("fix:"), (i, c, subj.stdout, subj.stderr)
    e = {"property": p, "id": i, "status": st, "what_fails": w}
    if st == "fixed":
        e["commit"] = c
        e["line"] = f"fixed: property={p} {c} {w}"
    out["findings"].append(e)
json.dump(out, open("/verif/known_findings.json", "w"), indent=1)
print(len(F), "findings written")
