#!/bin/bash
# usage: tools/try_seed.sh <seed dir under /verif/seeded> <property> [tier]   (applies the seeded
# change to /repo, runs the check, prints its verdict, and restores /repo)
set -u
d=/verif/seeded/$1; prop=$2; tier=${3:-quick}
git -C /repo diff --quiet || { echo "/repo has local changes"; exit 9; }
git -C /repo apply "$d/patch.diff" || { echo "patch does not apply"; exit 9; }
out=$(cd /verif && ./check $prop --tier $tier 2>&1); code=$?
git -C /repo checkout -- .
echo "exit=$code"
echo "$out" | grep -E "VIOLATION|what:|KNOWN|tier=" | cut -c1-400 | head -8
