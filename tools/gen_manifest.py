#!/usr/bin/env python3
"""Regenerates /verif/MANIFEST.json. The table CHECKS below is the single place where a
property's claim is described; properties not in it are listed under not_applicable."""
import json, subprocess
props = [json.loads(l) for l in open('/verif/properties.jsonl')]
hook_commits = subprocess.run(["git","-C","/repo","log","--format=%h","--grep=^verif hooks"],capture_output=True,text=True).stdout.split()

CHECKS = {
 "C01": dict(level="exploration", engine="E1+E3", ref="DESIGN.md 3/C01",
   technique="runtime monitor: reads of long-lived transactions compared with a reference model at the reader's horizon while rotate/flush/compaction run in between",
   text="Held on the generated multi-reader histories (readers sharing a start point, readers holding range cursors, readers with pending writes) x placement schedules x option sets counted in the evidence. Every get / scan element / cursor step of every open reader equals the model at that reader's horizon. Sampling of histories and schedules, not enumeration.",
   note="Trusted: reference model; verif hooks (rotate/flush/one compaction round, Transaction::verif_start_seq, snapshot registry dump)."),
 "C02": dict(level="fault_enumeration", engine="E2", ref="DESIGN.md 3/C02, 2.4",
   technique="recorded syscall trace of real runs -> every crash image (process crash / power loss with byte cuts) opened by the real code; acknowledged-commit set from client-side ACK markers",
   text="Every file-operation boundary of the traced executions is a crash point; at each, the process-crash image and the power-loss images (none / cuts at write boundaries / torn cuts inside the first unsynced write / single-file keep or lose) are opened by the real code and every transaction acknowledged (resp. acknowledged as durable) before that point must be in the recovered prefix. Second-generation runs start from verified crash images (crash -> recover -> commit -> crash) and must keep what the first recovery returned. Enumeration over the traced runs; the runs themselves are sampled.",
   note="Trusted: LD_PRELOAD recorder (shim/iotrace.c) and the image builder (harness/src/trace.rs); power-loss model as stated in the property (ordered namespace, per-file synced prefix)."),
 "C03": dict(level="fault_enumeration", engine="E2", ref="DESIGN.md 3/C03",
   technique="same crash images as C02; recovered state compared with every prefix of the commit order (self-identifying values, per-transaction marker keys)",
   text="At every enumerated crash image the recovered key/value state must equal the model after some prefix of the commit order: whole transactions only, no gaps, nothing deleted or overwritten inside the prefix reappears.",
   note="Trusted: as C02. Commit order = sequence numbers of marker keys read back at the public boundary."),
 "C04": dict(level="exploration", engine="E3", ref="DESIGN.md 3/C04, 2.5",
   technique="runtime monitor over concurrent histories recorded at the client boundary: offline first-committer-wins, conservation (counters, append lists), abort-justification and aborted-leaves-nothing checkers; seeded delays at the commit pipeline's yield points",
   text="Held on the concurrent histories counted in the evidence (1..16 committers doing read-modify-write counters, list appends and blind multi-key writes; long-lived and write-only transactions; more than one oracle GC interval of traffic; rotations/flushes/compactions running). Checked offline per history: no two committed writers of a key overlap (horizon of the later >= last seq of the earlier), counters/lists conserve every acknowledged update, an aborted transaction's marker key is absent, every conflict is justified by a later-committed writer of one of its keys, every retry by the pruned horizon. Schedules are sampled, not enumerated.",
   note="Trusted: tick counter, marker-key commit order, verif point hook (delays). Injected apply/WAL failures are the business of C15 and are not injected here."),
 "C05": dict(level="exploration", engine="E3", ref="DESIGN.md 3/C05, 2.5",
   technique="runtime monitor over concurrent histories: probe transactions begun from inside the commit pipeline's yield points and by prober tasks, every read compared offline with the committed history at the reader's horizon; real-time order and horizon monotonicity on the tick order",
   text="Held on the concurrent histories counted in the evidence (1..16 committers, batches of 3..121 entries incl. batches that meet a full memtable, probes at commit.after_wal / after_apply / after_mark_applied / publish.dequeued / publish.after_visible / after_publish). Checked offline: every read = model at the reader's horizon (so no fractured multi-key transaction), commit-returned-before-begin implies visible, horizons of successive begins never decrease, every acknowledged commit is present, sequence ranges do not overlap. Schedules are sampled.",
   note="Trusted: as C04. 'distinct' counts distinct orders in which WAL writes and applies finished."),
 "C06": dict(level="exploration", engine="E1", ref="DESIGN.md 3/C06, 2.3",
   technique="runtime differential monitor: real store vs sequential reference model under fuzzed physical placement (rotate/flush/compaction/reopen) and option sets",
   text="Held on the generated logical histories x placement schedules x option sets listed in the evidence: every get and every forward/backward scan after every step equals the reference model, so executions that differ only in placement agree. Sampling, not enumeration.",
   note="Trusted: reference model; verif hooks; single driver thread with background tasks in manual mode."),
 "C07": dict(level="fault_enumeration", engine="E1+E2", ref="DESIGN.md 3/C07",
   technique="clean close+reopen woven into fuzzed histories (model comparison after every reopen) + every enumerated crash image must open, open twice identically, and accept a probe commit that survives another reopen",
   text="Clean part: generated histories with close/reopen (also twice in a row and with a different format-compatible option set) after arbitrary flush/compaction shapes. Crash part: every enumerated crash image of the traced runs opens without error; a seeded subset also gets a probe commit (new key + overwrite of a recovered key), read back immediately and after another reopen.",
   note="Trusted: as C02 and C06. Crash points inside recovery are covered by the second-generation runs (a verified image becomes the start directory of another traced run whose open is the recovery)."),
 "C08": dict(level="exploration", engine="transaction-program monitor", ref="DESIGN.md 3/C08",
   technique="runtime monitor: generated and (short) exhaustively enumerated transaction programs, every call's result compared with an overlay model; observer and fresh transactions check isolation",
   text="All programs up to the stated length over a 10-operation alphabet (set/delete/soft delete/replace/set_at/get/scan/savepoint/rollback-to/commit) are enumerated on four stores; tens of thousands of seeded longer programs in all three modes, adversarial keys and values. Checked: read-your-writes, savepoint restore, rollback/drop invisibility, mode and closed rejections, committed result = surviving writes in issue order (with versioning also the version order).",
   note="Trusted: overlay model in harness/src/props/c08.rs. Error kinds are not compared, only accept/reject."),
 "C09": dict(level="exploration", engine="cursor-program enumerator over E1 layouts", ref="DESIGN.md 3/C09",
   technique="bounded-exhaustive runtime monitor: all cursor programs up to length 5 (quick) / 6 (thorough) per (layout, reader, bound shape), every step compared with a cursor over the model's sorted list of live keys",
   text="Layouts (versions and tombstones spread over write-set, memtables, L0 and deeper tables with 64-256 byte blocks) are sampled; on each, for an older read-only reader and a reader with pending sets/deletes and for 7 bound shapes (both, wide, lower-only, upper-only, unbounded, empty, inverted), ALL programs over {seek_first, seek_last, next, prev, seek(3 targets)} up to the bound are run, plus seeded programs up to length 40.",
   note="Trusted: reference model; E1 executor for building layouts. Next/prev are only issued while the model cursor is valid (as the property states)."),
 "C10": dict(level="exploration", engine="E1 (versioned battery, twin back-ends)", ref="DESIGN.md 3/C10",
   technique="runtime differential monitor: get_at at every interesting timestamp and complete forward/backward history traversals with option variants vs a retained-version model, under fuzzed placement, both index back-ends, manual clock for finite retention",
   text="Held on the generated timestamped histories x placement schedules x back-ends counted in the evidence, with readers held open across compactions. Two open known findings (finite retention: expired replace barrier; index clean-up of barrier entries) are reported as KNOWN-FINDING and masked in the finite-retention campaign only.",
   note="Trusted: reference model incl. the stated tolerances (ties, finite-retention optional versions). Equal timestamps for two versions of one key are not generated (the property lets ties resolve either way). The crash clause is not yet covered here."),
 "C11": dict(level="exploration", engine="E1 (value-log matrix) + E2", ref="DESIGN.md 3/C11",
   technique="runtime monitor: byte-for-byte comparison of every value read (fresh transactions, readers and cursors opened before flush/compaction/clean-up) with self-identifying values, value-log file invariant after each placement step, plus crash images with the value log on",
   text="Held on the generated histories (value sizes 0, 1, threshold-1/threshold/threshold+1, multi-block, 80 KiB; value-log files from 256 B so that rotation happens inside one flush; both checksum levels) x placement schedules, and on the enumerated crash images of traced runs with the value log on.",
   note="Trusted: reference model, image builder. The 'no file removed while reachable' clause is checked as: every file from the oldest id a live table points into up to the newest exists, and every read through an older reader/cursor still resolves."),
 "C12": dict(level="fault_enumeration", engine="component sweep (H5) + store reopen", ref="DESIGN.md 3/C12",
   technique="runtime monitor over the real Wal / Reader / repair code: generated record-length sequences and session splits, then every truncation offset and every single-byte and single-bit alteration of the file (exhaustive for small files, all positions around record and block boundaries plus a seeded sample for multi-block files), reader output compared with the appended records; same alterations through a store reopened in both recovery modes",
   text="For every altered copy the real reader must return byte-identical records forming a prefix of what was appended, containing every record that ends at or before the alteration, ending in end-of-log or a corruption report, without panicking; repair must keep exactly that prefix and leave a cleanly ending segment; records appended in a new session after a clean end or a repair must be read back. Store part: recovered state = a commit prefix with every commit lying before the alteration; absolute-consistency mode fails exactly when the reader reports corruption; a commit after recovery survives another reopen. Enumeration is exhaustive per small file and targeted per large file; the files themselves are generated.",
   note="Trusted: H5 wrappers (thin), record end offsets reported by the reader on the pristine file. Empty payloads are refused by append with an error (nothing appended), which the check accepts."),
 "C13": dict(level="exploration", engine="component monitor (H5)", ref="DESIGN.md 3/C13",
   technique="runtime differential monitor over the real TableWriter / Table / TableIterator: generated entry sets written under generated table-format options, every read operation compared with the sorted entry list",
   text="Held on the generated tables (many versions per key, one key spanning blocks and index partitions, long shared prefixes, 0xff-terminated keys, prefix/extension keys, empty and pointer-sized values; block sizes 64..4096, restart intervals 1..16, partition sizes 64..4096, compression none/snappy per level, filter on/off) counted in the evidence: complete forward and backward iteration, seek to every stored (key, seq), its neighbours and absent keys followed by a step each way, point lookup for every key x snapshot of interest and absent keys, generated cursor programs under generated bounds, and the key-range shortcuts (never exclude a table that holds an entry inside the bounds). Entry sets and option sets are sampled; per table the lookup targets are enumerated.",
   note="Trusted: H5 wrappers. Inverted / out-of-range cursor bounds are C09's business."),
 "C17": dict(level="exploration", engine="E3 + E5 watchdog", ref="DESIGN.md 3/C17, 2.7",
   technique="runtime stress monitor with a quiescence watchdog: tiny memtables, low stall thresholds, close() in the middle; a history is stuck only if calls are outstanding, no commit completes, the harness's own activity is paused and no thread of the process is runnable for 10 s; panics captured by a hook",
   text="Held on the stress histories counted in the evidence (2..16 committers, memtable stall 2..4, L0 stall 5..11, 2..4 levels, rotation/flush/compaction wake-ups from a maintenance task in half of them, close() mid-flight in a third) plus two directed scenarios for the compaction-scheduling stalls found. Unbounded 'eventually' is restated as bounded progress under the quiescence criterion; a wall-clock overrun with runnable threads is inconclusive, never a violation.",
   note="Trusted: /proc/self/task thread states. Injected WAL/apply failures are not part of this check (C15)."),
 "C14": dict(level="exploration", engine="E1 + checkpoint/restore steps", ref="DESIGN.md 3/C14",
   technique="runtime differential monitor with checkpoint and restore steps: model rewound at restore, full query battery after every step, checkpoint copied and opened standalone",
   text="Held on the generated three-segment histories (before checkpoint / between checkpoint and restore with flushes and compactions and cache-warming reads / after restore with commits, flush, compaction, reopen) x option sets counted in the evidence. One open known finding (version index neither checkpointed nor restored) is reported as KNOWN-FINDING and masked: these histories do not enable the version index.",
   note="Trusted: reference model. Single driver thread, so no commit is in flight at the checkpoint, as the property requires."),
}
CHECKS["C18"] = dict(level="exploration", engine="component monitor (public B+tree API + H7 census)", ref="DESIGN.md 3/C18",
   technique="runtime differential monitor: generated operation sequences on the real BPlusTree next to a vector kept sorted by the same comparator; close/reopen at arbitrary points; page census at quiescent points",
   text="Held on the generated sequences (grow / shrink / churn phases over skewed key universes of 12..2000 keys, keys of 1 byte .. 5 KB, values of 0 .. 30 KB, both the bytewise and the timestamp key order) counted in the evidence: every insert / overwrite / delete / get / bounded range scan / internal-iterator seek+steps result equals the ordered map; after close + reopen too; at every census no page is reachable twice, outside the file or unaccounted for, the header's free count equals the pages listed in trunk pages, and the leaf chain equals the left-to-right leaf order. Sequences are sampled, not enumerated.",
   note="Trusted: the Comparator objects (shared between tree and model), H7 census walk. Crash consistency of the tree file is not part of this property.")
CHECKS["C19"] = dict(level="exploration", engine="multi-opener monitor (in-process handles + child processes)", ref="DESIGN.md 3/C19",
   technique="runtime monitor with a one-variable model (who owns the directory): generated sequences of open / close / drop / commit / process exit / SIGKILL by 3 in-process and 2 child-process openers; every open attempt's outcome compared with the model; directory snapshot before/after refused attempts",
   text="Held on the generated sequences counted in the evidence: an open succeeds exactly when no live instance holds the directory (same process and across processes), a refused open leaves every file of the directory byte-identical, after close / drop / process exit / SIGKILL of the owner the next open succeeds (after a drop: within a bounded retry, the release runs in a background task) and sees every commit acknowledged to earlier owners. Orders are sampled.",
   note="Trusted: child-process driver over pipes; advisory locks of the test machine's file system (tmpfs under /dev/shm). Background flush / compaction is off in all openers so that an idle owner leaves the directory unchanged.")
CHECKS["C16"] = dict(level="fault_enumeration", engine="damage sweep (verifier subprocesses)", ref="DESIGN.md 3/C16",
   technique="runtime monitor over altered copies of generated databases: one bit or byte of one table / commit-log / value-log file changed (or a table cut), the copy opened by the real code in a verifier subprocess, all keys read, both scan directions, flush + compaction, read again; every successful read compared with the written data",
   text="Thorough tier: every byte position of every table, commit-log and value-log file of the generated databases gets a byte flip and a bit flip, and every table file is cut at every offset (a superset of its block boundaries). Quick tier: stratified sample (file heads and tails + 260 seeded positions per file, small files exhaustively, truncation every 11th offset). A read that succeeds must return the written data; commit-log alterations are judged with the repairing recovery mode's prefix semantics (C12). Panics, dead verifier processes and wrong data are violations; a silent verifier is killed and counted inconclusive.",
   note="Trusted: verifier subprocess protocol. Manifest files are not altered (not named by the property). The value log is read with VLogChecksumLevel::Full.")
CHECKS["C15"] = dict(level="fault_enumeration", engine="E2 + fault injection (LD_PRELOAD layer)", ref="DESIGN.md 3/C15",
   technique="runtime monitor under injected I/O faults: the n-th write / fsync / rename on a file class (commit log, table, manifest, value log) fails with EIO / ENOSPC or is cut short, once or from then on; each faulty run is observed live (fresh reader after every failed commit, marker keys at the end of the run) and through the crash images of its tail opened by the real code",
   text="Operation counts per file class come from a fault-free run of each generated workload; fault positions are then enumerated (every ordinal for classes with up to 12 operations, first / last / seeded ordinals otherwise; every class x once/sticky represented). Checked: a failed commit is invisible to a reader begun right afterwards and at the end of the run; no panic; in every crash image from the fault on, failed transactions are absent, every transaction acknowledged before the crash point is present, the state is a commit prefix and the store opens and reads. One open known finding (a commit that fails at the commit log stays in the log and is replayed) is reported as KNOWN-FINDING by a directed fault scenario and exactly that pattern is masked in the campaign.",
   note="Trusted: LD_PRELOAD fault injector and recorder, image builder. After a background failure the worker does not flush again (as the store's own tasks), and it never runs two flushes at once.")
order = ["C01","C02","C03","C04","C05","C06","C07","C08","C09","C10","C11","C12","C13","C14","C15","C16","C17","C18","C19"]
checks=[]
for pid in order:
    if pid not in CHECKS: continue
    c=CHECKS[pid]
    checks.append({
      "property_id":pid,
      "quick_cmd":f"./check {pid} --tier quick",
      "thorough_cmd":f"./check {pid} --tier thorough",
      "evidence_file":f"/verif/evidence/{pid}.json",
      "replay_cmd_template":f"./check {pid} --replay {{path}}",
      "engine":c["engine"],
      "level_claimed":{"category":c["level"],"text":c["text"],"design_ref":c["ref"]},
      "level_note":c["note"] + (" Thorough tier additionally runs the quick workload in an AddressSanitizer build" + (" and a ThreadSanitizer build" if pid in ("C01","C04","C05","C17") else "") + " of the harness; a sanitizer report is a violation (DESIGN.md section 4)." if pid in ("C01","C04","C05","C06","C08","C10","C11","C12","C13","C14","C16","C17","C18") else ""),
      "technique":c["technique"],
    })
na=[{"property_id":p["id"],"reason":"monitor not built yet in this session (work in progress, DESIGN.md section 8 build order); not a claim that the technique cannot apply"} for p in props if p["id"] not in CHECKS]
m={"version":1,
 "setup_cmd":"cd /verif && gcc -O2 -shared -fPIC -o shim/iotrace.so shim/iotrace.c -ldl -lpthread && cd harness && CARGO_NET_OFFLINE=true cargo build --release --offline",
 "hooks":{"guard":"cargo feature `verif` of surrealkv (off by default)","enable":"the harness depends on surrealkv (path /repo) with features=[\"verif\"]; every check rebuilds it from the working tree","baseline_off_cmd":"cd /repo && cargo test --workspace --no-fail-fast --offline","source_commits":hook_commits,"add_only":True},
 "engines":[
   {"name":"E1","path":"harness/src/e1.rs","serves_properties":["C01","C06","C07","C09","C10","C11","C14"],"kind_free_text":"placement-fuzzed differential monitor against a sequential reference model (single driver)"},
   {"name":"E2","path":"harness/src/e2.rs, harness/src/trace.rs, shim/iotrace.c","serves_properties":["C02","C03","C07","C11"],"kind_free_text":"LD_PRELOAD syscall recorder -> synthesised crash images (process / power loss) -> verifier subprocess pool running the real code"},
   {"name":"E3","path":"harness/src/e3.rs, harness/src/props/conc.rs","serves_properties":["C01","C04","C05","C17"],"kind_free_text":"concurrent histories recorded at the client boundary (tick counter), point-hook controller (seeded delays, gates, probes from inside yield points), offline checkers, quiescence watchdog"},
 ],
 "checks":checks,"not_applicable":na,
 "notes":"See DESIGN.md. known_findings.json lists the defects found on the unchanged tree; all listed so far are repaired by fix: commits and their directed scenarios stay in the checks as regression monitors."}
json.dump(m,open('/verif/MANIFEST.json','w'),indent=1)
print("claimed:",[c["property_id"] for c in checks])
