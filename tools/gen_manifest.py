#!/usr/bin/env python3
"""Regenerates /verif/MANIFEST.json. The table CHECKS below is the single place where a
property's claim is described; properties not in it are listed under not_applicable."""
import json, subprocess
props = [json.loads(l) for l in open('/verif/properties.jsonl')]
hook_commits = subprocess.run(["git","-C","/repo","log","--format=%h","--grep=^verif hooks"],capture_output=True,text=True).stdout.split()

CHECKS = {
 "C01": dict(level="exploration", engine="E1+E3", ref="DESIGN.md 3/C01",
   technique="runtime monitor: reads of long-lived transactions compared with a reference model at the reader's horizon while rotate/flush/compaction run in between",
   text="Held on the generated multi-reader histories (readers sharing a start point, readers holding range cursors, readers with pending writes) x placement schedules x option sets counted in the evidence. Every get / scan element / cursor step of every open reader equals the model at that reader's horizon. Sampling of histories and schedules, not enumeration.",
   note="Trusted: reference model; verif hooks (rotate/flush/one compaction round, Transaction::verif_start_seq, snapshot registry dump)."),
 "C02": dict(level="fault_enumeration", engine="E2", ref="DESIGN.md 3/C02, 2.4",
   technique="recorded syscall trace of real runs -> every crash image (process crash / power loss with byte cuts) opened by the real code; acknowledged-commit set from client-side ACK markers",
   text="Every file-operation boundary of the traced executions is a crash point; at each, the process-crash image and the power-loss images (none / cuts at write boundaries / torn cuts inside the first unsynced write / single-file keep or lose) are opened by the real code and every transaction acknowledged (resp. acknowledged as durable) before that point must be in the recovered prefix. Enumeration over the traced runs; the runs themselves are sampled.",
   note="Trusted: LD_PRELOAD recorder (shim/iotrace.c) and the image builder (harness/src/trace.rs); power-loss model as stated in the property (ordered namespace, per-file synced prefix)."),
 "C03": dict(level="fault_enumeration", engine="E2", ref="DESIGN.md 3/C03",
   technique="same crash images as C02; recovered state compared with every prefix of the commit order (self-identifying values, per-transaction marker keys)",
   text="At every enumerated crash image the recovered key/value state must equal the model after some prefix of the commit order: whole transactions only, no gaps, nothing deleted or overwritten inside the prefix reappears.",
   note="Trusted: as C02. Commit order = sequence numbers of marker keys read back at the public boundary."),
 "C06": dict(level="exploration", engine="E1", ref="DESIGN.md 3/C06, 2.3",
   technique="runtime differential monitor: real store vs sequential reference model under fuzzed physical placement (rotate/flush/compaction/reopen) and option sets",
   text="Held on the generated logical histories x placement schedules x option sets listed in the evidence: every get and every forward/backward scan after every step equals the reference model, so executions that differ only in placement agree. Sampling, not enumeration.",
   note="Trusted: reference model; verif hooks; single driver thread with background tasks in manual mode."),
 "C07": dict(level="fault_enumeration", engine="E1+E2", ref="DESIGN.md 3/C07",
   technique="clean close+reopen woven into fuzzed histories (model comparison after every reopen) + every enumerated crash image must open, open twice identically, and accept a probe commit that survives another reopen",
   text="Clean part: generated histories with close/reopen (also twice in a row and with a different format-compatible option set) after arbitrary flush/compaction shapes. Crash part: every enumerated crash image of the traced runs opens without error; a seeded subset also gets a probe commit (new key + overwrite of a recovered key), read back immediately and after another reopen.",
   note="Trusted: as C02 and C06. Crash points inside recovery itself are covered only through the probe reopen (recovery is not yet traced a second generation)."),
}
order = ["C01","C02","C03","C04","C05","C06","C07","C08","C09","C10","C11","C12","C13","C14","C15","C16","C17","C18","C19"]
checks=[]
for pid in order:
    if pid not in CHECKS: continue
    c=CHECKS[pid]
    checks.append({
      "property_id":pid,
      "quick_cmd":f"./check {pid} --tier quick",
      "thorough_cmd":f"./check {pid} --tier thorough",
      "evidence_file":f"/verif/evidence/{pid}.json",
      "replay_cmd_template":f"./check {pid} --replay {{path}}",
      "engine":c["engine"],
      "level_claimed":{"category":c["level"],"text":c["text"],"design_ref":c["ref"]},
      "level_note":c["note"],
      "technique":c["technique"],
    })
na=[{"property_id":p["id"],"reason":"monitor not built yet in this session (work in progress, DESIGN.md section 8 build order); not a claim that the technique cannot apply"} for p in props if p["id"] not in CHECKS]
m={"version":1,
 "setup_cmd":"cd /verif && gcc -O2 -shared -fPIC -o shim/iotrace.so shim/iotrace.c -ldl -lpthread && cd harness && CARGO_NET_OFFLINE=true cargo build --release --offline",
 "hooks":{"guard":"cargo feature `verif` of surrealkv (off by default)","enable":"the harness depends on surrealkv (path /repo) with features=[\"verif\"]; every check rebuilds it from the working tree","baseline_off_cmd":"cd /repo && cargo test --workspace --no-fail-fast --offline","source_commits":hook_commits,"add_only":True},
 "engines":[
   {"name":"E1","path":"harness/src/e1.rs","serves_properties":["C01","C06","C07"],"kind_free_text":"placement-fuzzed differential monitor against a sequential reference model (single driver)"},
   {"name":"E2","path":"harness/src/e2.rs, harness/src/trace.rs, shim/iotrace.c","serves_properties":["C02","C03","C07"],"kind_free_text":"LD_PRELOAD syscall recorder -> synthesised crash images (process / power loss) -> verifier subprocess pool running the real code"},
 ],
 "checks":checks,"not_applicable":na,
 "notes":"See DESIGN.md. known_findings.json lists the defects found on the unchanged tree; all listed so far are repaired by fix: commits and their directed scenarios stay in the checks as regression monitors."}
json.dump(m,open('/verif/MANIFEST.json','w'),indent=1)
print("claimed:",[c["property_id"] for c in checks])
