// LD_PRELOAD recorder + fault injector for the crash / fault engine (E2).
//
// Records, in one total order (process-wide lock around the real call + the append of the
// trace record), every file-system operation on paths under $VERIF_ROOT:
//   open/openat/creat, write/pwrite/writev, ftruncate, fsync/fdatasync/sync_file_range,
//   rename*, unlink*, mkdir*, rmdir, close, dup*/fcntl(F_DUPFD*), link*, copy_file_range.
// Marker records are injected by the traced program with write(MARKER_FD, ...).
// Fault injection: VERIF_FAULT=<class>:<ordinal>:<kind>:<once|sticky>
//   class = wal.write wal.fsync sst.write sst.fsync manifest.write manifest.fsync manifest.rename
//           vlog.write vlog.fsync index.write index.fsync dir.fsync any.open
//   kind  = eio | enospc | short
//
// Trace record (little endian):
//   u32 total_len (of what follows) | u8 op | u32 tid | i32 fd | i32 fd2 | i64 off | i64 len |
//   i64 res | i32 err | u32 flags | u64 ino | u16 plen | u16 p2len | u32 dlen | path | path2 | data
#define _GNU_SOURCE
#include <dlfcn.h>
#include <errno.h>
#include <fcntl.h>
#include <pthread.h>
#include <stdarg.h>
#include <stdint.h>
#include <stdio.h>
#include <stdlib.h>
#include <string.h>
#include <sys/stat.h>
#include <sys/syscall.h>
#include <sys/types.h>
#include <sys/uio.h>
#include <unistd.h>

#define MARKER_FD (-7777)
#define MAXFD 65536

enum { OP_OPEN = 1, OP_WRITE, OP_PWRITE, OP_TRUNC, OP_FSYNC, OP_RENAME, OP_UNLINK, OP_MKDIR, OP_RMDIR, OP_CLOSE, OP_DUP, OP_LINK, OP_COPY, OP_MARK, OP_FAULT };

static int (*real_open)(const char *, int, ...);
static int (*real_open64)(const char *, int, ...);
static int (*real_openat)(int, const char *, int, ...);
static int (*real_openat64)(int, const char *, int, ...);
static int (*real_creat)(const char *, mode_t);
static ssize_t (*real_write)(int, const void *, size_t);
static ssize_t (*real_pwrite)(int, const void *, size_t, off_t);
static ssize_t (*real_pwrite64)(int, const void *, size_t, off_t);
static ssize_t (*real_writev)(int, const struct iovec *, int);
static int (*real_ftruncate)(int, off_t);
static int (*real_ftruncate64)(int, off_t);
static int (*real_fsync)(int);
static int (*real_fdatasync)(int);
static int (*real_sync_file_range)(int, off64_t, off64_t, unsigned int);
static int (*real_rename)(const char *, const char *);
static int (*real_renameat)(int, const char *, int, const char *);
static int (*real_renameat2)(int, const char *, int, const char *, unsigned int);
static int (*real_unlink)(const char *);
static int (*real_unlinkat)(int, const char *, int);
static int (*real_mkdir)(const char *, mode_t);
static int (*real_mkdirat)(int, const char *, mode_t);
static int (*real_rmdir)(const char *);
static int (*real_close)(int);
static int (*real_dup)(int);
static int (*real_dup2)(int, int);
static int (*real_dup3)(int, int, int);
static int (*real_fcntl)(int, int, ...);
static int (*real_fcntl64)(int, int, ...);
static int (*real_link)(const char *, const char *);
static int (*real_linkat)(int, const char *, int, const char *, int);
static ssize_t (*real_copy_file_range)(int, off64_t *, int, off64_t *, size_t, unsigned int);

static pthread_mutex_t mu = PTHREAD_MUTEX_INITIALIZER;
static int trace_fd = -1;
static char root[4096];
static size_t rootlen = 0;
static char *fdpath[MAXFD];
static int inited = 0;

// fault injection
static char f_class[64];
static long f_ordinal = -1;
static int f_kind = 0; // 1 eio 2 enospc 3 short
static int f_sticky = 0;
static int f_fired = 0;
static long counters[32];
static const char *classes[] = {"wal.write", "wal.fsync", "sst.write", "sst.fsync", "manifest.write", "manifest.fsync", "manifest.rename", "vlog.write", "vlog.fsync", "index.write", "index.fsync", "dir.fsync", "any.open", NULL};

static void init(void) {
  if (inited) return;
  inited = 1;
#define L(n) real_##n = dlsym(RTLD_NEXT, #n)
  L(open); L(open64); L(openat); L(openat64); L(creat); L(write); L(pwrite); L(pwrite64); L(writev);
  L(ftruncate); L(ftruncate64); L(fsync); L(fdatasync); L(sync_file_range); L(rename); L(renameat);
  L(renameat2); L(unlink); L(unlinkat); L(mkdir); L(mkdirat); L(rmdir); L(close); L(dup); L(dup2); L(dup3);
  L(fcntl); L(fcntl64); L(link); L(linkat); L(copy_file_range);
  const char *r = getenv("VERIF_ROOT");
  const char *t = getenv("VERIF_TRACE");
  if (r && t) {
    if (!realpath(r, root)) strncpy(root, r, sizeof(root) - 1);
    rootlen = strlen(root);
    trace_fd = real_open ? real_open(t, O_WRONLY | O_CREAT | O_APPEND | O_CLOEXEC, 0644) : -1;
    if (trace_fd >= 0 && trace_fd < 1000) { // move out of the way of the program's fds
      int nfd = real_fcntl ? real_fcntl(trace_fd, F_DUPFD_CLOEXEC, 1000) : -1;
      if (nfd >= 0) { real_close(trace_fd); trace_fd = nfd; }
    }
  }
  const char *f = getenv("VERIF_FAULT");
  if (f) {
    char buf[256]; strncpy(buf, f, sizeof(buf) - 1); buf[sizeof(buf) - 1] = 0;
    char *a = strtok(buf, ":"), *b = strtok(NULL, ":"), *c = strtok(NULL, ":"), *d = strtok(NULL, ":");
    if (a && b && c) {
      strncpy(f_class, a, sizeof(f_class) - 1);
      f_ordinal = atol(b);
      f_kind = !strcmp(c, "eio") ? 1 : !strcmp(c, "enospc") ? 2 : !strcmp(c, "short") ? 3 : 0;
      f_sticky = d && !strcmp(d, "sticky");
    }
  }
}

__attribute__((constructor)) static void ctor(void) { init(); }

static int under_root(const char *p) {
  return rootlen && p && !strncmp(p, root, rootlen) && (p[rootlen] == '/' || p[rootlen] == 0);
}

static void emit(uint8_t op, int fd, int fd2, int64_t off, int64_t len, int64_t res, int err, uint32_t flags, uint64_t ino,
                 const char *p, const char *p2, const void *data, uint32_t dlen) {
  if (trace_fd < 0) return;
  uint16_t pl = p ? (uint16_t)strlen(p) : 0, p2l = p2 ? (uint16_t)strlen(p2) : 0;
  uint32_t body = 1 + 4 + 4 + 4 + 8 + 8 + 8 + 4 + 4 + 8 + 2 + 2 + 4 + pl + p2l + dlen;
  char *buf = malloc(4 + body);
  if (!buf) return;
  char *q = buf;
  uint32_t tid = (uint32_t)syscall(SYS_gettid);
#define PUT(v) memcpy(q, &(v), sizeof(v)); q += sizeof(v)
  PUT(body); PUT(op); PUT(tid); PUT(fd); PUT(fd2); PUT(off); PUT(len); PUT(res); PUT(err); PUT(flags); PUT(ino); PUT(pl); PUT(p2l); PUT(dlen);
  if (pl) { memcpy(q, p, pl); q += pl; }
  if (p2l) { memcpy(q, p2, p2l); q += p2l; }
  if (dlen) { memcpy(q, data, dlen); q += dlen; }
  size_t tot = q - buf, done = 0;
  while (done < tot) {
    ssize_t w = real_write(trace_fd, buf + done, tot - done);
    if (w <= 0) break;
    done += w;
  }
  free(buf);
}

static const char *path_of(int fd) { return (fd >= 0 && fd < MAXFD) ? fdpath[fd] : NULL; }

static void set_path(int fd, const char *p) {
  if (fd < 0 || fd >= MAXFD) return;
  if (fdpath[fd]) { free(fdpath[fd]); fdpath[fd] = NULL; }
  if (p) fdpath[fd] = strdup(p);
}

static const char *file_class(const char *p) {
  size_t n = strlen(p);
  if (n > 4 && !strcmp(p + n - 4, ".wal")) return "wal";
  if (n > 4 && !strcmp(p + n - 4, ".sst")) return "sst";
  if (n > 5 && !strcmp(p + n - 5, ".vlog")) return "vlog";
  if (n > 4 && !strcmp(p + n - 4, ".bpt")) return "index";
  if (strstr(p, "/manifest/")) return "manifest";
  return NULL;
}

// returns errno to inject (0 = none), *shortw set for short write
static int fault(const char *p, const char *opk, int is_dir, int *shortw) {
  if (!f_kind || !p) return 0;
  char cls[64];
  const char *fc = is_dir ? "dir" : file_class(p);
  if (!strcmp(opk, "open")) fc = "any";
  if (!fc) return 0;
  snprintf(cls, sizeof cls, "%s.%s", fc, opk);
  int idx = -1;
  for (int i = 0; classes[i]; i++) if (!strcmp(classes[i], cls)) idx = i;
  if (idx < 0) return 0;
  long n = counters[idx]++;
  if (strcmp(cls, f_class)) return 0;
  if ((f_sticky && n >= f_ordinal) || (!f_sticky && n == f_ordinal && !f_fired)) {
    f_fired = 1;
    emit(OP_FAULT, -1, -1, n, 0, 0, 0, f_kind, 0, p, cls, NULL, 0);
    if (f_kind == 3) { *shortw = 1; return 0; }
    return f_kind == 2 ? ENOSPC : EIO;
  }
  return 0;
}

static uint64_t ino_of(int fd) { struct stat st; if (fstat(fd, &st) == 0) return st.st_ino; return 0; }

static void abspath(int dirfd, const char *p, char *out, size_t n) {
  if (p[0] == '/' || dirfd == AT_FDCWD) {
    if (p[0] == '/') { strncpy(out, p, n - 1); out[n - 1] = 0; }
    else { char cwd[2048]; if (!getcwd(cwd, sizeof cwd)) cwd[0] = 0; snprintf(out, n, "%s/%s", cwd, p); }
  } else {
    const char *d = path_of(dirfd);
    if (d) snprintf(out, n, "%s/%s", d, p); else { strncpy(out, p, n - 1); out[n - 1] = 0; }
  }
}

static int do_open(int which, int dirfd, const char *path, int flags, mode_t mode) {
  init();
  char ap[4096];
  abspath(dirfd, path, ap, sizeof ap);
  int tr = under_root(ap);
  if (!tr) {
    switch (which) {
      case 0: return real_open(path, flags, mode);
      case 1: return real_open64(path, flags, mode);
      case 2: return real_openat(dirfd, path, flags, mode);
      default: return real_openat64(dirfd, path, flags, mode);
    }
  }
  pthread_mutex_lock(&mu);
  int sw = 0, fe = fault(ap, "open", 0, &sw);
  int fd, err = 0;
  if (fe) { fd = -1; err = fe; }
  else {
    switch (which) {
      case 0: fd = real_open(path, flags, mode); break;
      case 1: fd = real_open64(path, flags, mode); break;
      case 2: fd = real_openat(dirfd, path, flags, mode); break;
      default: fd = real_openat64(dirfd, path, flags, mode); break;
    }
    err = fd < 0 ? errno : 0;
  }
  if (fd >= 0) set_path(fd, ap);
  emit(OP_OPEN, fd, -1, 0, 0, fd, err, (uint32_t)flags, fd >= 0 ? ino_of(fd) : 0, ap, NULL, NULL, 0);
  pthread_mutex_unlock(&mu);
  if (fd < 0) errno = err;
  return fd;
}

int open(const char *path, int flags, ...) { mode_t m = 0; if (flags & (O_CREAT | O_TMPFILE)) { va_list a; va_start(a, flags); m = va_arg(a, mode_t); va_end(a); } return do_open(0, AT_FDCWD, path, flags, m); }
int open64(const char *path, int flags, ...) { mode_t m = 0; if (flags & (O_CREAT | O_TMPFILE)) { va_list a; va_start(a, flags); m = va_arg(a, mode_t); va_end(a); } return do_open(1, AT_FDCWD, path, flags, m); }
int openat(int d, const char *path, int flags, ...) { mode_t m = 0; if (flags & (O_CREAT | O_TMPFILE)) { va_list a; va_start(a, flags); m = va_arg(a, mode_t); va_end(a); } return do_open(2, d, path, flags, m); }
int openat64(int d, const char *path, int flags, ...) { mode_t m = 0; if (flags & (O_CREAT | O_TMPFILE)) { va_list a; va_start(a, flags); m = va_arg(a, mode_t); va_end(a); } return do_open(3, d, path, flags, m); }
int creat(const char *path, mode_t m) { return do_open(0, AT_FDCWD, path, O_CREAT | O_WRONLY | O_TRUNC, m); }

static int64_t cur_off(int fd) {
  int fl = real_fcntl(fd, F_GETFL);
  if (fl >= 0 && (fl & O_APPEND)) { struct stat st; if (fstat(fd, &st) == 0) return st.st_size; }
  return (int64_t)lseek(fd, 0, SEEK_CUR);
}

ssize_t write(int fd, const void *buf, size_t n) {
  init();
  if (fd == MARKER_FD) {
    pthread_mutex_lock(&mu);
    emit(OP_MARK, -1, -1, 0, (int64_t)n, 0, 0, 0, 0, NULL, NULL, buf, (uint32_t)n);
    pthread_mutex_unlock(&mu);
    return (ssize_t)n;
  }
  const char *p = path_of(fd);
  if (!p) return real_write(fd, buf, n);
  pthread_mutex_lock(&mu);
  int sw = 0, fe = fault(p, "write", 0, &sw);
  int64_t off = cur_off(fd);
  ssize_t r; int err = 0;
  if (fe) { r = -1; err = fe; }
  else { size_t m = (sw && n > 1) ? n / 2 : n; r = real_write(fd, buf, m); err = r < 0 ? errno : 0; }
  emit(OP_WRITE, fd, -1, off, (int64_t)n, r, err, 0, 0, p, NULL, buf, r > 0 ? (uint32_t)r : 0);
  pthread_mutex_unlock(&mu);
  if (r < 0) errno = err;
  return r;
}

ssize_t writev(int fd, const struct iovec *iov, int cnt) {
  init();
  const char *p = path_of(fd);
  if (!p) return real_writev(fd, iov, cnt);
  // flatten: semantics of a single write
  size_t tot = 0; for (int i = 0; i < cnt; i++) tot += iov[i].iov_len;
  char *b = malloc(tot ? tot : 1); size_t o = 0;
  for (int i = 0; i < cnt; i++) { memcpy(b + o, iov[i].iov_base, iov[i].iov_len); o += iov[i].iov_len; }
  ssize_t r = write(fd, b, tot);
  free(b);
  return r;
}

static ssize_t do_pwrite(int which, int fd, const void *buf, size_t n, off_t off) {
  init();
  const char *p = path_of(fd);
  if (!p) return which ? real_pwrite64(fd, buf, n, off) : real_pwrite(fd, buf, n, off);
  pthread_mutex_lock(&mu);
  int sw = 0, fe = fault(p, "write", 0, &sw);
  ssize_t r; int err = 0;
  if (fe) { r = -1; err = fe; }
  else { size_t m = (sw && n > 1) ? n / 2 : n; r = which ? real_pwrite64(fd, buf, m, off) : real_pwrite(fd, buf, m, off); err = r < 0 ? errno : 0; }
  emit(OP_PWRITE, fd, -1, (int64_t)off, (int64_t)n, r, err, 0, 0, p, NULL, buf, r > 0 ? (uint32_t)r : 0);
  pthread_mutex_unlock(&mu);
  if (r < 0) errno = err;
  return r;
}
ssize_t pwrite(int fd, const void *b, size_t n, off_t o) { return do_pwrite(0, fd, b, n, o); }
ssize_t pwrite64(int fd, const void *b, size_t n, off_t o) { return do_pwrite(1, fd, b, n, o); }

static int do_trunc(int which, int fd, off_t len) {
  init();
  const char *p = path_of(fd);
  if (!p) return which ? real_ftruncate64(fd, len) : real_ftruncate(fd, len);
  pthread_mutex_lock(&mu);
  int r = which ? real_ftruncate64(fd, len) : real_ftruncate(fd, len);
  int err = r < 0 ? errno : 0;
  emit(OP_TRUNC, fd, -1, 0, (int64_t)len, r, err, 0, 0, p, NULL, NULL, 0);
  pthread_mutex_unlock(&mu);
  if (r < 0) errno = err;
  return r;
}
int ftruncate(int fd, off_t l) { return do_trunc(0, fd, l); }
int ftruncate64(int fd, off_t l) { return do_trunc(1, fd, l); }

static int do_sync(int which, int fd) {
  init();
  const char *p = path_of(fd);
  if (!p) return which == 0 ? real_fsync(fd) : real_fdatasync(fd);
  pthread_mutex_lock(&mu);
  struct stat st; int isdir = (fstat(fd, &st) == 0 && S_ISDIR(st.st_mode));
  int sw = 0, fe = fault(p, "fsync", isdir, &sw);
  int r, err = 0;
  if (fe) { r = -1; err = fe; }
  else { r = which == 0 ? real_fsync(fd) : real_fdatasync(fd); err = r < 0 ? errno : 0; }
  emit(OP_FSYNC, fd, -1, 0, 0, r, err, (uint32_t)isdir, 0, p, NULL, NULL, 0);
  pthread_mutex_unlock(&mu);
  if (r < 0) errno = err;
  return r;
}
int fsync(int fd) { return do_sync(0, fd); }
int fdatasync(int fd) { return do_sync(1, fd); }
int sync_file_range(int fd, off64_t o, off64_t n, unsigned int f) { (void)o; (void)n; (void)f; return do_sync(1, fd); }

static int do_rename(int od, const char *o, int nd, const char *n, unsigned int fl, int which) {
  init();
  char ao[4096], an[4096];
  abspath(od, o, ao, sizeof ao); abspath(nd, n, an, sizeof an);
  if (!under_root(ao) && !under_root(an)) {
    if (which == 0) return real_rename(o, n);
    if (which == 1) return real_renameat(od, o, nd, n);
    return real_renameat2(od, o, nd, n, fl);
  }
  pthread_mutex_lock(&mu);
  int sw = 0, fe = fault(an, "rename", 0, &sw);
  int r, err = 0;
  if (fe) { r = -1; err = fe; }
  else {
    r = which == 0 ? real_rename(o, n) : which == 1 ? real_renameat(od, o, nd, n) : real_renameat2(od, o, nd, n, fl);
    err = r < 0 ? errno : 0;
  }
  emit(OP_RENAME, -1, -1, 0, 0, r, err, fl, 0, ao, an, NULL, 0);
  pthread_mutex_unlock(&mu);
  if (r < 0) errno = err;
  return r;
}
int rename(const char *o, const char *n) { return do_rename(AT_FDCWD, o, AT_FDCWD, n, 0, 0); }
int renameat(int od, const char *o, int nd, const char *n) { return do_rename(od, o, nd, n, 0, 1); }
int renameat2(int od, const char *o, int nd, const char *n, unsigned int f) { return do_rename(od, o, nd, n, f, 2); }

static int do_unlink(int d, const char *path, int flags, int which) {
  init();
  char ap[4096]; abspath(d, path, ap, sizeof ap);
  if (!under_root(ap)) return which ? real_unlinkat(d, path, flags) : real_unlink(path);
  pthread_mutex_lock(&mu);
  int r = which ? real_unlinkat(d, path, flags) : real_unlink(path);
  int err = r < 0 ? errno : 0;
  emit((which && (flags & AT_REMOVEDIR)) ? OP_RMDIR : OP_UNLINK, -1, -1, 0, 0, r, err, (uint32_t)flags, 0, ap, NULL, NULL, 0);
  pthread_mutex_unlock(&mu);
  if (r < 0) errno = err;
  return r;
}
int unlink(const char *p) { return do_unlink(AT_FDCWD, p, 0, 0); }
int unlinkat(int d, const char *p, int f) { return do_unlink(d, p, f, 1); }

static int do_mkdir(int d, const char *path, mode_t m, int which) {
  init();
  char ap[4096]; abspath(d, path, ap, sizeof ap);
  if (!under_root(ap)) return which ? real_mkdirat(d, path, m) : real_mkdir(path, m);
  pthread_mutex_lock(&mu);
  int r = which ? real_mkdirat(d, path, m) : real_mkdir(path, m);
  int err = r < 0 ? errno : 0;
  emit(OP_MKDIR, -1, -1, 0, 0, r, err, 0, 0, ap, NULL, NULL, 0);
  pthread_mutex_unlock(&mu);
  if (r < 0) errno = err;
  return r;
}
int mkdir(const char *p, mode_t m) { return do_mkdir(AT_FDCWD, p, m, 0); }
int mkdirat(int d, const char *p, mode_t m) { return do_mkdir(d, p, m, 1); }

int rmdir(const char *path) {
  init();
  char ap[4096]; abspath(AT_FDCWD, path, ap, sizeof ap);
  if (!under_root(ap)) return real_rmdir(path);
  pthread_mutex_lock(&mu);
  int r = real_rmdir(path); int err = r < 0 ? errno : 0;
  emit(OP_RMDIR, -1, -1, 0, 0, r, err, 0, 0, ap, NULL, NULL, 0);
  pthread_mutex_unlock(&mu);
  if (r < 0) errno = err;
  return r;
}

int close(int fd) {
  init();
  if (fd == trace_fd && fd >= 0) return 0; // the program must not close the trace
  const char *p = path_of(fd);
  if (!p) return real_close(fd);
  pthread_mutex_lock(&mu);
  int r = real_close(fd); int err = r < 0 ? errno : 0;
  emit(OP_CLOSE, fd, -1, 0, 0, r, err, 0, 0, p, NULL, NULL, 0);
  set_path(fd, NULL);
  pthread_mutex_unlock(&mu);
  if (r < 0) errno = err;
  return r;
}

static void note_dup(int oldfd, int newfd) {
  const char *p = path_of(oldfd);
  if (p && newfd >= 0) {
    char *c = strdup(p);
    set_path(newfd, c);
    emit(OP_DUP, oldfd, newfd, 0, 0, newfd, 0, 0, 0, c, NULL, NULL, 0);
    free(c);
  }
}
int dup(int fd) { init(); pthread_mutex_lock(&mu); int r = real_dup(fd); note_dup(fd, r); pthread_mutex_unlock(&mu); return r; }
int dup2(int a, int b) { init(); pthread_mutex_lock(&mu); int r = real_dup2(a, b); if (r >= 0 && a != b) { if (path_of(b)) { emit(OP_CLOSE, b, -1, 0, 0, 0, 0, 0, 0, path_of(b), NULL, NULL, 0); set_path(b, NULL); } note_dup(a, r); } pthread_mutex_unlock(&mu); return r; }
int dup3(int a, int b, int f) { init(); pthread_mutex_lock(&mu); int r = real_dup3(a, b, f); if (r >= 0) { if (path_of(b)) { emit(OP_CLOSE, b, -1, 0, 0, 0, 0, 0, 0, path_of(b), NULL, NULL, 0); set_path(b, NULL); } note_dup(a, r); } pthread_mutex_unlock(&mu); return r; }

static int do_fcntl(int which, int fd, int cmd, long arg) {
  init();
  int (*f)(int, int, ...) = (which && real_fcntl64) ? real_fcntl64 : real_fcntl;
  if (cmd == F_DUPFD || cmd == F_DUPFD_CLOEXEC) {
    pthread_mutex_lock(&mu);
    int r = f(fd, cmd, arg);
    int e = errno;
    note_dup(fd, r);
    pthread_mutex_unlock(&mu);
    errno = e;
    return r;
  }
  return f(fd, cmd, arg);
}
int fcntl(int fd, int cmd, ...) { va_list a; va_start(a, cmd); long arg = va_arg(a, long); va_end(a); return do_fcntl(0, fd, cmd, arg); }
int fcntl64(int fd, int cmd, ...) { va_list a; va_start(a, cmd); long arg = va_arg(a, long); va_end(a); return do_fcntl(1, fd, cmd, arg); }

static int do_link(int od, const char *o, int nd, const char *n, int fl, int which) {
  init();
  char ao[4096], an[4096]; abspath(od, o, ao, sizeof ao); abspath(nd, n, an, sizeof an);
  if (!under_root(ao) && !under_root(an)) return which ? real_linkat(od, o, nd, n, fl) : real_link(o, n);
  pthread_mutex_lock(&mu);
  int r = which ? real_linkat(od, o, nd, n, fl) : real_link(o, n); int err = r < 0 ? errno : 0;
  emit(OP_LINK, -1, -1, 0, 0, r, err, 0, 0, ao, an, NULL, 0);
  pthread_mutex_unlock(&mu);
  if (r < 0) errno = err;
  return r;
}
int link(const char *o, const char *n) { return do_link(AT_FDCWD, o, AT_FDCWD, n, 0, 0); }
int linkat(int od, const char *o, int nd, const char *n, int f) { return do_link(od, o, nd, n, f, 1); }

ssize_t copy_file_range(int fi, off64_t *oi, int fo, off64_t *oo, size_t len, unsigned int fl) {
  init();
  const char *p = path_of(fo);
  if (!p) return real_copy_file_range(fi, oi, fo, oo, len, fl);
  // make the data visible to the recorder: refuse, so that the caller falls back to read+write
  errno = EXDEV;
  return -1;
}
