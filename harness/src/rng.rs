//! Small deterministic PRNG (splitmix64 seeding + xoshiro256**), written here so that
//! replays never depend on a crate version.

#[derive(Clone, Debug)]
pub struct Rng {
    s: [u64; 4],
}

fn splitmix(x: &mut u64) -> u64 {
    *x = x.wrapping_add(0x9E37_79B9_7F4A_7C15);
    let mut z = *x;
    z = (z ^ (z >> 30)).wrapping_mul(0xBF58_476D_1CE4_E5B9);
    z = (z ^ (z >> 27)).wrapping_mul(0x94D0_49BB_1331_11EB);
    z ^ (z >> 31)
}

impl Rng {
    pub fn new(seed: u64) -> Self {
        let mut x = seed ^ 0xD1B5_4A32_D192_ED03;
        let s = [splitmix(&mut x), splitmix(&mut x), splitmix(&mut x), splitmix(&mut x)];
        Rng { s }
    }
    /// Derive an independent stream.
    pub fn fork(&mut self, tag: u64) -> Rng {
        let a = self.next_u64();
        Rng::new(a ^ tag.wrapping_mul(0x9E37_79B9_7F4A_7C15))
    }
    pub fn next_u64(&mut self) -> u64 {
        let r = self.s[1].wrapping_mul(5).rotate_left(7).wrapping_mul(9);
        let t = self.s[1] << 17;
        self.s[2] ^= self.s[0];
        self.s[3] ^= self.s[1];
        self.s[1] ^= self.s[2];
        self.s[0] ^= self.s[3];
        self.s[2] ^= t;
        self.s[3] = self.s[3].rotate_left(45);
        r
    }
    /// uniform in [0, n)
    pub fn below(&mut self, n: u64) -> u64 {
        if n == 0 {
            return 0;
        }
        self.next_u64() % n
    }
    pub fn range(&mut self, lo: u64, hi_incl: u64) -> u64 {
        lo + self.below(hi_incl - lo + 1)
    }
    pub fn usize(&mut self, n: usize) -> usize {
        self.below(n as u64) as usize
    }
    pub fn chance(&mut self, num: u64, den: u64) -> bool {
        self.below(den) < num
    }
    pub fn pick<'a, T>(&mut self, xs: &'a [T]) -> &'a T {
        &xs[self.usize(xs.len())]
    }
    pub fn shuffle<T>(&mut self, xs: &mut [T]) {
        for i in (1..xs.len()).rev() {
            let j = self.usize(i + 1);
            xs.swap(i, j);
        }
    }
}

/// Deterministic pseudo-random bytes from (seed, a, b) - used for self-identifying values.
pub fn prg_bytes(seed: u64, a: u64, b: u64, len: usize) -> Vec<u8> {
    let mut r = Rng::new(seed ^ a.wrapping_mul(0xA24B_AED4_963E_E407) ^ b.wrapping_mul(0x9FB2_1C65_1E98_DF25));
    let mut v = Vec::with_capacity(len);
    while v.len() < len {
        let x = r.next_u64().to_le_bytes();
        let take = (len - v.len()).min(8);
        v.extend_from_slice(&x[..take]);
    }
    v
}
