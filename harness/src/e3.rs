//! Engine E3: concurrent histories recorded at the client boundary + offline checkers.
//!
//! Every client call is bracketed by an invoke event and a return event stamped from one
//! process-wide tick counter. The H3 point hook injects seeded delays at the yield points,
//! can park one thread at a named gate, and can run a probe transaction from inside a yield
//! point (so intermediate states of the commit pipeline are observed deterministically).

use crate::cfg::Cfg;
use crate::model::{hex, Kind, Model};
use crate::rng::Rng;
use serde_json::{json, Value as J};
use std::cell::Cell;
use std::collections::{BTreeMap, BTreeSet, HashMap};
use std::path::Path;
use std::sync::atomic::{AtomicBool, AtomicU64, AtomicUsize, Ordering};
use std::sync::{Arc, Condvar, Mutex, RwLock};
use surrealkv::{LSMIterator, Mode, Tree};

pub static TICK: AtomicU64 = AtomicU64::new(1);
pub fn tick() -> u64 {
    TICK.fetch_add(1, Ordering::SeqCst)
}

// ---------------------------------------------------------------------------------------
// point hook controller
// ---------------------------------------------------------------------------------------

thread_local! {
    static IN_HOOK: Cell<bool> = const { Cell::new(false) };
}

pub struct Ctl {
    pub delay_pct: AtomicU64,    // probability (0..100) of a delay at a point
    pub max_delay_us: AtomicU64,
    pub probe_pct: AtomicU64,    // probability of a probe at a probe point
    rng: AtomicU64,
    pub point_events: Mutex<Vec<(u64, u64, &'static str)>>, // (tick, thread, point)
    pub record_points: AtomicBool,
    pub gates: Mutex<HashMap<&'static str, Arc<Gate>>>,
    pub tree: RwLock<Option<Arc<Tree>>>,
    pub probes: Mutex<Vec<TxnRec>>,
    pub probe_keys: RwLock<Vec<Vec<u8>>>,
    pub point_hits: Mutex<BTreeMap<&'static str, u64>>,
    pub next_id: AtomicU64,
    /// when non-empty, delays are injected only at points whose name starts with one of these
    pub delay_prefixes: RwLock<Vec<&'static str>>,
    /// one-shot actions: the first thread to reach the point runs the closure there
    pub actions: Mutex<HashMap<&'static str, Arc<dyn Fn() + Send + Sync>>>,
}

pub struct Gate {
    armed: AtomicBool,
    parked: Mutex<bool>,
    released: Mutex<bool>,
    cv: Condvar,
}

impl Gate {
    /// Blocks until a thread is parked at the gate (or timeout). Returns whether one is.
    pub fn wait_parked(&self, ms: u64) -> bool {
        let g = self.parked.lock().unwrap();
        let (g, _) = self.cv.wait_timeout_while(g, std::time::Duration::from_millis(ms), |p| !*p).unwrap();
        *g
    }
    pub fn release(&self) {
        *self.released.lock().unwrap() = true;
        self.cv.notify_all();
    }
}

pub static CTL: std::sync::OnceLock<Arc<Ctl>> = std::sync::OnceLock::new();

pub fn ctl() -> Arc<Ctl> {
    CTL.get_or_init(|| {
        let c = Arc::new(Ctl {
            delay_pct: AtomicU64::new(0),
            max_delay_us: AtomicU64::new(100),
            probe_pct: AtomicU64::new(0),
            rng: AtomicU64::new(0x1234_5678_9abc_def1),
            point_events: Mutex::new(Vec::new()),
            record_points: AtomicBool::new(false),
            gates: Mutex::new(HashMap::new()),
            tree: RwLock::new(None),
            probes: Mutex::new(Vec::new()),
            probe_keys: RwLock::new(Vec::new()),
            point_hits: Mutex::new(BTreeMap::new()),
            next_id: AtomicU64::new(1_000_000_000),
            delay_prefixes: RwLock::new(Vec::new()),
            actions: Mutex::new(HashMap::new()),
        });
        let c2 = c.clone();
        surrealkv::verif::set_point_hook(Some(Arc::new(move |name: &'static str| c2.at_point(name))));
        c
    })
    .clone()
}

fn thread_id() -> u64 {
    // stable small id per OS thread
    thread_local! { static ID: u64 = { static N: AtomicU64 = AtomicU64::new(1); N.fetch_add(1, Ordering::SeqCst) }; }
    ID.with(|i| *i)
}

const PROBE_POINTS: &[&str] = &["commit.after_wal", "commit.after_apply", "commit.after_mark_applied", "publish.dequeued", "publish.after_visible", "commit.after_publish"];

impl Ctl {
    fn rnd(&self) -> u64 {
        // xorshift on a shared atomic; races only add entropy
        let mut x = self.rng.load(Ordering::Relaxed);
        x ^= x << 13;
        x ^= x >> 7;
        x ^= x << 17;
        self.rng.store(x.wrapping_add(0x9E37_79B9_7F4A_7C15), Ordering::Relaxed);
        x
    }
    pub fn reseed(&self, s: u64) {
        self.rng.store(s | 1, Ordering::Relaxed);
    }
    pub fn reset(&self) {
        self.point_events.lock().unwrap().clear();
        self.probes.lock().unwrap().clear();
        self.gates.lock().unwrap().clear();
        self.point_hits.lock().unwrap().clear();
        *self.tree.write().unwrap() = None;
        self.delay_prefixes.write().unwrap().clear();
        self.actions.lock().unwrap().clear();
    }
    /// Runs `f` once, from inside the named yield point, on the first thread that reaches it.
    pub fn at_point_once(&self, name: &'static str, f: Arc<dyn Fn() + Send + Sync>) {
        self.actions.lock().unwrap().insert(name, f);
    }
    pub fn arm_gate(&self, name: &'static str) -> Arc<Gate> {
        let g = Arc::new(Gate { armed: AtomicBool::new(true), parked: Mutex::new(false), released: Mutex::new(false), cv: Condvar::new() });
        self.gates.lock().unwrap().insert(name, g.clone());
        g
    }

    fn at_point(&self, name: &'static str) {
        if IN_HOOK.with(|f| f.get()) {
            return;
        }
        IN_HOOK.with(|f| f.set(true));
        if self.record_points.load(Ordering::Relaxed) {
            self.point_events.lock().unwrap().push((tick(), thread_id(), name));
        }
        *self.point_hits.lock().unwrap().entry(name).or_insert(0) += 1;
        let action = self.actions.lock().unwrap().remove(name);
        if let Some(f) = action {
            f();
        }
        // gate: the first thread to arrive parks until released (bounded wait)
        let gate = self.gates.lock().unwrap().get(name).cloned();
        if let Some(g) = gate {
            if g.armed.swap(false, Ordering::SeqCst) {
                *g.parked.lock().unwrap() = true;
                g.cv.notify_all();
                let r = g.released.lock().unwrap();
                let _ = g.cv.wait_timeout_while(r, std::time::Duration::from_secs(20), |r| !*r).unwrap();
            }
        }
        // probe from inside the yield point
        let pp = self.probe_pct.load(Ordering::Relaxed);
        if pp > 0 && PROBE_POINTS.contains(&name) && self.rnd() % 100 < pp {
            let tree = self.tree.read().unwrap().clone();
            if let Some(t) = tree {
                let keys = self.probe_keys.read().unwrap().clone();
                let id = self.next_id.fetch_add(1, Ordering::SeqCst);
                if let Some(rec) = probe_txn(&t, id, &keys, Some(name)) {
                    self.probes.lock().unwrap().push(rec);
                }
            }
        }
        let dp = self.delay_pct.load(Ordering::Relaxed);
        let wanted = {
            let pre = self.delay_prefixes.read().unwrap();
            pre.is_empty() || pre.iter().any(|p| name.starts_with(p))
        };
        if dp > 0 && wanted && self.rnd() % 100 < dp {
            let us = self.rnd() % self.max_delay_us.load(Ordering::Relaxed).max(1);
            if us < 5 {
                std::thread::yield_now();
            } else {
                std::thread::sleep(std::time::Duration::from_micros(us));
            }
        }
        IN_HOOK.with(|f| f.set(false));
    }
}

// ---------------------------------------------------------------------------------------
// records
// ---------------------------------------------------------------------------------------

#[derive(Clone, Debug, PartialEq)]
pub enum Outcome {
    Ok,
    Conflict,
    Retry,
    Error(String),
    ReadOnly, // prober: nothing to commit
    Open,     // never resolved (stays open to the end of the history)
}

#[derive(Clone, Debug)]
pub struct TxnRec {
    pub id: u64,
    pub kind: &'static str,
    pub client: usize,
    pub start_seq: u64,
    pub begin_invoke: u64,
    pub begin_return: u64,
    pub reads: Vec<(Vec<u8>, Option<Vec<u8>>)>,
    pub writes: Vec<(Kind, Vec<u8>, Vec<u8>)>,
    pub commit_invoke: u64,
    pub commit_return: u64,
    pub outcome: Outcome,
    pub at_point: Option<&'static str>,
    pub read_errors: Vec<String>,
}

pub fn probe_txn(t: &Tree, id: u64, keys: &[Vec<u8>], at: Option<&'static str>) -> Option<TxnRec> {
    let bi = tick();
    let tx = t.begin_with_mode(Mode::ReadOnly).ok()?;
    let br = tick();
    let mut reads = vec![];
    let mut read_errors = vec![];
    for k in keys {
        match tx.get(k) {
            Ok(v) => reads.push((k.clone(), v)),
            Err(e) => read_errors.push(format!("get({}) failed: {e}", hex(k))),
        }
    }
    if std::env::var_os("VERIF_E3_DUMP").is_some() {
        let h = tx.verif_start_seq();
        for (k, v) in &reads {
            if let Ok(d) = t.verif_dump_key(k) {
                DUMPS.lock().unwrap().insert((id, k.clone()), format!("{:?}", d.iter().map(|e| (e.0.clone(), e.1, hex(&e.3[..e.3.len().min(10)]))).collect::<Vec<_>>()));
                if let Some(best) = d.iter().filter(|e| e.1 <= h).max_by_key(|e| e.1) {
                    let got = v.as_ref().map(|b| b[..8.min(b.len())].to_vec()).unwrap_or_default();
                    if !best.0.starts_with('L') && !best.3.windows(got.len().max(1)).any(|w| w == got.as_slice()) {
                        read_errors.push(format!(
                            "IN-SITU stale read of {} at horizon {}: got {:?}, dump {:?}",
                            hex(k),
                            h,
                            got,
                            d.iter().map(|e| (e.0.clone(), e.1, hex(&e.3))).collect::<Vec<_>>()
                        ));
                    }
                }
            }
        }
    }
    Some(TxnRec {
        id,
        kind: "probe",
        client: usize::MAX,
        start_seq: tx.verif_start_seq(),
        begin_invoke: bi,
        begin_return: br,
        reads,
        writes: vec![],
        commit_invoke: 0,
        commit_return: 0,
        outcome: Outcome::ReadOnly,
        at_point: at,
        read_errors,
    })
}

pub static DUMPS: Mutex<BTreeMap<(u64, Vec<u8>), String>> = Mutex::new(BTreeMap::new());
pub const MARK_PREFIX: &[u8] = b"\x00m/";
pub fn marker_key(id: u64) -> Vec<u8> {
    let mut k = MARK_PREFIX.to_vec();
    k.extend_from_slice(format!("{:012}", id).as_bytes());
    k
}

#[derive(Clone, Debug)]
pub struct Params {
    pub committers: usize,
    pub probers: usize,
    pub txns_per_committer: usize,
    pub counters: usize,
    pub lists: usize,
    pub groups: usize,
    pub group_size: usize,
    pub maintenance: bool, // a task issuing rotate/flush/compact while the others run
    pub manual_background: bool,
    pub delay_pct: u64,
    pub max_delay_us: u64,
    pub probe_pct: u64,
    pub long_txn_every: usize, // every n-th transaction stays open across many commits before committing
    pub value_pad: usize,
    pub write_only_pct: u64,
    pub close_midway: bool,
    /// >0: probers keep their transaction open for up to this many microseconds and read again
    pub long_probe_us: u64,
    /// manual background mode: flushes and compaction rounds are issued by two separate tasks
    /// (as the store's own flush and level tasks are), not by one
    pub split_maintenance: bool,
    /// delays only at yield points with these name prefixes (empty = everywhere)
    pub delay_prefixes: Vec<&'static str>,
}

impl Default for Params {
    fn default() -> Self {
        Params {
            committers: 8,
            probers: 2,
            txns_per_committer: 60,
            counters: 3,
            lists: 2,
            groups: 2,
            group_size: 6,
            maintenance: true,
            manual_background: false,
            delay_pct: 20,
            max_delay_us: 150,
            probe_pct: 10,
            long_txn_every: 0,
            value_pad: 0,
            write_only_pct: 20,
            close_midway: false,
            long_probe_us: 0,
            split_maintenance: false,
            delay_prefixes: vec![],
        }
    }
}

pub fn counter_key(i: usize) -> Vec<u8> {
    format!("c{}", i).into_bytes()
}
pub fn list_key(i: usize) -> Vec<u8> {
    format!("l{}", i).into_bytes()
}
pub fn group_key(g: usize, i: usize) -> Vec<u8> {
    format!("g{}/{:02}", g, i).into_bytes()
}

pub struct HistoryOut {
    pub txns: Vec<TxnRec>,
    pub final_state: BTreeMap<Vec<u8>, Vec<u8>>,
    pub marker_seqs: BTreeMap<u64, u64>,
    pub kept_since: u64,
    pub visible_end: u64,
    pub point_events: Vec<(u64, u64, &'static str)>,
    pub point_hits: BTreeMap<&'static str, u64>,
    pub panics: Vec<String>,
    pub stuck: Option<String>,
    pub inconclusive: Option<String>,
    pub close_result: Option<String>,
    pub horizon_regressions: Vec<String>,
    pub final_scan_ok: bool,
}

fn enc_list(ids: &[u64]) -> Vec<u8> {
    let mut v = Vec::with_capacity(ids.len() * 8);
    for i in ids {
        v.extend_from_slice(&i.to_be_bytes());
    }
    v
}
fn dec_list(v: &[u8]) -> Vec<u64> {
    v.chunks(8).filter(|c| c.len() == 8).map(|c| u64::from_be_bytes(c.try_into().unwrap())).collect()
}
fn enc_counter(n: u64, pad: usize) -> Vec<u8> {
    let mut v = n.to_be_bytes().to_vec();
    v.extend(std::iter::repeat(0x2e).take(pad));
    v
}
fn dec_counter(v: &[u8]) -> u64 {
    if v.len() >= 8 {
        u64::from_be_bytes(v[..8].try_into().unwrap())
    } else {
        0
    }
}

fn classify(e: &surrealkv::Error) -> Outcome {
    match e {
        surrealkv::Error::TransactionWriteConflict => Outcome::Conflict,
        surrealkv::Error::TransactionRetry => Outcome::Retry,
        other => Outcome::Error(other.to_string()),
    }
}

/// Runs one concurrent history on a fresh store in `dir` and returns everything recorded.
pub fn run_history(cfg: &Cfg, dir: &Path, p: &Params, seed: u64) -> HistoryOut {
    crate::panics::install();
    let _ = crate::panics::drain_all();
    let c = ctl();
    c.reset();
    c.reseed(seed);
    c.delay_pct.store(p.delay_pct, Ordering::Relaxed);
    c.max_delay_us.store(p.max_delay_us, Ordering::Relaxed);
    c.probe_pct.store(p.probe_pct, Ordering::Relaxed);
    c.record_points.store(true, Ordering::Relaxed);
    *c.delay_prefixes.write().unwrap() = p.delay_prefixes.clone();
    surrealkv::verif::set_manual_background(p.manual_background);
    let _ = std::fs::remove_dir_all(dir);
    let rt = tokio::runtime::Builder::new_multi_thread().worker_threads(12).enable_all().build().unwrap();
    let progress = Arc::new(AtomicU64::new(0));
    let done = Arc::new(AtomicBool::new(false));
    let outstanding = Arc::new(AtomicUsize::new(0));
    // set by the watchdog when no commit has completed for a while: the harness's own
    // activity (probers, maintenance wake-ups) pauses so that the store has to make progress
    // by itself; a lost wake-up then shows as a quiescent process with calls outstanding
    let quiesce = Arc::new(AtomicBool::new(false));
    // E5: quiescence-based watchdog (decides on logical state, not on a deadline)
    let wd = {
        let progress = progress.clone();
        let done = done.clone();
        let outstanding = outstanding.clone();
        let quiesce = quiesce.clone();
        std::thread::spawn(move || -> (Option<String>, Option<String>) {
            let mut last = 0u64;
            let mut idle_samples = 0u32;
            let mut no_commit_samples = 0u32;
            let start = std::time::Instant::now();
            while !done.load(Ordering::SeqCst) {
                std::thread::sleep(std::time::Duration::from_millis(50));
                let p = progress.load(Ordering::SeqCst);
                let (running, _) = thread_states();
                if p == last && outstanding.load(Ordering::SeqCst) > 0 {
                    no_commit_samples += 1;
                } else {
                    no_commit_samples = 0;
                    quiesce.store(false, Ordering::SeqCst);
                }
                if no_commit_samples >= 40 {
                    quiesce.store(true, Ordering::SeqCst);
                }
                if p == last && outstanding.load(Ordering::SeqCst) > 0 && running == 0 {
                    idle_samples += 1;
                } else {
                    idle_samples = 0;
                }
                last = p;
                if idle_samples >= 200 {
                    // 10 s: calls outstanding, no counter moved, every thread parked
                    return (Some(format!("{} client calls outstanding, no progress counter moved and no thread of the process was runnable for 10 s", outstanding.load(Ordering::SeqCst))), None);
                }
                if start.elapsed().as_secs() > 180 {
                    return (None, Some("wall-clock budget (180 s) ended while threads were still runnable or counters still moved".into()));
                }
            }
            (None, None)
        })
    };
    let all: Arc<Mutex<Vec<TxnRec>>> = Arc::new(Mutex::new(Vec::new()));
    let regress: Arc<Mutex<Vec<String>>> = Arc::new(Mutex::new(Vec::new()));
    let cfgc = cfg.clone();
    let pc = p.clone();
    let dirc = dir.to_path_buf();
    let allc = all.clone();
    let regc = regress.clone();
    let progc = progress.clone();
    let outc = outstanding.clone();
    let donec = done.clone();
    let quiescec = quiesce.clone();
    let scan_ok = Arc::new(AtomicBool::new(false));
    let scan_okc = scan_ok.clone();
    let main = std::thread::spawn(move || {
        rt.block_on(async move {
            let tree = match cfgc.open(&dirc) {
                Ok(t) => Arc::new(t),
                Err(e) => return (None, BTreeMap::new(), BTreeMap::new(), 0, 0, Some(format!("open failed: {e}"))),
            };
            let c = ctl();
            *c.tree.write().unwrap() = Some(tree.clone());
            let mut pk = vec![];
            for g in 0..pc.groups {
                for i in 0..pc.group_size {
                    pk.push(group_key(g, i));
                }
            }
            for i in 0..pc.counters {
                pk.push(counter_key(i));
            }
            *c.probe_keys.write().unwrap() = pk.clone();
            let next_id = Arc::new(AtomicU64::new(1));
            let stop = Arc::new(AtomicBool::new(false));
            let mut handles = vec![];
            for ci in 0..pc.committers {
                let tree = tree.clone();
                let pc = pc.clone();
                let all = allc.clone();
                let next_id = next_id.clone();
                let prog = progc.clone();
                let out = outc.clone();
                let reg = regc.clone();
                handles.push(tokio::spawn(async move {
                    let mut r = Rng::new(seed ^ (ci as u64 + 1).wrapping_mul(0x9E37_79B9));
                    let mut last_vis = 0u64;
                    for n in 0..pc.txns_per_committer {
                        let id = next_id.fetch_add(1, Ordering::SeqCst);
                        let kind_sel = r.below(100);
                        let write_only = r.below(100) < pc.write_only_pct && kind_sel >= 60;
                        let bi = tick();
                        out.fetch_add(1, Ordering::SeqCst);
                        let tx = tree.begin_with_mode(if write_only { Mode::WriteOnly } else { Mode::ReadWrite });
                        out.fetch_sub(1, Ordering::SeqCst);
                        let br = tick();
                        let Ok(mut tx) = tx else { continue };
                        let mut rec = TxnRec {
                            id,
                            kind: "",
                            client: ci,
                            start_seq: tx.verif_start_seq(),
                            begin_invoke: bi,
                            begin_return: br,
                            reads: vec![],
                            writes: vec![],
                            commit_invoke: 0,
                            commit_return: 0,
                            outcome: Outcome::Open,
                            at_point: None,
                            read_errors: vec![],
                        };
                        // marker first: its sequence number is the transaction's first
                        let mk = marker_key(id);
                        let mv = id.to_be_bytes().to_vec();
                        let _ = tx.set(&mk, &mv);
                        rec.writes.push((Kind::Set, mk, mv));
                        if kind_sel < 35 && pc.counters > 0 {
                            rec.kind = "rmw";
                            let k = counter_key(r.usize(pc.counters));
                            let cur = match tx.get(&k) {
                                Ok(v) => v,
                                Err(e) => {
                                    rec.read_errors.push(format!("get({}) failed: {e}", hex(&k)));
                                    rec.outcome = Outcome::Error(format!("read failed: {e}"));
                                    all.lock().unwrap().push(rec);
                                    continue;
                                }
                            };
                            rec.reads.push((k.clone(), cur.clone()));
                            let v = enc_counter(cur.as_deref().map(dec_counter).unwrap_or(0) + 1, pc.value_pad);
                            let _ = tx.set(&k, &v);
                            rec.writes.push((Kind::Set, k, v));
                        } else if kind_sel < 60 && pc.lists > 0 {
                            rec.kind = "append";
                            let k = list_key(r.usize(pc.lists));
                            let cur = match tx.get(&k) {
                                Ok(v) => v,
                                Err(e) => {
                                    rec.read_errors.push(format!("get({}) failed: {e}", hex(&k)));
                                    rec.outcome = Outcome::Error(format!("read failed: {e}"));
                                    all.lock().unwrap().push(rec);
                                    continue;
                                }
                            };
                            rec.reads.push((k.clone(), cur.clone()));
                            let mut ids = cur.as_deref().map(dec_list).unwrap_or_default();
                            ids.push(id);
                            let v = enc_list(&ids);
                            let _ = tx.set(&k, &v);
                            rec.writes.push((Kind::Set, k, v));
                        } else if pc.groups > 0 {
                            rec.kind = "group";
                            let g = r.usize(pc.groups);
                            let mut v = id.to_be_bytes().to_vec();
                            v.extend(std::iter::repeat(0x67).take(pc.value_pad));
                            for i in 0..pc.group_size {
                                let k = group_key(g, i);
                                let _ = tx.set(&k, &v);
                                rec.writes.push((Kind::Set, k, v.clone()));
                            }
                        }
                        if pc.long_txn_every > 0 && n % pc.long_txn_every == pc.long_txn_every - 1 {
                            // stays open while others commit
                            for _ in 0..r.range(5, 60) {
                                tokio::task::yield_now().await;
                            }
                            tokio::time::sleep(std::time::Duration::from_micros(r.range(50, 3000))).await;
                        }
                        rec.commit_invoke = tick();
                        out.fetch_add(1, Ordering::SeqCst);
                        let res = tx.commit().await;
                        out.fetch_sub(1, Ordering::SeqCst);
                        rec.commit_return = tick();
                        prog.fetch_add(1, Ordering::SeqCst);
                        rec.outcome = match &res {
                            Ok(()) => Outcome::Ok,
                            Err(e) => classify(e),
                        };
                        drop(tx);
                        // successive samples of the horizon seen by one client never decrease
                        let vis = tree.verif_visible_seq();
                        if vis < last_vis {
                            reg.lock().unwrap().push(format!("client {} saw the visible sequence number go from {} to {}", ci, last_vis, vis));
                        }
                        last_vis = vis;
                        all.lock().unwrap().push(rec);
                        if r.chance(1, 4) {
                            tokio::task::yield_now().await;
                        }
                    }
                }));
            }
            for pi in 0..pc.probers {
                let tree = tree.clone();
                let all = allc.clone();
                let stop = stop.clone();
                let pk = pk.clone();
                let quiesce = quiescec.clone();
                let long_us = pc.long_probe_us;
                handles.push(tokio::spawn(async move {
                    let mut n = 0u64;
                    while !stop.load(Ordering::SeqCst) && n < 200_000 {
                        if quiesce.load(Ordering::SeqCst) {
                            tokio::time::sleep(std::time::Duration::from_millis(20)).await;
                            continue;
                        }
                        let id = 2_000_000_000 + (pi as u64) * 10_000_000 + n;
                        n += 1;
                        if long_us > 0 && n % 2 == 0 {
                            // long-lived reader: reads, stays open while others commit / flush /
                            // compact, reads again (forward scan of the probe keys' range too)
                            let bi = tick();
                            if let Ok(tx) = tree.begin_with_mode(Mode::ReadOnly) {
                                let br = tick();
                                let mut rec = TxnRec {
                                    id,
                                    kind: "long_probe",
                                    client: 1000 + pi,
                                    start_seq: tx.verif_start_seq(),
                                    begin_invoke: bi,
                                    begin_return: br,
                                    reads: vec![],
                                    writes: vec![],
                                    commit_invoke: 0,
                                    commit_return: 0,
                                    outcome: Outcome::ReadOnly,
                                    at_point: None,
                                    read_errors: vec![],
                                };
                                for round in 0..3 {
                                    for k in &pk {
                                        match tx.get(k) {
                                            Ok(v) => rec.reads.push((k.clone(), v)),
                                            Err(e) => rec.read_errors.push(format!("get({}) failed: {e}", hex(k))),
                                        }
                                    }
                                    if round < 2 {
                                        let us = (id.wrapping_mul(0x9E37_79B9) >> 7) % long_us + 50;
                                        tokio::time::sleep(std::time::Duration::from_micros(us)).await;
                                    }
                                }
                                all.lock().unwrap().push(rec);
                            }
                        } else if let Some(mut rec) = probe_txn(&tree, id, &pk, None) {
                            rec.client = 1000 + pi;
                            all.lock().unwrap().push(rec);
                        }
                        tokio::task::yield_now().await;
                        if n % 8 == 0 {
                            tokio::time::sleep(std::time::Duration::from_micros(200)).await;
                        }
                    }
                }));
            }
            let maint = if pc.maintenance {
                let tree = tree.clone();
                let stop = stop.clone();
                let manual = pc.manual_background;
                let split = pc.split_maintenance;
                let quiesce = quiescec.clone();
                Some(tokio::task::spawn_blocking(move || {
                    let mut r = Rng::new(seed ^ 0x4d41);
                    while !stop.load(Ordering::SeqCst) {
                        if !manual && quiesce.load(Ordering::SeqCst) {
                            std::thread::sleep(std::time::Duration::from_millis(20));
                            continue;
                        }
                        match r.below(4) {
                            0 => {
                                let _ = tree.verif_rotate();
                            }
                            1 => {
                                if manual {
                                    let _ = tree.verif_flush_one();
                                } else {
                                    tree.verif_wake_background();
                                }
                            }
                            2 => {
                                if manual && split {
                                    let _ = tree.verif_flush_one();
                                } else if manual {
                                    let _ = tree.verif_compact_once();
                                } else {
                                    tree.verif_wake_background();
                                }
                            }
                            _ => {}
                        }
                        std::thread::sleep(std::time::Duration::from_micros(r.range(200, 3000)));
                    }
                }))
            } else {
                None
            };
            let maint2 = if pc.maintenance && pc.split_maintenance && pc.manual_background {
                let tree = tree.clone();
                let stop = stop.clone();
                Some(tokio::task::spawn_blocking(move || {
                    let mut r = Rng::new(seed ^ 0x4d42);
                    while !stop.load(Ordering::SeqCst) {
                        let _ = tree.verif_compact_once();
                        std::thread::sleep(std::time::Duration::from_micros(r.range(100, 2000)));
                    }
                }))
            } else {
                None
            };
            let ncommitters = pc.committers;
            let mut close_result = None;
            if pc.close_midway {
                // close while commits are in flight
                tokio::time::sleep(std::time::Duration::from_millis(5 + (seed % 40))).await;
                outc.fetch_add(1, Ordering::SeqCst);
                let r = tree.close().await;
                outc.fetch_sub(1, Ordering::SeqCst);
                close_result = Some(match r {
                    Ok(()) => "ok".to_string(),
                    Err(e) => format!("err: {e}"),
                });
            }
            for (i, h) in handles.into_iter().enumerate() {
                if i == ncommitters {
                    stop.store(true, Ordering::SeqCst);
                }
                let _ = h.await;
            }
            stop.store(true, Ordering::SeqCst);
            if let Some(m) = maint {
                let _ = m.await;
            }
            if let Some(m) = maint2 {
                let _ = m.await;
            }
            // final state + commit order at the public boundary
            let mut final_state = BTreeMap::new();
            let mut marker_seqs = BTreeMap::new();
            let mut kept = 0;
            let mut vis = 0;
            if !pc.close_midway {
                if let Ok(tx) = tree.begin_with_mode(Mode::ReadOnly) {
                    if let Ok(mut it) = tx.range(&b"\x00"[..], &b"\xff\xff\xff\xff"[..]) {
                        scan_okc.store(true, Ordering::SeqCst);
                        let mut ok = match it.seek_first() {
                            Ok(b) => b,
                            Err(_) => {
                                scan_okc.store(false, Ordering::SeqCst);
                                false
                            }
                        };
                        while ok {
                            let k = it.key();
                            let uk = k.user_key().to_vec();
                            if uk.starts_with(MARK_PREFIX) {
                                let id: u64 = String::from_utf8_lossy(&uk[MARK_PREFIX.len()..]).parse().unwrap_or(0);
                                marker_seqs.insert(id, k.seq_num());
                            }
                            match it.value() {
                                Ok(v) => {
                                    final_state.insert(uk, v);
                                }
                                Err(_) => scan_okc.store(false, Ordering::SeqCst),
                            }
                            ok = match it.next() {
                                Ok(b) => b,
                                Err(_) => {
                                    scan_okc.store(false, Ordering::SeqCst);
                                    false
                                }
                            };
                        }
                    }
                }
                kept = tree.verif_oracle().0;
                vis = tree.verif_visible_seq();
                outc.fetch_add(1, Ordering::SeqCst);
                let r = tree.close().await;
                outc.fetch_sub(1, Ordering::SeqCst);
                close_result = Some(match r {
                    Ok(()) => "ok".to_string(),
                    Err(e) => format!("err: {e}"),
                });
            }
            *ctl().tree.write().unwrap() = None;
            (Some(()), final_state, marker_seqs, kept, vis, close_result)
        })
    });
    // wait for the history or for the watchdog
    let mut stuck = None;
    let mut inconclusive = None;
    let res = loop {
        if main.is_finished() {
            donec.store(true, Ordering::SeqCst);
            break main.join().ok();
        }
        if wd.is_finished() {
            break None;
        }
        std::thread::sleep(std::time::Duration::from_millis(5));
    };
    done.store(true, Ordering::SeqCst);
    if let Ok((s, i)) = wd.join() {
        stuck = s;
        inconclusive = i;
    }
    let c = ctl();
    c.record_points.store(false, Ordering::Relaxed);
    c.delay_pct.store(0, Ordering::Relaxed);
    c.probe_pct.store(0, Ordering::Relaxed);
    let mut txns = all.lock().unwrap().clone();
    txns.extend(c.probes.lock().unwrap().drain(..));
    let (final_state, marker_seqs, kept_since, visible_end, close_result) = match res {
        Some((_, f, m, k, v, cr)) => (f, m, k, v, cr),
        None => (BTreeMap::new(), BTreeMap::new(), 0, 0, None),
    };
    let out = HistoryOut {
        txns,
        final_state,
        marker_seqs,
        kept_since,
        visible_end,
        point_events: std::mem::take(&mut *c.point_events.lock().unwrap()),
        point_hits: c.point_hits.lock().unwrap().clone(),
        panics: crate::panics::drain_all(),
        stuck,
        inconclusive,
        close_result,
        horizon_regressions: regress.lock().unwrap().clone(),
        final_scan_ok: scan_ok.load(Ordering::SeqCst),
    };
    let _ = std::fs::remove_dir_all(dir);
    out
}

/// (runnable-or-disk-wait threads other than the caller, total threads)
pub fn thread_states() -> (usize, usize) {
    let mut running = 0;
    let mut total = 0;
    let me = unsafe { libc::syscall(libc::SYS_gettid) } as u64;
    if let Ok(rd) = std::fs::read_dir("/proc/self/task") {
        for e in rd.flatten() {
            let tid: u64 = e.file_name().to_string_lossy().parse().unwrap_or(0);
            if tid == me {
                continue;
            }
            total += 1;
            if let Ok(s) = std::fs::read_to_string(e.path().join("stat")) {
                // state is the field after the closing paren of comm
                if let Some(p) = s.rfind(')') {
                    let st = s[p + 1..].trim_start().chars().next().unwrap_or('S');
                    if st == 'R' || st == 'D' {
                        running += 1;
                    }
                }
            }
        }
    }
    (running, total)
}

// ---------------------------------------------------------------------------------------
// offline checkers
// ---------------------------------------------------------------------------------------

#[derive(Default, Debug, Clone)]
pub struct CheckStats {
    pub committed: u64,
    pub conflicts: u64,
    pub retries: u64,
    pub errors: u64,
    pub probes: u64,
    pub probes_at_points: u64,
    pub reads_checked: u64,
    pub realtime_pairs: u64,
    pub fcw_pairs: u64,
    pub justified_aborts: u64,
    pub counters_checked: u64,
    pub list_elements_checked: u64,
    pub apply_order_inversions: u64,
    pub distinct_start_seqs: u64,
    pub interleaving_sig: u64,
}

pub struct Verdict {
    /// (class, description)
    pub problems: Vec<(String, String)>,
    pub stats: CheckStats,
}

pub fn check(out: &HistoryOut, p: &Params) -> Verdict {
    let mut problems: Vec<(String, String)> = vec![];
    let mut st = CheckStats::default();
    let closed_midway = p.close_midway;
    for pn in &out.panics {
        problems.push(("panic".into(), format!("a thread panicked: {}", pn)));
    }
    for t in &out.txns {
        for e in &t.read_errors {
            problems.push(("read_error".into(), format!("transaction {} ({}) with horizon {}: {}", t.id, t.kind, t.start_seq, e)));
        }
    }
    if let Some(s) = &out.stuck {
        problems.push(("stuck".into(), s.clone()));
    }
    for r in &out.horizon_regressions {
        problems.push(("horizon".into(), r.clone()));
    }
    if out.inconclusive.is_some() || out.stuck.is_some() || (!closed_midway && !out.final_scan_ok) {
        // the history did not run to its end (watchdog) or the final scan that gives the
        // commit order did not complete: nothing can be said about order and visibility
        return Verdict { problems, stats: st };
    }
    if closed_midway {
        // only termination, panics and error hygiene are checked for these histories
        for t in &out.txns {
            match &t.outcome {
                Outcome::Ok => st.committed += 1,
                Outcome::Open => problems.push(("stuck".into(), format!("commit of transaction {} never returned", t.id))),
                Outcome::Error(_) => st.errors += 1,
                _ => {}
            }
        }
        return Verdict { problems, stats: st };
    }
    // 1. commit order
    let mut committed: Vec<&TxnRec> = vec![];
    for t in &out.txns {
        match &t.outcome {
            Outcome::Ok => {
                st.committed += 1;
                if !t.writes.is_empty() {
                    if out.marker_seqs.contains_key(&t.id) {
                        committed.push(t);
                    } else {
                        problems.push(("lost_commit".into(), format!("transaction {} ({}) was acknowledged but its marker key is absent from the final state", t.id, t.kind)));
                    }
                }
            }
            Outcome::Conflict => st.conflicts += 1,
            Outcome::Retry => st.retries += 1,
            Outcome::Error(e) if e.starts_with("read failed") => {
                st.errors += 1;
            }
            Outcome::Error(e) => {
                st.errors += 1;
                problems.push(("unexpected_error".into(), format!("commit of transaction {} failed with an error other than conflict/retry in a fault-free run: {}", t.id, e)));
            }
            Outcome::Open => problems.push(("stuck".into(), format!("commit of transaction {} never returned", t.id))),
            Outcome::ReadOnly => {
                st.probes += 1;
                if t.at_point.is_some() {
                    st.probes_at_points += 1;
                }
            }
        }
        if matches!(t.outcome, Outcome::Conflict | Outcome::Retry | Outcome::Error(_)) && out.marker_seqs.contains_key(&t.id) {
            problems.push(("aborted_visible".into(), format!("transaction {} whose commit returned {:?} left its marker key in the store", t.id, t.outcome)));
        }
    }
    committed.sort_by_key(|t| out.marker_seqs[&t.id]);
    let first_seq = |t: &TxnRec| out.marker_seqs[&t.id];
    let last_seq = |t: &TxnRec| out.marker_seqs[&t.id] + t.writes.len() as u64 - 1;
    // sequence ranges must not overlap
    for w in committed.windows(2) {
        if first_seq(w[1]) <= last_seq(w[0]) {
            problems.push(("seq_overlap".into(), format!("transactions {} and {} have overlapping sequence ranges", w[0].id, w[1].id)));
        }
    }
    // 2. model + snapshot checker
    let mut model = Model::new();
    for t in &committed {
        let ops: Vec<_> = t.writes.iter().map(|(k, key, v)| (*k, key.clone(), v.clone(), 0u64)).collect();
        model.apply(t.id, first_seq(t), &ops);
    }
    let mut starts = BTreeSet::new();
    for t in &out.txns {
        starts.insert(t.start_seq);
        for (k, v) in &t.reads {
            st.reads_checked += 1;
            let exp = model.get(k, t.start_seq).map(|x| x.to_vec());
            if *v != exp {
                let tag = |x: &Option<Vec<u8>>| x.as_ref().map(|b| if b.len() >= 8 { format!("{}", u64::from_be_bytes(b[..8].try_into().unwrap())) } else { format!("len{}", b.len()) }).unwrap_or("None".into());
                // fractured read? (a prefix of a committed transaction visible)
                let cls = if k.starts_with(b"g") { "fractured_or_stale_read" } else { "snapshot_read" };
                problems.push((
                    cls.into(),
                    format!(
                        "transaction {} ({}{}) with horizon {} read {} = {} but the committed history up to its horizon says {}",
                        t.id,
                        t.kind,
                        t.at_point.map(|p| format!(" at {}", p)).unwrap_or_default(),
                        t.start_seq,
                        hex(k),
                        tag(v),
                        tag(&exp)
                    ),
                ));
                if problems.len() > 40 {
                    break;
                }
            }
        }
    }
    st.distinct_start_seqs = starts.len() as u64;
    // 3. real-time order
    {
        // commits sorted by return tick; begins sorted by invoke tick
        let mut commits: Vec<(u64, u64, u64)> = committed.iter().map(|t| (t.commit_return, last_seq(t), t.id)).collect();
        commits.sort();
        let mut begins: Vec<&TxnRec> = out.txns.iter().collect();
        begins.sort_by_key(|t| t.begin_invoke);
        let mut ci = 0;
        let mut max_seq = 0u64;
        let mut max_id = 0u64;
        for b in &begins {
            while ci < commits.len() && commits[ci].0 < b.begin_invoke {
                if commits[ci].1 > max_seq {
                    max_seq = commits[ci].1;
                    max_id = commits[ci].2;
                }
                ci += 1;
            }
            st.realtime_pairs += ci as u64;
            if b.start_seq < max_seq {
                problems.push(("realtime".into(), format!("commit of transaction {} (last seq {}) had returned before transaction {} began, yet its horizon is {}", max_id, max_seq, b.id, b.start_seq)));
            }
        }
        // horizons of successive begins never go backwards
        let mut by_ret: Vec<(u64, u64, u64)> = out.txns.iter().map(|t| (t.begin_return, t.start_seq, t.id)).collect();
        by_ret.sort();
        let mut ri = 0;
        let mut mx = 0u64;
        let mut mxid = 0;
        for b in &begins {
            while ri < by_ret.len() && by_ret[ri].0 < b.begin_invoke {
                if by_ret[ri].1 > mx {
                    mx = by_ret[ri].1;
                    mxid = by_ret[ri].2;
                }
                ri += 1;
            }
            if b.start_seq < mx {
                problems.push(("horizon".into(), format!("transaction {} began (horizon {}) after transaction {} had begun with horizon {}", b.id, b.start_seq, mxid, mx)));
            }
        }
    }
    // 4. first committer wins
    {
        let mut per_key: BTreeMap<&[u8], Vec<&TxnRec>> = BTreeMap::new();
        for t in &committed {
            for (_, k, _) in &t.writes {
                if !k.starts_with(MARK_PREFIX) {
                    per_key.entry(k.as_slice()).or_default().push(t);
                }
            }
        }
        for (k, ts) in per_key {
            for w in ts.windows(2) {
                st.fcw_pairs += 1;
                if w[1].start_seq < last_seq(w[0]) {
                    problems.push((
                        "lost_update".into(),
                        format!(
                            "transactions {} (seqs {}..{}) and {} (horizon {}, seqs {}..) both committed a write to {} although the second began before the first had committed",
                            w[0].id,
                            first_seq(w[0]),
                            last_seq(w[0]),
                            w[1].id,
                            w[1].start_seq,
                            first_seq(w[1]),
                            hex(k)
                        ),
                    ));
                }
            }
        }
    }
    // conservation
    for i in 0..p.counters {
        let k = counter_key(i);
        let acked = committed.iter().filter(|t| t.kind == "rmw" && t.writes.iter().any(|(_, wk, _)| *wk == k)).count() as u64;
        let fin = out.final_state.get(&k).map(|v| dec_counter(v)).unwrap_or(0);
        st.counters_checked += 1;
        if fin != acked {
            problems.push(("lost_update".into(), format!("counter {} ends at {} but {} increments were acknowledged", hex(&k), fin, acked)));
        }
    }
    for i in 0..p.lists {
        let k = list_key(i);
        let mut acked: Vec<(u64, u64)> = committed.iter().filter(|t| t.kind == "append" && t.writes.iter().any(|(_, wk, _)| *wk == k)).map(|t| (first_seq(t), t.id)).collect();
        acked.sort();
        let exp: Vec<u64> = acked.iter().map(|x| x.1).collect();
        let fin = out.final_state.get(&k).map(|v| dec_list(v)).unwrap_or_default();
        st.list_elements_checked += exp.len() as u64;
        if fin != exp {
            let missing: Vec<u64> = exp.iter().filter(|i| !fin.contains(i)).cloned().collect();
            problems.push(("lost_update".into(), format!("append list {} ends with {} elements, {} appends were acknowledged; missing {:?}", hex(&k), fin.len(), exp.len(), &missing[..missing.len().min(8)])));
        }
    }
    // 5. abort justification
    for t in &out.txns {
        match t.outcome {
            Outcome::Conflict => {
                let keys: BTreeSet<&[u8]> = t.writes.iter().map(|(_, k, _)| k.as_slice()).collect();
                let just = committed.iter().any(|c| last_seq(c) > t.start_seq && c.writes.iter().any(|(_, k, _)| keys.contains(k.as_slice())));
                if just {
                    st.justified_aborts += 1;
                } else {
                    problems.push(("unjustified_abort".into(), format!("transaction {} (horizon {}) got a write conflict but no transaction that committed after its horizon wrote any of its keys", t.id, t.start_seq)));
                }
            }
            Outcome::Retry => {
                if t.start_seq < out.kept_since {
                    st.justified_aborts += 1;
                } else {
                    problems.push(("unjustified_abort".into(), format!("transaction {} (horizon {}) got TransactionRetry but the conflict window still reaches back to {}", t.id, t.start_seq, out.kept_since)));
                }
            }
            _ => {}
        }
    }
    // interleaving signature: order in which applies finished relative to WAL order
    {
        let wal: Vec<u64> = out.point_events.iter().filter(|e| e.2 == "commit.after_wal").map(|e| e.1).collect();
        let app: Vec<u64> = out.point_events.iter().filter(|e| e.2 == "commit.after_apply").map(|e| e.1).collect();
        let mut inv = 0u64;
        let mut h = 1469598103934665603u64;
        for (a, b) in wal.iter().zip(app.iter()) {
            if a != b {
                inv += 1;
            }
            h = (h ^ (a.wrapping_mul(31) ^ b)).wrapping_mul(1099511628211);
        }
        st.apply_order_inversions = inv;
        st.interleaving_sig = h;
    }
    Verdict { problems, stats: st }
}

pub fn txn_json(t: &TxnRec) -> J {
    json!({"id": t.id, "kind": t.kind, "client": t.client, "horizon": t.start_seq, "begin": [t.begin_invoke, t.begin_return],
        "commit": [t.commit_invoke, t.commit_return], "outcome": format!("{:?}", t.outcome), "at_point": t.at_point,
        "reads": t.reads.iter().map(|(k, v)| json!([hex(k), v.as_ref().map(|b| if b.len() >= 8 { u64::from_be_bytes(b[..8].try_into().unwrap()) } else { 0 })])).collect::<Vec<_>>(),
        "writes": t.writes.iter().map(|(_, k, _)| hex(k)).collect::<Vec<_>>()})
}
