//! Directed scenarios: fixed, minimal, deterministic histories, one per defect that the
//! monitors found on the unchanged tree (see DESIGN.md section 2.9 and known_findings.json).
//! A scenario returns Err(description) when the real code still shows the behaviour.
//! An *open* finding whose scenario fails is reported as KNOWN-FINDING; a *fixed* one is a
//! regression monitor and reports VIOLATION if the behaviour ever returns.

use crate::cfg::Cfg;
use crate::e1;
use crate::evidence::{finding_open, load_findings, Run};
use serde_json::json;
use std::future::Future;
use std::path::PathBuf;
use std::pin::Pin;
use surrealkv::{LSMIterator, Mode, ReadOptions, Tree};

pub type ScenFut<'a> = Pin<Box<dyn Future<Output = Result<(), String>> + 'a>>;

pub struct Scenario {
    pub id: &'static str,
    pub property: &'static str,
    pub title: &'static str,
    pub run: fn(PathBuf) -> ScenFut<'static>,
}

pub fn base_cfg() -> Cfg {
    Cfg { flush_on_close: false, ..Cfg::default() }
}

pub async fn put(t: &Tree, kvs: &[(&[u8], &[u8])]) -> Result<(), String> {
    // write-only: registers no snapshot, so it cannot disturb the snapshot registry
    let mut tx = t.begin_with_mode(Mode::WriteOnly).map_err(|e| e.to_string())?;
    for (k, v) in kvs {
        tx.set(*k, *v).map_err(|e| e.to_string())?;
    }
    tx.commit().await.map_err(|e| format!("commit: {e}"))
}

pub async fn del(t: &Tree, k: &[u8]) -> Result<(), String> {
    let mut tx = t.begin_with_mode(Mode::WriteOnly).map_err(|e| e.to_string())?;
    tx.delete(k).map_err(|e| e.to_string())?;
    tx.commit().await.map_err(|e| format!("commit: {e}"))
}

pub async fn close(t: Tree) {
    let _ = t.close().await;
    drop(t);
    for _ in 0..4 {
        tokio::task::yield_now().await;
    }
}

pub fn collect_fwd(it: &mut dyn LSMIterator) -> Result<Vec<Vec<u8>>, String> {
    let mut out = vec![];
    let mut ok = it.seek_first().map_err(|e| e.to_string())?;
    while ok {
        out.push(it.key().user_key().to_vec());
        ok = it.next().map_err(|e| e.to_string())?;
    }
    Ok(out)
}

pub fn collect_bwd(it: &mut dyn LSMIterator) -> Result<Vec<Vec<u8>>, String> {
    let mut out = vec![];
    let mut ok = it.seek_last().map_err(|e| e.to_string())?;
    while ok {
        out.push(it.key().user_key().to_vec());
        ok = it.prev().map_err(|e| e.to_string())?;
    }
    out.reverse();
    Ok(out)
}

// ------------------------------------------------------------------------------------------

fn c09_memtable_seek_last_after_upper(dir: PathBuf) -> ScenFut<'static> {
    Box::pin(async move {
        let t = base_cfg().open(&dir).map_err(|e| e.to_string())?;
        put(&t, &[(b"a", b"1"), (b"z", b"2")]).await?;
        let r = {
            let tx = t.begin_with_mode(Mode::ReadOnly).map_err(|e| e.to_string())?;
            let mut it = tx.range(&b"a"[..], &b"b"[..]).map_err(|e| e.to_string())?;
            let f = collect_fwd(&mut it)?;
            let b = collect_bwd(&mut it)?;
            if f != vec![b"a".to_vec()] {
                Err(format!("forward scan of [a,b) over {{a,z}} returned {:?}", f))
            } else if b != vec![b"a".to_vec()] {
                Err(format!(
                    "cursor over [a,b) on {{a,z}} in the memtable: after a forward pass ran past the upper bound, seek_last yields {:?} instead of [a]",
                    b
                ))
            } else {
                Ok(())
            }
        };
        close(t).await;
        r
    })
}

fn c09_unbounded_cursor(dir: PathBuf) -> ScenFut<'static> {
    Box::pin(async move {
        let t = base_cfg().open(&dir).map_err(|e| e.to_string())?;
        put(&t, &[(b"a", b"1"), (b"b", b"2"), (b"c", b"3")]).await?;
        let r = {
            let tx = t.begin_with_mode(Mode::ReadOnly).map_err(|e| e.to_string())?;
            let res = std::panic::catch_unwind(std::panic::AssertUnwindSafe(|| -> Result<Vec<Vec<u8>>, String> {
                let ro = ReadOptions::new(); // both bounds absent
                let mut it = tx.range_with_options(&ro).map_err(|e| e.to_string())?;
                collect_fwd(&mut it)
            }));
            match res {
                Err(_) => Err("range_with_options with both bounds absent panicked".to_string()),
                Ok(Err(e)) => Err(format!("range_with_options with both bounds absent failed: {e}")),
                Ok(Ok(v)) if v.len() != 3 => Err(format!("cursor with both bounds absent lists {} of 3 live keys", v.len())),
                Ok(Ok(_)) => Ok(()),
            }
        };
        close(t).await;
        r
    })
}

fn c09_lower_only_cursor(dir: PathBuf) -> ScenFut<'static> {
    Box::pin(async move {
        let t = base_cfg().open(&dir).map_err(|e| e.to_string())?;
        put(&t, &[(b"a", b"1"), (b"b", b"2"), (b"c", b"3")]).await?;
        let r = {
            let tx = t.begin_with_mode(Mode::ReadOnly).map_err(|e| e.to_string())?;
            let res = std::panic::catch_unwind(std::panic::AssertUnwindSafe(|| -> Result<Vec<Vec<u8>>, String> {
                let mut ro = ReadOptions::new();
                ro.set_iterate_lower_bound(Some(b"b".to_vec()));
                let mut it = tx.range_with_options(&ro).map_err(|e| e.to_string())?;
                collect_fwd(&mut it)
            }));
            match res {
                Err(_) => Err("range_with_options with only a lower bound panicked".to_string()),
                Ok(Err(e)) => Err(format!("range_with_options with only a lower bound failed: {e}")),
                Ok(Ok(v)) if v != vec![b"b".to_vec(), b"c".to_vec()] => {
                    Err(format!("cursor with only lower bound b lists {:?} instead of [b, c]", v))
                }
                Ok(Ok(_)) => Ok(()),
            }
        };
        close(t).await;
        r
    })
}

fn c09_inverted_bounds(dir: PathBuf) -> ScenFut<'static> {
    Box::pin(async move {
        let t = base_cfg().open(&dir).map_err(|e| e.to_string())?;
        put(&t, &[(b"a", b"1"), (b"b", b"2"), (b"c", b"3")]).await?;
        let r = {
            let mut tx = t.begin().map_err(|e| e.to_string())?;
            tx.set(&b"bb"[..], &b"x"[..]).map_err(|e| e.to_string())?;
            let res = std::panic::catch_unwind(std::panic::AssertUnwindSafe(|| -> Result<Vec<Vec<u8>>, String> {
                let mut it = tx.range(&b"c"[..], &b"a"[..]).map_err(|e| e.to_string())?;
                collect_fwd(&mut it)
            }));
            match res {
                Err(_) => Err("range(c, a) (inverted bounds) panicked instead of yielding an empty cursor".to_string()),
                Ok(Err(e)) => Err(format!("range(c, a) failed: {e}")),
                Ok(Ok(v)) if !v.is_empty() => Err(format!("range(c, a) lists {:?}", v)),
                Ok(Ok(_)) => Ok(()),
            }
        };
        close(t).await;
        r
    })
}

fn c07_last_sequence_after_tombstone_compaction(dir: PathBuf) -> ScenFut<'static> {
    Box::pin(async move {
        let cfg = Cfg { level_count: 2, l0_max_files: 1, max_bytes_for_level: 512, ..base_cfg() };
        let t = cfg.open(&dir).map_err(|e| e.to_string())?;
        put(&t, &[(b"k", b"v")]).await?;
        t.verif_flush().map_err(|e| e.to_string())?;
        del(&t, b"k").await?;
        t.verif_flush().map_err(|e| e.to_string())?;
        for _ in 0..4 {
            t.verif_compact_once().map_err(|e| e.to_string())?;
        }
        close(t).await;
        match cfg.open(&dir) {
            Ok(t) => {
                close(t).await;
                Ok(())
            }
            Err(e) => Err(format!("set k; flush; delete k; flush; compact to the bottom level; close; reopen fails: {e}")),
        }
    })
}

fn c07_l1_key_disjoint_tables(dir: PathBuf) -> ScenFut<'static> {
    Box::pin(async move {
        let cfg = Cfg { level_count: 5, l0_max_files: 1, max_bytes_for_level: 1 << 20, ..base_cfg() };
        let t = cfg.open(&dir).map_err(|e| e.to_string())?;
        // first table on L1 holds key m, second (newer) holds key b: key order != age order
        put(&t, &[(b"m", b"1")]).await?;
        t.verif_flush().map_err(|e| e.to_string())?;
        t.verif_compact_once().map_err(|e| e.to_string())?;
        put(&t, &[(b"b", b"2")]).await?;
        t.verif_flush().map_err(|e| e.to_string())?;
        t.verif_compact_once().map_err(|e| e.to_string())?;
        let lay = t.verif_layout().map_err(|e| e.to_string())?;
        let l1 = lay.tables.iter().filter(|x| x.level == 1).count();
        close(t).await;
        match cfg.open(&dir) {
            Ok(t) => {
                close(t).await;
                Ok(())
            }
            Err(e) => Err(format!("two key-disjoint tables on L1 ({} tables there) written newest-key-first; close; reopen fails: {e}", l1)),
        }
    })
}

async fn compact_all(t: &Tree) -> Result<(), String> {
    for _ in 0..8 {
        if !t.verif_compact_once().map_err(|e| e.to_string())? {
            break;
        }
    }
    Ok(())
}

fn c01_cfg() -> Cfg {
    Cfg { level_count: 2, l0_max_files: 1, max_bytes_for_level: 512, ..base_cfg() }
}

fn c01_shared_start_reader_dropped(dir: PathBuf) -> ScenFut<'static> {
    Box::pin(async move {
        let t = c01_cfg().open(&dir).map_err(|e| e.to_string())?;
        put(&t, &[(b"k", b"v1")]).await?;
        t.verif_flush().map_err(|e| e.to_string())?;
        let r1 = t.begin_with_mode(Mode::ReadOnly).map_err(|e| e.to_string())?;
        let r2 = t.begin_with_mode(Mode::ReadOnly).map_err(|e| e.to_string())?;
        drop(r2);
        put(&t, &[(b"k", b"v2")]).await?;
        t.verif_flush().map_err(|e| e.to_string())?;
        let snaps = t.verif_snapshot_seqs();
        compact_all(&t).await?;
        let got = r1.get(&b"k"[..]).map_err(|e| e.to_string())?;
        drop(r1);
        close(t).await;
        if got.as_deref() == Some(&b"v1"[..]) {
            Ok(())
        } else {
            Err(format!("two readers share a start point, one is dropped, k is overwritten, flush+compaction: the surviving reader's get(k) = {:?} instead of v1 (snapshot registry before compaction: {:?})", got.map(|v| String::from_utf8_lossy(&v).to_string()), snaps))
        }
    })
}

fn c01_cursor_unregisters_snapshot(dir: PathBuf) -> ScenFut<'static> {
    Box::pin(async move {
        let t = c01_cfg().open(&dir).map_err(|e| e.to_string())?;
        put(&t, &[(b"k", b"v1")]).await?;
        t.verif_flush().map_err(|e| e.to_string())?;
        let r1 = t.begin_with_mode(Mode::ReadOnly).map_err(|e| e.to_string())?;
        {
            let mut it = r1.range(&b"a"[..], &b"z"[..]).map_err(|e| e.to_string())?;
            let _ = it.seek_first();
        }
        let snaps = t.verif_snapshot_seqs();
        put(&t, &[(b"k", b"v2")]).await?;
        t.verif_flush().map_err(|e| e.to_string())?;
        compact_all(&t).await?;
        let got = r1.get(&b"k"[..]).map_err(|e| e.to_string())?;
        drop(r1);
        close(t).await;
        if got.as_deref() == Some(&b"v1"[..]) {
            Ok(())
        } else {
            Err(format!("a reader opens and drops a range cursor, k is overwritten, flush+compaction: the reader's get(k) = {:?} instead of v1 (snapshot registry after the cursor was dropped: {:?})", got.map(|v| String::from_utf8_lossy(&v).to_string()), snaps))
        }
    })
}

fn c01_bottom_level_delete_under_reader(dir: PathBuf) -> ScenFut<'static> {
    Box::pin(async move {
        let t = c01_cfg().open(&dir).map_err(|e| e.to_string())?;
        put(&t, &[(b"k", b"v1")]).await?;
        t.verif_flush().map_err(|e| e.to_string())?;
        let r1 = t.begin_with_mode(Mode::ReadOnly).map_err(|e| e.to_string())?;
        del(&t, b"k").await?;
        t.verif_flush().map_err(|e| e.to_string())?;
        let snaps = t.verif_snapshot_seqs();
        compact_all(&t).await?;
        let got = r1.get(&b"k"[..]).map_err(|e| e.to_string())?;
        // a transaction begun after the delete must keep seeing the key as deleted
        let fresh = t.begin_with_mode(Mode::ReadOnly).map_err(|e| e.to_string())?;
        let got_fresh = fresh.get(&b"k"[..]).map_err(|e| e.to_string())?;
        drop(fresh);
        drop(r1);
        close(t).await;
        if got.as_deref() != Some(&b"v1"[..]) {
            return Err(format!("a reader is open, k is hard-deleted, flush + compaction to the bottom level: the reader's get(k) = {:?} instead of v1 (snapshot registry: {:?})", got.map(|v| String::from_utf8_lossy(&v).to_string()), snaps));
        }
        if got_fresh.is_some() {
            return Err("after delete + bottom-level compaction under an open older reader, a new transaction sees the deleted key again".into());
        }
        Ok(())
    })
}

fn c09_overlay_direction_switch(dir: PathBuf) -> ScenFut<'static> {
    Box::pin(async move {
        let t = base_cfg().open(&dir).map_err(|e| e.to_string())?;
        put(&t, &[(b"k", b"1"), (b"m", b"2")]).await?;
        let r = (|| -> Result<(), String> {
            // committed {k, m}, pending {z}: live list [k, m, z]
            let mut tx = t.begin().map_err(|e| e.to_string())?;
            tx.set(&b"z"[..], &b"p"[..]).map_err(|e| e.to_string())?;
            let mut it = tx.range(&b"a"[..], &b"zz"[..]).map_err(|e| e.to_string())?;
            it.seek(b"z").map_err(|e| e.to_string())?;
            if !it.valid() || it.key().user_key() != b"z" {
                return Err("seek(z) does not land on the pending key z".into());
            }
            let ok = it.prev().map_err(|e| e.to_string())?;
            if !ok || !it.valid() || it.key().user_key() != b"m" {
                return Err(format!(
                    "cursor over committed {{k,m}} + pending {{z}}: seek(z) then prev is {} instead of m",
                    if it.valid() { String::from_utf8_lossy(it.key().user_key()).to_string() } else { "invalid".into() }
                ));
            }
            drop(it);
            // only pending keys {b, d}: seek(b) then prev must run off the front
            let mut tx2 = t.begin().map_err(|e| e.to_string())?;
            tx2.set(&b"b"[..], &b"p"[..]).map_err(|e| e.to_string())?;
            tx2.set(&b"d"[..], &b"p"[..]).map_err(|e| e.to_string())?;
            let mut it = tx2.range(&b"a"[..], &b"e"[..]).map_err(|e| e.to_string())?;
            it.seek(b"b").map_err(|e| e.to_string())?;
            let ok = it.prev().map_err(|e| e.to_string())?;
            if ok || it.valid() {
                return Err(format!(
                    "cursor over pending {{b,d}} in [a,e): seek(b) then prev lands on {} instead of running off the front",
                    String::from_utf8_lossy(it.key().user_key())
                ));
            }
            it.seek_last().map_err(|e| e.to_string())?;
            let ok = it.next().map_err(|e| e.to_string())?;
            if ok || it.valid() {
                return Err(format!(
                    "cursor over pending {{b,d}} in [a,e): seek_last then next lands on {} instead of running off the end",
                    String::from_utf8_lossy(it.key().user_key())
                ));
            }
            Ok(())
        })();
        close(t).await;
        r
    })
}

fn last_wal_segment(dir: &std::path::Path) -> Option<PathBuf> {
    let mut v: Vec<PathBuf> = std::fs::read_dir(dir.join("wal")).ok()?.flatten().map(|e| e.path()).filter(|p| p.extension().map(|x| x == "wal").unwrap_or(false)).collect();
    v.sort();
    v.pop()
}

async fn commit_after_damage(dir: PathBuf, damage: fn(&mut Vec<u8>), what: &str) -> Result<(), String> {
    let cfg = base_cfg(); // flush_on_close = false: data stays in the WAL
    let t = cfg.open(&dir).map_err(|e| e.to_string())?;
    for i in 0..3u8 {
        put(&t, &[(&[b'a', b'0' + i][..], b"old")]).await?;
    }
    close(t).await;
    let seg = last_wal_segment(&dir).ok_or("no wal segment")?;
    let mut bytes = std::fs::read(&seg).map_err(|e| e.to_string())?;
    damage(&mut bytes);
    std::fs::write(&seg, &bytes).map_err(|e| e.to_string())?;
    // session 2: recover, then commit with immediate durability
    let t = cfg.open(&dir).map_err(|e| format!("open after {what} failed: {e}"))?;
    {
        let mut tx = t.begin().map_err(|e| e.to_string())?;
        tx.set_durability(surrealkv::Durability::Immediate);
        tx.set(&b"new"[..], &b"X"[..]).map_err(|e| e.to_string())?;
        tx.commit().await.map_err(|e| format!("commit after recovery failed: {e}"))?;
    }
    close(t).await;
    // session 3
    let t = cfg.open(&dir).map_err(|e| format!("second open failed: {e}"))?;
    let got = {
        let tx = t.begin_with_mode(Mode::ReadOnly).map_err(|e| e.to_string())?;
        tx.get(&b"new"[..]).map_err(|e| e.to_string())?
    };
    close(t).await;
    if got.as_deref() == Some(&b"X"[..]) {
        Ok(())
    } else {
        Err(format!("{what}: a transaction committed (Immediate) in the session after recovery is gone after the next clean close + reopen (get(new) = {:?})", got))
    }
}

/// commit() is called again on a transaction whose commit has just failed.
fn c02_commit_again_after_failure(dir: PathBuf) -> ScenFut<'static> {
    Box::pin(async move {
        let t = base_cfg().open(&dir).map_err(|e| e.to_string())?;
        put(&t, &[(b"k", b"v0")]).await?;
        let mut t2 = t.begin().map_err(|e| e.to_string())?;
        t2.set(&b"k"[..], &b"from-t2"[..]).map_err(|e| e.to_string())?;
        t2.set(&b"only-t2"[..], &b"x"[..]).map_err(|e| e.to_string())?;
        put(&t, &[(b"k", b"v1")]).await?; // T1 commits k after T2 began
        let first = t2.commit().await;
        let second = t2.commit().await;
        let own = t2.get(&b"only-t2"[..]);
        drop(t2);
        let k = get1(&t, b"k")?;
        let only = get1(&t, b"only-t2")?;
        close(t).await;
        let t = base_cfg().open(&dir).map_err(|e| e.to_string())?;
        let only_after = get1(&t, b"only-t2")?;
        close(t).await;
        if first.is_ok() {
            return Err("harness: the overlapping writer was expected to be refused".into());
        }
        if second.is_ok() && (only.is_none() || only_after.is_none() || k.as_deref() != Some(&b"from-t2"[..])) {
            return Err(format!(
                "T2 sets k and only-t2; T1 commits k; T2.commit() returns an error ({}); T2.commit() called again returns Ok(()) - yet nothing of T2 is in the store (k = {:?}, only-t2 present: {}, after reopen: {}); T2's own read of only-t2 after the failed commit: {:?}",
                first.unwrap_err(),
                k.map(|v| String::from_utf8_lossy(&v).to_string()),
                only.is_some(),
                only_after.is_some(),
                own.map(|v| v.is_some()).map_err(|e| e.to_string())
            ));
        }
        Ok(())
    })
}

/// A commit that has passed the shutdown check runs on while close() flushes and closes the
/// commit log.
fn c02_commit_overlapping_close(dir: PathBuf) -> ScenFut<'static> {
    Box::pin(async move {
        let res = std::thread::spawn(move || -> Result<(), String> {
            let rt = tokio::runtime::Builder::new_multi_thread().worker_threads(4).enable_all().build().map_err(|e| e.to_string())?;
            rt.block_on(async move {
                let cfg = Cfg { flush_on_close: true, ..base_cfg() };
                let t = std::sync::Arc::new(cfg.open(&dir).map_err(|e| e.to_string())?);
                put(&t, &[(b"base", b"0")]).await?;
                let ctl = crate::e3::ctl();
                ctl.reset();
                let g_commit = ctl.arm_gate("commit.before_lock");
                let g_close = ctl.arm_gate("close.after_flush");
                let tc = t.clone();
                let h = tokio::runtime::Handle::current();
                let committer = std::thread::spawn(move || h.block_on(async move { put(&tc, &[(b"late", b"acknowledged-during-close")]).await }));
                if !g_commit.wait_parked(5000) {
                    g_commit.release();
                    g_close.release();
                    let _ = committer.join();
                    ctl.reset();
                    return Err("harness: the commit did not reach commit.before_lock".into());
                }
                let tcl = t.clone();
                let h2 = tokio::runtime::Handle::current();
                let closer = std::thread::spawn(move || h2.block_on(async move { tcl.close().await.map_err(|e| e.to_string()) }));
                // close() either waits for the commit under way, or goes ahead and parks after its flush
                let close_parked = g_close.wait_parked(1500);
                g_commit.release();
                let rc = committer.join().map_err(|_| "committer panicked".to_string())?;
                g_close.release();
                let rclose = closer.join().map_err(|_| "closer panicked".to_string())?;
                ctl.reset();
                // the process dies right after close() has returned: what is on disk now
                let img = dir.with_extension("img");
                let _ = std::fs::remove_dir_all(&img);
                crate::props::c12::copy_dir(&dir, &img).map_err(|e| format!("harness: copy: {e}"))?;
                let _ = std::fs::remove_file(img.join("LOCK"));
                drop(t);
                let t2 = cfg.open(&img).map_err(|e| format!("open of the directory as it was when close() returned: {e}"))?;
                let late = get1(&t2, b"late")?;
                let base = get1(&t2, b"base")?;
                close(t2).await;
                let _ = std::fs::remove_dir_all(&img);
                if std::env::var_os("VERIF_DEBUG_SCEN").is_some() {
                    eprintln!("DEBUG close_parked={close_parked} rc={rc:?} rclose={rclose:?} late={:?}", late.as_ref().map(|v| v.len()));
                }
                if base.is_none() {
                    return Err("the commit made before close() is missing after the reopen".into());
                }
                if rc.is_ok() && late.is_none() {
                    return Err(format!(
                        "a commit that had passed the shutdown check was under way when close() was called; close() {} and returned {:?}; the commit returned Ok - in the directory as it was when close() returned (process death right then) its write is gone (its commit-log segment had been released by the shutdown flush before the record was appended, and was removed)",
                        if close_parked { "flushed the memtables without waiting for it" } else { "ran" },
                        rclose
                    ));
                }
                Ok(())
            })
        })
        .join()
        .map_err(|_| "scenario thread panicked".to_string())?;
        res
    })
}

fn c02_commit_after_wal_repair(dir: PathBuf) -> ScenFut<'static> {
    Box::pin(async move {
        commit_after_damage(
            dir,
            |b| {
                // flip a payload byte of the last record: CRC mismatch -> repair rewrites the segment
                let n = b.len();
                b[n - 2] ^= 0x5a;
            },
            "WAL tail record damaged (checksum mismatch, repaired on open)",
        )
        .await
    })
}

fn c02_commit_after_torn_header(dir: PathBuf) -> ScenFut<'static> {
    Box::pin(async move {
        commit_after_damage(
            dir,
            |b| {
                // a crash tore the next record after 3 header bytes
                b.extend_from_slice(&[0x12, 0x34, 0x56]);
            },
            "WAL ends with a 3-byte torn record header",
        )
        .await
    })
}

fn c07_vlog_torn_header(dir: PathBuf) -> ScenFut<'static> {
    Box::pin(async move {
        let cfg = Cfg { vlog: true, vlog_threshold: 16, vlog_max_file: 4096, ..base_cfg() };
        let t = cfg.open(&dir).map_err(|e| e.to_string())?;
        put(&t, &[(b"k", &[7u8; 100][..])]).await?;
        t.verif_flush().map_err(|e| e.to_string())?;
        close(t).await;
        // power was lost after the first 6 bytes of the next value-log file reached the disk
        let mut ids: Vec<u64> = std::fs::read_dir(dir.join("vlog"))
            .map_err(|e| e.to_string())?
            .flatten()
            .filter_map(|e| e.file_name().to_string_lossy().strip_suffix(".vlog").and_then(|s| s.parse().ok()))
            .collect();
        ids.sort();
        let next = ids.last().copied().unwrap_or(0) + 1;
        std::fs::write(dir.join("vlog").join(format!("{:020}.vlog", next)), [0x56u8, 0x4c, 0x4f, 0x47, 0, 1]).map_err(|e| e.to_string())?;
        match cfg.open(&dir) {
            Ok(t) => {
                let got = {
                    let tx = t.begin_with_mode(Mode::ReadOnly).map_err(|e| e.to_string())?;
                    tx.get(&b"k"[..]).map_err(|e| e.to_string())?
                };
                close(t).await;
                if got.as_deref() == Some(&[7u8; 100][..]) {
                    Ok(())
                } else {
                    Err("value lost after reopen".into())
                }
            }
            Err(e) => Err(format!("a value-log file whose header was only partly written before a power loss (6 of 31 bytes, nothing references it) makes the store refuse to open: {e}")),
        }
    })
}

fn c07_wal_segment_split_on_replay(dir: PathBuf) -> ScenFut<'static> {
    Box::pin(async move {
        // session 1: ~40 KiB of commits in one WAL segment, closed without flushing
        let cfg1 = Cfg { max_memtable_size: 256 * 1024, ..base_cfg() };
        let t = cfg1.open(&dir).map_err(|e| e.to_string())?;
        let val = vec![0x61u8; 400];
        for i in 0..100u32 {
            let k = format!("key{:04}", i);
            put(&t, &[(k.as_bytes(), &val[..])]).await?;
        }
        close(t).await;
        // session 2: the segment does not fit one memtable any more (the traced crash runs
        // hit the same path with unchanged options: skip-list tower heights are random, so a
        // replayed segment can need a little more arena than the memtable it came from)
        let cfg2 = Cfg { max_memtable_size: 16 * 1024, ..base_cfg() };
        let t = cfg2.open(&dir).map_err(|e| format!("recovery failed: {e}"))?;
        let count = |t: &Tree| -> Result<usize, String> {
            let tx = t.begin_with_mode(Mode::ReadOnly).map_err(|e| e.to_string())?;
            let mut it = tx.range(&b"key"[..], &b"kez"[..]).map_err(|e| e.to_string())?;
            Ok(collect_fwd(&mut it)?.len())
        };
        let n1 = count(&t)?;
        close(t).await;
        // session 3
        let t = cfg2.open(&dir).map_err(|e| format!("second open failed: {e}"))?;
        let n2 = count(&t)?;
        close(t).await;
        if n1 != 100 {
            return Err(format!("recovery of an over-full WAL segment returned {} of 100 keys", n1));
        }
        if n2 != 100 {
            return Err(format!(
                "a WAL segment larger than one memtable is split on replay; its first part is flushed and the whole segment is marked flushed while the rest is only in memory: after recovery 100 keys, after a clean close + reopen {} keys",
                n2
            ));
        }
        Ok(())
    })
}

/// A transaction that fitted the memtable size it was committed under is the first record of
/// its commit-log segment; the store is reopened with a smaller (valid) memtable size.
fn c07_oversized_first_record_after_memtable_size_reduced(dir: PathBuf) -> ScenFut<'static> {
    Box::pin(async move {
        let mut out = vec![];
        for small_first in [true, false] {
            let d = dir.join(if small_first { "control" } else { "first" });
            let cfg1 = Cfg { max_memtable_size: 1 << 20, ..base_cfg() };
            let t = cfg1.open(&d).map_err(|e| e.to_string())?;
            if small_first {
                put(&t, &[(b"small", b"x")]).await?;
            }
            let big = vec![0x42u8; 300 * 1024];
            put(&t, &[(b"big", &big[..])]).await?;
            close(t).await;
            let cfg2 = Cfg { max_memtable_size: 128 * 1024, ..base_cfg() };
            match cfg2.open(&d) {
                Ok(t) => {
                    let got = get1(&t, b"big")?;
                    close(t).await;
                    out.push(match got {
                        Some(v) if v == big => Ok(()),
                        Some(v) => Err(format!("`big` comes back with {} bytes", v.len())),
                        None => Err("`big` is missing after the reopen".to_string()),
                    });
                }
                Err(e) => out.push(Err(format!("open fails: {e}"))),
            }
        }
        match (&out[0], &out[1]) {
            (Ok(()), Ok(())) => Ok(()),
            (c, f) => Err(format!(
                "a 300 KiB transaction committed under max_memtable_size 1 MiB, closed without flushing, reopened with max_memtable_size 128 KiB: as the second record of its commit-log segment: {}; as the first record of its segment: {}",
                c.as_ref().err().cloned().unwrap_or_else(|| "recovered (replay grows the arena)".into()),
                f.as_ref().err().cloned().unwrap_or_else(|| "recovered".into())
            )),
        }
    })
}

fn c02_rotation_straddling_commit(dir: PathBuf) -> ScenFut<'static> {
    Box::pin(async move {
        // flush_on_close = false: whatever is only in a memtable at close must come back from the WAL
        let cfg = Cfg { max_memtable_size: 16 * 1024, ..base_cfg() };
        let t = cfg.open(&dir).map_err(|e| e.to_string())?;
        let val = vec![0x62u8; 700];
        let mut straddler: Option<u32> = None;
        for i in 0..200u32 {
            let k = format!("key{:04}", i);
            put(&t, &[(k.as_bytes(), &val[..])]).await?;
            let lay = t.verif_layout().map_err(|e| e.to_string())?;
            if lay.immutables > 0 {
                // this commit found the memtable full: the memtable and the WAL were rotated
                // inside its apply step, after its WAL record had gone to the old segment
                straddler = Some(i);
                break;
            }
        }
        let Some(i) = straddler else { return Err("harness: no rotation happened".into()) };
        // the old memtable is flushed, which releases (deletes) the old WAL segment
        t.verif_flush_one().map_err(|e| e.to_string())?;
        tokio::time::sleep(std::time::Duration::from_millis(20)).await;
        close(t).await;
        let t = cfg.open(&dir).map_err(|e| format!("reopen failed: {e}"))?;
        let k = format!("key{:04}", i);
        let got = {
            let tx = t.begin_with_mode(Mode::ReadOnly).map_err(|e| e.to_string())?;
            tx.get(k.as_bytes()).map_err(|e| e.to_string())?
        };
        close(t).await;
        if got.is_some() {
            Ok(())
        } else {
            Err(format!(
                "the acknowledged commit #{} whose apply step rotated the full memtable has its WAL record in the old segment but lives in the new memtable; after the old memtable was flushed (old segment deleted) and the process stopped without flushing, the commit is gone",
                i
            ))
        }
    })
}

fn c03_batch_torn_by_rotation(dir: PathBuf) -> ScenFut<'static> {
    Box::pin(async move {
        // A multi-key transaction finds the memtable full in the middle of its apply step.
        // Whatever is flushed from the old memtable must not contain a part of it.
        let cfg = Cfg { max_memtable_size: 16 * 1024, ..base_cfg() };
        let t = cfg.open(&dir).map_err(|e| e.to_string())?;
        let val = vec![0x63u8; 300];
        let mut torn: Option<u32> = None;
        for i in 0..200u32 {
            // 10-key transaction, ~3.3 KiB
            let keys: Vec<Vec<u8>> = (0..10).map(|j| format!("t{:03}k{}", i, j).into_bytes()).collect();
            let kvs: Vec<(&[u8], &[u8])> = keys.iter().map(|k| (k.as_slice(), &val[..])).collect();
            put(&t, &kvs).await?;
            if t.verif_layout().map_err(|e| e.to_string())?.immutables > 0 {
                torn = Some(i);
                break;
            }
        }
        let Some(i) = torn else { return Err("harness: no rotation happened".into()) };
        // flush only the OLD memtable and look at what reached the table
        t.verif_flush_one().map_err(|e| e.to_string())?;
        tokio::time::sleep(std::time::Duration::from_millis(20)).await;
        // stop without flushing; simulate the loss of the unsynced WAL tail by removing the newest segment
        close(t).await;
        if let Some(seg) = last_wal_segment(&dir) {
            let _ = std::fs::remove_file(seg);
        }
        let t = cfg.open(&dir).map_err(|e| format!("reopen failed: {e}"))?;
        let present = {
            let tx = t.begin_with_mode(Mode::ReadOnly).map_err(|e| e.to_string())?;
            let lo = format!("t{:03}k", i).into_bytes();
            let hi = format!("t{:03}l", i).into_bytes();
            let mut it = tx.range(&lo[..], &hi[..]).map_err(|e| e.to_string())?;
            collect_fwd(&mut it)?.len()
        };
        close(t).await;
        if present == 0 || present == 10 {
            Ok(())
        } else {
            Err(format!(
                "transaction #{} (10 keys) hit a full memtable in the middle of its apply step: {} of its 10 keys were left in the old memtable and flushed to a table; after losing the unsynced WAL tail the store shows the transaction partly",
                i, present
            ))
        }
    })
}

fn c09_inverted_bounds_deep_level(dir: PathBuf) -> ScenFut<'static> {
    Box::pin(async move {
        let cfg = Cfg { level_count: 4, l0_max_files: 1, max_bytes_for_level: 1 << 20, ..base_cfg() };
        let t = cfg.open(&dir).map_err(|e| e.to_string())?;
        // two key-disjoint tables on level 1
        put(&t, &[(b"m", b"1")]).await?;
        t.verif_flush().map_err(|e| e.to_string())?;
        t.verif_compact_once().map_err(|e| e.to_string())?;
        put(&t, &[(b"b", b"2")]).await?;
        t.verif_flush().map_err(|e| e.to_string())?;
        t.verif_compact_once().map_err(|e| e.to_string())?;
        let r = {
            let tx = t.begin_with_mode(Mode::ReadOnly).map_err(|e| e.to_string())?;
            let res = std::panic::catch_unwind(std::panic::AssertUnwindSafe(|| -> Result<Vec<Vec<u8>>, String> {
                let mut it = tx.range(&b"z"[..], &b"a"[..]).map_err(|e| e.to_string())?;
                collect_fwd(&mut it)
            }));
            match res {
                Err(_) => Err(format!("range(z, a) over tables on level 1 panicked: {}", crate::panics::take_last())),
                Ok(Err(e)) => Err(format!("range(z, a) failed: {e}")),
                Ok(Ok(v)) if !v.is_empty() => Err(format!("range(z, a) lists {:?}", v)),
                Ok(Ok(_)) => Ok(()),
            }
        };
        close(t).await;
        r
    })
}

fn ver_cfg(index: bool) -> Cfg {
    Cfg { versioning: true, vlog: true, vlog_threshold: 0, index, ..base_cfg() }
}

fn hist_list(t: &Tree, lo: &[u8], hi: &[u8], backward: bool, tombstones: bool, ts_range: Option<(u64, u64)>) -> Result<Vec<(Vec<u8>, u64)>, String> {
    let tx = t.begin_with_mode(Mode::ReadOnly).map_err(|e| e.to_string())?;
    let mut o = surrealkv::HistoryOptions::new().with_tombstones(tombstones);
    if let Some((a, b)) = ts_range {
        o = o.with_ts_range(a, b);
    }
    let mut it = tx.history_with_options(lo, hi, &o).map_err(|e| e.to_string())?;
    let mut out = vec![];
    let mut ok = if backward { it.seek_last() } else { it.seek_first() }.map_err(|e| e.to_string())?;
    while ok && it.valid() {
        out.push((it.key().user_key().to_vec(), it.key().timestamp()));
        ok = if backward { it.prev() } else { it.next() }.map_err(|e| e.to_string())?;
    }
    Ok(out)
}

async fn set_at(t: &Tree, k: &[u8], v: &[u8], ts: u64) -> Result<(), String> {
    let mut tx = t.begin_with_mode(Mode::WriteOnly).map_err(|e| e.to_string())?;
    tx.set_at(k, v, ts).map_err(|e| e.to_string())?;
    tx.commit().await.map_err(|e| e.to_string())
}

fn c10_backward_history_stops_at_hidden_key(dir: PathBuf) -> ScenFut<'static> {
    Box::pin(async move {
        let t = ver_cfg(false).open(&dir).map_err(|e| e.to_string())?;
        set_at(&t, b"a", b"1", 10).await?;
        set_at(&t, b"b", b"2", 20).await?;
        set_at(&t, b"c", b"3", 30).await?;
        del(&t, b"c").await?; // hard delete: c has no retained version
        let fwd = hist_list(&t, b"a", b"z", false, false, None)?;
        let bwd = hist_list(&t, b"a", b"z", true, false, None)?;
        close(t).await;
        let names = |v: &Vec<(Vec<u8>, u64)>| v.iter().map(|(k, _)| String::from_utf8_lossy(k).to_string()).collect::<Vec<_>>();
        if names(&fwd) != vec!["a", "b"] {
            return Err(format!("forward history lists {:?}, expected [a, b]", names(&fwd)));
        }
        if names(&bwd) != vec!["b", "a"] {
            return Err(format!("complete backward history traversal over keys a, b, c (c hard-deleted) lists {:?} instead of [b, a]: it stops at the first key that has nothing to list", names(&bwd)));
        }
        Ok(())
    })
}

fn c10_ts_range_lists_erased_version(dir: PathBuf) -> ScenFut<'static> {
    Box::pin(async move {
        let t = ver_cfg(false).open(&dir).map_err(|e| e.to_string())?;
        set_at(&t, b"k", b"old", 10).await?;
        {
            // hard delete at timestamp 20: erases the version at 10 for good
            let mut tx = t.begin_with_mode(Mode::WriteOnly).map_err(|e| e.to_string())?;
            tx.delete_with_options(&b"k"[..], &surrealkv::WriteOptions::new().with_timestamp(Some(20))).map_err(|e| e.to_string())?;
            tx.commit().await.map_err(|e| e.to_string())?;
        }
        set_at(&t, b"k", b"new", 30).await?;
        let all_f = hist_list(&t, b"a", b"z", false, true, None)?;
        let rng_f = hist_list(&t, b"a", b"z", false, true, Some((5, 15)))?;
        let rng_b = hist_list(&t, b"a", b"z", true, true, Some((5, 15)))?;
        close(t).await;
        if all_f != vec![(b"k".to_vec(), 30)] {
            return Err(format!("unfiltered history lists {:?}, expected only the version at 30", all_f));
        }
        if !rng_f.is_empty() || !rng_b.is_empty() {
            return Err(format!(
                "k: set@10, hard delete@20, set@30. History restricted to timestamps [5,15] lists the erased version: forward {:?}, backward {:?} (the timestamp filter is applied before the delete barrier is seen)",
                rng_f, rng_b
            ));
        }
        Ok(())
    })
}

async fn get_at(t: &Tree, k: &[u8], ts: u64) -> Result<Option<Vec<u8>>, String> {
    let tx = t.begin_with_mode(Mode::ReadOnly).map_err(|e| e.to_string())?;
    tx.get_at(k, ts).map_err(|e| e.to_string())
}

/// Two versions of one key with the same (explicit) timestamp, one of them a tombstone.
fn c10_equal_timestamps(dir: PathBuf) -> ScenFut<'static> {
    Box::pin(async move {
        for index in [true, false] {
            for first in ["soft delete", "hard delete", "set"] {
                let d = dir.join(format!("{}-{}", if index { "index" } else { "lsm" }, first.replace(' ', "_")));
                let t = ver_cfg(index).open(&d).map_err(|e| e.to_string())?;
                set_at(&t, b"k", b"v10", 10).await?;
                {
                    let mut tx = t.begin().map_err(|e| e.to_string())?;
                    let at20 = surrealkv::WriteOptions::default().with_timestamp(Some(20));
                    match first {
                        "soft delete" => tx.soft_delete_with_options(&b"k"[..], &at20).map_err(|e| e.to_string())?,
                        "hard delete" => tx.delete(&b"k"[..]).map_err(|e| e.to_string())?,
                        _ => tx.set_at(&b"k"[..], &b"first-at-20"[..], 20).map_err(|e| e.to_string())?,
                    }
                    tx.commit().await.map_err(|e| e.to_string())?;
                }
                set_at(&t, b"k", b"second-at-20", 20).await?;
                set_at(&t, b"other", b"o", 30).await?;
                let what = format!("version index {}: k = v10 @10, then a {} of k {}, then k = second-at-20 @20", if index { "on" } else { "off" }, first, if first == "hard delete" { "(stamped at commit time)" } else { "@20" });
                for phase in ["before flush", "after flush"] {
                    if phase == "after flush" {
                        t.verif_flush().map_err(|e| e.to_string())?;
                    }
                    let tr = &t;
                    for at in [15u64, 20, 25] {
                        match get_at(tr, b"k", at).await {
                            Err(e) => return Err(format!("{what}; {phase}: get_at(k, {at}) fails: {e}")),
                            Ok(v) => {
                                // ties may resolve either way; what is never acceptable is an answer that no version gives
                                let ok = match at {
                                    15 => v.as_deref() == Some(&b"v10"[..]) || (first == "hard delete" && v.is_none()),
                                    _ => v.is_none() || v.as_deref() == Some(&b"second-at-20"[..]) || v.as_deref() == Some(&b"first-at-20"[..]),
                                };
                                if !ok {
                                    return Err(format!("{what}; {phase}: get_at(k, {at}) = {:?}, which no version of k gives", v.map(|v| String::from_utf8_lossy(&v).to_string())));
                                }
                            }
                        }
                    }
                    if let Err(e) = hist_list(tr, b"a", b"z", false, true, None) {
                        return Err(format!("{what}; {phase}: history listing fails: {e}"));
                    }
                    if let Err(e) = hist_list(tr, b"a", b"z", true, true, None) {
                        return Err(format!("{what}; {phase}: backward history listing fails: {e}"));
                    }
                }
                close(t).await;
                let t = ver_cfg(index).open(&d).map_err(|e| format!("{what}; reopen: {e}"))?;
                for at in [15u64, 20, 25] {
                    if let Err(e) = get_at(&t, b"k", at).await {
                        close(t).await;
                        return Err(format!("{what}; after reopen: get_at(k, {at}) fails: {e}"));
                    }
                }
                close(t).await;
                let _ = std::fs::remove_dir_all(&d);
            }
        }
        Ok(())
    })
}

/// One transaction overwrites its own pending write across a savepoint: both writes are applied,
/// with the same commit timestamp. The time-travel read at or after that timestamp must agree
/// with the plain read.
fn c10_overwrite_across_savepoint(dir: PathBuf) -> ScenFut<'static> {
    Box::pin(async move {
        for index in [false, true] {
            for second in ["set", "soft delete"] {
                let d = dir.join(format!("{}-{}", if index { "index" } else { "lsm" }, second.replace(' ', "_")));
                let t = ver_cfg(index).open(&d).map_err(|e| e.to_string())?;
                {
                    let mut tx = t.begin().map_err(|e| e.to_string())?;
                    tx.set(&b"k"[..], &b"a"[..]).map_err(|e| e.to_string())?;
                    tx.set_savepoint().map_err(|e| e.to_string())?;
                    if second == "set" {
                        tx.set(&b"k"[..], &b"b"[..]).map_err(|e| e.to_string())?;
                    } else {
                        tx.soft_delete(&b"k"[..]).map_err(|e| e.to_string())?;
                    }
                    tx.commit().await.map_err(|e| e.to_string())?;
                }
                let what = format!("version index {}: one transaction: set k = a; set_savepoint; {} k; commit", if index { "on" } else { "off" }, if second == "set" { "set k = b," } else { "soft delete" });
                for phase in ["before flush", "after flush", "after reopen"] {
                    if phase == "after flush" {
                        t.verif_flush().map_err(|e| e.to_string())?;
                    }
                    let plain = get1(&t, b"k")?;
                    let at = get_at(&t, b"k", u64::MAX).await.map_err(|e| format!("{what}; {phase}: get_at fails: {e}"))?;
                    if plain != at {
                        let s = |v: &Option<Vec<u8>>| v.as_ref().map(|v| String::from_utf8_lossy(v).to_string());
                        return Err(format!("{what}; {phase}: get(k) = {:?} but get_at(k, u64::MAX) = {:?} (both writes carry the commit timestamp; the time-travel read prefers the one issued first)", s(&plain), s(&at)));
                    }
                    if phase == "after flush" {
                        break;
                    }
                }
                close(t).await;
                let t = ver_cfg(index).open(&d).map_err(|e| format!("{what}; reopen: {e}"))?;
                let plain = get1(&t, b"k")?;
                let at = get_at(&t, b"k", u64::MAX).await.map_err(|e| format!("{what}; after reopen: get_at fails: {e}"))?;
                close(t).await;
                if plain != at {
                    return Err(format!("{what}; after reopen: get(k) and get_at(k, u64::MAX) differ"));
                }
                let _ = std::fs::remove_dir_all(&d);
            }
        }
        Ok(())
    })
}

/// A reader is open while a replace (or delete / set / delete) of a key it reads is committed;
/// then flush and compaction. The reader's snapshot does not hold the barrier: its time-travel
/// reads and its history must not change under it. A reader begun afterwards sees the barrier.
fn c10_barrier_committed_after_reader(dir: PathBuf) -> ScenFut<'static> {
    Box::pin(async move {
        for variant in ["replace", "delete, set, delete"] {
            let d = dir.join(variant.replace([' ', ','], "_"));
            let cfg = Cfg { level_count: 2, l0_max_files: 2, max_bytes_for_level: 1 << 20, ..ver_cfg(false) };
            let t = cfg.open(&d).map_err(|e| e.to_string())?;
            for (ts, v) in [(10u64, &b"v1"[..]), (20, b"v2"), (30, b"v3")] {
                set_at(&t, b"k", v, ts).await?;
            }
            t.verif_flush().map_err(|e| e.to_string())?;
            let reader = t.begin_with_mode(Mode::ReadOnly).map_err(|e| e.to_string())?;
            let observe = |tx: &surrealkv::Transaction| -> Result<(Vec<Option<Vec<u8>>>, Vec<u64>), String> {
                let mut reads = vec![];
                for at in [5u64, 10, 15, 20, 25, 30, 35] {
                    reads.push(tx.get_at(&b"k"[..], at).map_err(|e| format!("get_at(k, {at}): {e}"))?);
                }
                let o = surrealkv::HistoryOptions::new().with_tombstones(true);
                let mut it = tx.history_with_options(&b"a"[..], &b"z"[..], &o).map_err(|e| e.to_string())?;
                let mut hist = vec![];
                let mut ok = it.seek_first().map_err(|e| e.to_string())?;
                while ok && it.valid() {
                    hist.push(it.key().timestamp());
                    ok = it.next().map_err(|e| e.to_string())?;
                }
                Ok((reads, hist))
            };
            let before = observe(&reader)?;
            if before.1 != vec![30, 20, 10] {
                return Err(format!("harness: the reader lists {:?} before anything happened", before.1));
            }
            if variant == "replace" {
                let mut tx = t.begin_with_mode(Mode::WriteOnly).map_err(|e| e.to_string())?;
                tx.replace(&b"k"[..], &b"r4"[..]).map_err(|e| e.to_string())?;
                tx.commit().await.map_err(|e| e.to_string())?;
            } else {
                del(&t, b"k").await?;
                put(&t, &[(b"k", b"v5")]).await?;
                del(&t, b"k").await?;
            }
            t.verif_flush().map_err(|e| e.to_string())?;
            let after_flush = observe(&reader)?;
            let mut rounds = 0;
            while rounds < 8 && t.verif_compact_once().map_err(|e| e.to_string())? {
                rounds += 1;
            }
            if rounds == 0 {
                return Err("harness: no compaction ran".into());
            }
            let after_compaction = observe(&reader)?;
            // a reader begun now sees the barrier: nothing of v1..v3 is left for it
            let late = {
                let tx = t.begin_with_mode(Mode::ReadOnly).map_err(|e| e.to_string())?;
                observe(&tx)?
            };
            drop(reader);
            close(t).await;
            let show = |o: &(Vec<Option<Vec<u8>>>, Vec<u64>)| format!("get_at(k, 5/10/15/20/25/30/35) = {:?}, history timestamps {:?}", o.0.iter().map(|v| v.as_ref().map(|v| String::from_utf8_lossy(v).to_string())).collect::<Vec<_>>(), o.1);
            let what = format!("k = v1 @10, v2 @20, v3 @30, flushed; a read-only transaction begins; then {variant} of k is committed; flush; {rounds} compaction round(s)");
            if after_flush != before {
                return Err(format!("{what}: the open transaction read {} before and {} after the flush", show(&before), show(&after_flush)));
            }
            if after_compaction != before {
                return Err(format!("{what}: the open transaction read {} before and {} after the compaction", show(&before), show(&after_compaction)));
            }
            if late.0[..6].iter().any(|v| v.is_some()) || late.1.iter().any(|ts| *ts <= 30) {
                return Err(format!("{what}: a transaction begun after all that still reads erased versions: {}", show(&late)));
            }
            let _ = std::fs::remove_dir_all(&d);
        }
        Ok(())
    })
}

fn c10_compaction_resurrects_erased_version(dir: PathBuf) -> ScenFut<'static> {
    Box::pin(async move {
        let cfg = Cfg { level_count: 3, l0_max_files: 1, max_bytes_for_level: 1 << 20, ..ver_cfg(false) };
        let t = cfg.open(&dir).map_err(|e| e.to_string())?;
        set_at(&t, b"k", b"v1", 10).await?;
        {
            let mut tx = t.begin_with_mode(Mode::WriteOnly).map_err(|e| e.to_string())?;
            tx.delete_with_options(&b"k"[..], &surrealkv::WriteOptions::new().with_timestamp(Some(20))).map_err(|e| e.to_string())?;
            tx.commit().await.map_err(|e| e.to_string())?;
        }
        set_at(&t, b"k", b"v3", 30).await?;
        let before = get_at(&t, b"k", 15).await?;
        t.verif_flush().map_err(|e| e.to_string())?;
        compact_all(&t).await?;
        let after = get_at(&t, b"k", 15).await?;
        let hist = hist_list(&t, b"a", b"z", false, true, None)?;
        close(t).await;
        if before.is_some() {
            return Err(format!("before compaction get_at(k, 15) = {:?}, expected None (erased by the delete at 20)", before));
        }
        if after.is_some() || hist.len() != 1 {
            return Err(format!(
                "k: set@10, hard delete@20, set@30; after flush + compaction get_at(k, 15) = {:?} and history lists {:?}: compaction dropped the delete but kept the version it had erased",
                after.map(|v| String::from_utf8_lossy(&v).to_string()),
                hist.iter().map(|(_, ts)| *ts).collect::<Vec<_>>()
            ));
        }
        Ok(())
    })
}

fn c10_compaction_drops_version_above_replace(dir: PathBuf) -> ScenFut<'static> {
    Box::pin(async move {
        let cfg = Cfg { level_count: 3, l0_max_files: 1, max_bytes_for_level: 1 << 20, ..ver_cfg(false) };
        let t = cfg.open(&dir).map_err(|e| e.to_string())?;
        {
            let mut tx = t.begin_with_mode(Mode::WriteOnly).map_err(|e| e.to_string())?;
            tx.replace(&b"k"[..], &b"r1"[..]).map_err(|e| e.to_string())?;
            tx.commit().await.map_err(|e| e.to_string())?;
        }
        // timestamps of commit-time writes come from the system clock: use far-future explicit ones after it
        let far = u64::MAX / 2;
        set_at(&t, b"k", b"v2", far).await?;
        set_at(&t, b"k", b"v3", far + 10).await?;
        let before = get_at(&t, b"k", far + 5).await?;
        t.verif_flush().map_err(|e| e.to_string())?;
        compact_all(&t).await?;
        let after = get_at(&t, b"k", far + 5).await?;
        close(t).await;
        if before.as_deref() != Some(&b"v2"[..]) {
            return Err(format!("before compaction get_at = {:?}, expected v2", before));
        }
        if after.as_deref() != Some(&b"v2"[..]) {
            return Err(format!(
                "k: replace, then set v2, then set v3 (unlimited retention); after flush + compaction the read at v2's timestamp returns {:?}: the version written AFTER the replace was discarded",
                after.map(|v| String::from_utf8_lossy(&v).to_string())
            ));
        }
        Ok(())
    })
}

fn c10_ts_range_out_of_order_memtable(dir: PathBuf) -> ScenFut<'static> {
    Box::pin(async move {
        // index back-end: out-of-order timestamps are allowed
        let t = ver_cfg(true).open(&dir).map_err(|e| e.to_string())?;
        set_at(&t, b"k", b"v100", 100).await?;
        set_at(&t, b"k", b"v50", 50).await?; // written later, stamped earlier; both still in the memtable
        let all = hist_list(&t, b"a", b"z", false, true, None)?;
        let rng = hist_list(&t, b"a", b"z", false, true, Some((90, 110)))?;
        close(t).await;
        if all.len() != 2 {
            return Err(format!("unfiltered history lists {:?}, expected both versions", all));
        }
        if rng != vec![(b"k".to_vec(), 100)] {
            return Err(format!("k: set@100 then set@50 (out of order, unflushed); history restricted to [90,110] lists {:?} instead of the version at 100", rng));
        }
        Ok(())
    })
}

/// A history cursor is open on an open transaction when an older version it lists leaves the
/// retention window; compaction drops the version and the clean-up removes its value-log file.
fn c11_history_cursor_outlives_retention(dir: PathBuf) -> ScenFut<'static> {
    Box::pin(async move {
        use std::sync::atomic::{AtomicU64, Ordering};
        let clock = std::sync::Arc::new(crate::e1::ManualClock(AtomicU64::new(1000)));
        // every flush ends up in a value-log file of its own
        let cfg = Cfg { l0_max_files: 2, retention: 5000, vlog_max_file: 64, ..ver_cfg(false) };
        let t = cfg.open_with_clock(&dir, clock.clone()).map_err(|e| e.to_string())?;
        let v1 = vec![0x11u8; 300];
        let v2 = vec![0x22u8; 300];
        set_at(&t, b"k", &v1, 1000).await?;
        t.verif_flush().map_err(|e| e.to_string())?;
        clock.0.store(2000, Ordering::SeqCst);
        set_at(&t, b"k", &v2, 2000).await?;
        t.verif_flush().map_err(|e| e.to_string())?;
        let reader = t.begin_with_mode(Mode::ReadOnly).map_err(|e| e.to_string())?;
        let mut hist = reader.history(&b"k"[..], &b"l"[..]).map_err(|e| e.to_string())?;
        if !hist.seek_first().map_err(|e| e.to_string())? || hist.key().timestamp() != 2000 {
            return Err("harness: the history cursor does not start at the version of time 2000".into());
        }
        let first = hist.value().map_err(|e| format!("value of the newest version: {e}"))?;
        // version 1 leaves the retention window; one compaction round with its clean-up
        clock.0.store(1_000_000, Ordering::SeqCst);
        if !t.verif_compact_once().map_err(|e| e.to_string())? {
            return Err("harness: no compaction ran".into());
        }
        let moved = hist.next().map_err(|e| format!("next() on the open history cursor: {e}"))?;
        let res = if moved && hist.valid() && hist.key().timestamp() == 1000 {
            match hist.value() {
                Ok(v) if v == v1 => Ok(()),
                Ok(v) => Err(format!("the cursor returns {} bytes that are not the value written", v.len())),
                Err(e) => Err(format!("the cursor lists the version of time 1000 and reading its value fails: {e}")),
            }
        } else {
            // not listing the expired version is fine
            Ok(())
        };
        drop(hist);
        drop(reader);
        close(t).await;
        if first != v2 {
            return Err("the newest version was not returned byte for byte".into());
        }
        res.map_err(|e| format!("retention 5000, k = 300 bytes @1000 and @2000, each flushed into a value-log file of its own; a transaction opens a history cursor and reads the newer version; the clock moves to 1000000 and one compaction round runs (drops the expired version, the clean-up removes its value-log file) while the transaction is open: {e}"))
    })
}

/// Version index on, the timestamps of a key's versions not in commit order; a history listing
/// is taken while the memtable's flush stands between its index update and its manifest switch.
fn c10_history_during_flush_out_of_order(dir: PathBuf) -> ScenFut<'static> {
    Box::pin(async move {
        let res = std::thread::spawn(move || -> Result<(), String> {
            let rt = tokio::runtime::Builder::new_multi_thread().worker_threads(4).enable_all().build().map_err(|e| e.to_string())?;
            rt.block_on(async move {
                let t = std::sync::Arc::new(ver_cfg(true).open(&dir).map_err(|e| e.to_string())?);
                for (ts, v) in [(20u64, &b"v20"[..]), (30, b"v30"), (10, b"v10")] {
                    set_at(&t, b"k", v, ts).await?;
                }
                let mut before = hist_list(&t, b"a", b"z", false, true, None)?;
                before.sort_by(|a, b| b.1.cmp(&a.1));
                t.verif_rotate().map_err(|e| e.to_string())?;
                let ctl = crate::e3::ctl();
                ctl.reset();
                let gate = ctl.arm_gate("flush.after_index");
                let tf = t.clone();
                let h = tokio::runtime::Handle::current();
                let flusher = std::thread::spawn(move || {
                    let _g = h.enter();
                    tf.verif_flush_one().map(|_| ()).map_err(|e| e.to_string())
                });
                if !gate.wait_parked(5000) {
                    gate.release();
                    let _ = flusher.join();
                    ctl.reset();
                    return Err("harness: the flush did not reach flush.after_index".into());
                }
                let during = hist_list(&t, b"a", b"z", false, true, None);
                gate.release();
                let _ = flusher.join();
                ctl.reset();
                let mut after = hist_list(&t, b"a", b"z", false, true, None)?;
                after.sort_by(|a, b| b.1.cmp(&a.1));
                if let Ok(t) = std::sync::Arc::try_unwrap(t) {
                    close(t).await;
                }
                let what = "version index on; k = v20 @20, v30 @30, v10 @10 committed in that order; the memtable's flush has updated the version index and not yet switched the manifest";
                let mut during = during.map_err(|e| format!("{what}: the history listing fails: {e}"))?;
                let raw = during.clone();
                during.sort_by(|a, b| b.1.cmp(&a.1));
                let ts = |l: &Vec<(Vec<u8>, u64)>| l.iter().map(|e| e.1).collect::<Vec<_>>();
                if ts(&before) != vec![30, 20, 10] {
                    return Err(format!("{what}: before the flush the history lists timestamps {:?}", ts(&before)));
                }
                if during != before {
                    return Err(format!("{what}: a history listing taken now gives timestamps {:?} (before the flush {:?}) - the versions are read from the memtable and from the index, and only adjacent repeats are merged", ts(&raw), ts(&before)));
                }
                if after != before {
                    return Err(format!("{what}: after the flush the history lists timestamps {:?}", ts(&after)));
                }
                Ok(())
            })
        })
        .join()
        .map_err(|_| "scenario thread panicked".to_string())?;
        res
    })
}

/// Version index on: a version written after a hard delete / replace, with an explicit timestamp
/// older than the barrier's. Whatever the store makes of it, it must be the same before and
/// after the flush.
fn c10_older_timestamp_after_barrier(dir: PathBuf) -> ScenFut<'static> {
    Box::pin(async move {
        for barrier in ["hard delete", "replace"] {
            let d = dir.join(barrier.replace(' ', "_"));
            let t = ver_cfg(true).open(&d).map_err(|e| e.to_string())?;
            put(&t, &[(b"k", b"v1")]).await?; // commit time: the system clock, far above 500
            if barrier == "replace" {
                let mut tx = t.begin_with_mode(Mode::WriteOnly).map_err(|e| e.to_string())?;
                tx.replace(&b"k"[..], &b"r2"[..]).map_err(|e| e.to_string())?;
                tx.commit().await.map_err(|e| e.to_string())?;
            } else {
                del(&t, b"k").await?;
            }
            set_at(&t, b"k", b"old", 500).await?;
            let observe = |t: &Tree| -> Result<(Option<Vec<u8>>, Vec<u64>), String> {
                let tx = t.begin_with_mode(Mode::ReadOnly).map_err(|e| e.to_string())?;
                let g = tx.get_at(&b"k"[..], 600).map_err(|e| format!("get_at(k, 600): {e}"))?;
                let h = hist_list(t, b"a", b"z", false, false, None)?.into_iter().map(|e| e.1).filter(|ts| *ts <= 600).collect();
                Ok((g, h))
            };
            let before = observe(&t)?;
            t.verif_flush().map_err(|e| e.to_string())?;
            let after = observe(&t)?;
            close(t).await;
            let _ = std::fs::remove_dir_all(&d);
            if before != after {
                let s = |o: &(Option<Vec<u8>>, Vec<u64>)| format!("get_at(k, 600) = {:?}, history entries up to time 600: {:?}", o.0.as_ref().map(|v| String::from_utf8_lossy(v).to_string()), o.1);
                return Err(format!("version index on; k = v1 at commit time; {barrier} of k at commit time; then k = old with the explicit timestamp 500: before the flush {}; after the flush {}", s(&before), s(&after)));
            }
        }
        Ok(())
    })
}

/// A reader begins between two hard deletes of a key whose oldest version sits on a deeper
/// level. Compaction finds the older delete redundant (a newer barrier exists) - but the reader
/// sees the older one only.
fn c10_reader_between_two_barriers(dir: PathBuf) -> ScenFut<'static> {
    Box::pin(async move {
        let cfg = Cfg { level_count: 5, l0_max_files: 1, max_bytes_for_level: 512, ..ver_cfg(false) };
        let t = cfg.open(&dir).map_err(|e| e.to_string())?;
        set_at(&t, b"k", b"v1", 10).await?;
        t.verif_flush().map_err(|e| e.to_string())?;
        compact_all(&t).await?; // v1 sits on a deeper level now
        del(&t, b"k").await?; // erases v1 for good
        put(&t, &[(b"k", b"v2")]).await?;
        let reader = t.begin_with_mode(Mode::ReadOnly).map_err(|e| e.to_string())?;
        let observe = |tx: &surrealkv::Transaction| -> Result<(Option<Vec<u8>>, usize), String> {
            let g = tx.get_at(&b"k"[..], 10).map_err(|e| format!("get_at(k, 10): {e}"))?;
            let o = surrealkv::HistoryOptions::new().with_tombstones(true);
            let mut it = tx.history_with_options(&b"a"[..], &b"z"[..], &o).map_err(|e| e.to_string())?;
            let mut n = 0;
            let mut ok = it.seek_first().map_err(|e| e.to_string())?;
            while ok && it.valid() {
                n += 1;
                ok = it.next().map_err(|e| e.to_string())?;
            }
            Ok((g, n))
        };
        let before = observe(&reader)?;
        del(&t, b"k").await?; // the newer barrier, committed after the reader began
        t.verif_flush().map_err(|e| e.to_string())?;
        let mut rounds = 0;
        while rounds < 4 && t.verif_compact_once().map_err(|e| e.to_string())? {
            rounds += 1;
        }
        let after = observe(&reader)?;
        drop(reader);
        close(t).await;
        if before != (None, 1) {
            return Err(format!("harness: before the second delete the reader reads get_at(k, 10) = {:?} and lists {} versions", before.0.map(|v| v.len()), before.1));
        }
        if after != before {
            return Err(format!(
                "k = v1 @10 flushed and compacted to a deeper level; hard delete of k; k = v2; a read-only transaction begins (get_at(k, 10) = None, one version listed); a second hard delete of k; flush; {rounds} compaction round(s): the open transaction now reads get_at(k, 10) = {:?} and lists {} versions - compaction dropped the older delete as redundant, the reader does not see the newer one, and v1 is back for it",
                after.0.map(|v| String::from_utf8_lossy(&v).to_string()),
                after.1
            ));
        }
        Ok(())
    })
}

fn c10_retention_drops_replace_barrier(dir: PathBuf) -> ScenFut<'static> {
    Box::pin(async move {
        use std::sync::atomic::{AtomicU64, Ordering};
        let clock = std::sync::Arc::new(crate::e1::ManualClock(AtomicU64::new(1000)));
        // every table is "too big" for its level, so compaction pushes data down one level per round
        let cfg = Cfg { level_count: 4, l0_max_files: 1, max_bytes_for_level: 64, level_multiplier: 1.0, retention: 100, ..ver_cfg(false) };
        let t = cfg.open_with_clock(&dir, clock.clone()).map_err(|e| e.to_string())?;
        put(&t, &[(b"k", b"v1")]).await?; // ts 1000
        t.verif_flush().map_err(|e| e.to_string())?;
        compact_all(&t).await?; // v1 now sits on the bottom level
        clock.0.store(1010, Ordering::SeqCst);
        {
            let mut tx = t.begin_with_mode(Mode::WriteOnly).map_err(|e| e.to_string())?;
            tx.replace(&b"k"[..], &b"r2"[..]).map_err(|e| e.to_string())?; // erases v1 for good
            tx.commit().await.map_err(|e| e.to_string())?;
        }
        clock.0.store(1020, Ordering::SeqCst);
        put(&t, &[(b"k", b"v3")]).await?;
        t.verif_flush().map_err(|e| e.to_string())?;
        let before = hist_list(&t, b"a", b"z", false, true, None)?;
        // much later: the replace is outside the retention window when one compaction round runs
        clock.0.store(5000, Ordering::SeqCst);
        t.verif_compact_once().map_err(|e| e.to_string())?;
        let lay = t.verif_layout().map_err(|e| e.to_string())?;
        let after = hist_list(&t, b"a", b"z", false, true, None)?;
        let g = get_at(&t, b"k", 1005).await?;
        close(t).await;
        let tss = |v: &Vec<(Vec<u8>, u64)>| v.iter().map(|(_, ts)| *ts).collect::<Vec<_>>();
        if tss(&before) != vec![1020, 1010] {
            return Err(format!("before compaction history lists {:?}, expected [1020, 1010]", tss(&before)));
        }
        if tss(&after).contains(&1000) || g.is_some() {
            return Err(format!(
                "k: v1@1000 (on the bottom level), replace@1010, v3@1020, retention 100; one compaction round at time 5000 dropped the replace as expired while v1 below it survives on a deeper level: history now lists {:?}, get_at(k, 1005) = {:?} (tables per level: {:?})",
                tss(&after),
                g.map(|v| String::from_utf8_lossy(&v).to_string()),
                lay.tables.iter().map(|t| (t.level, t.id)).collect::<Vec<_>>()
            ));
        }
        Ok(())
    })
}

fn c10_open_reader_makes_compaction_drop_history(dir: PathBuf) -> ScenFut<'static> {
    Box::pin(async move {
        let cfg = Cfg { level_count: 3, l0_max_files: 1, max_bytes_for_level: 1 << 20, ..ver_cfg(false) };
        let t = cfg.open(&dir).map_err(|e| e.to_string())?;
        set_at(&t, b"k", b"v1", 10).await?;
        set_at(&t, b"k", b"v2", 20).await?;
        set_at(&t, b"k", b"v3", 30).await?;
        // an unrelated reader is open while flush + compaction run
        let reader = t.begin_with_mode(Mode::ReadOnly).map_err(|e| e.to_string())?;
        t.verif_flush().map_err(|e| e.to_string())?;
        compact_all(&t).await?;
        drop(reader);
        let g = get_at(&t, b"k", 15).await?;
        let hist = hist_list(&t, b"a", b"z", false, true, None)?;
        close(t).await;
        if g.as_deref() != Some(&b"v1"[..]) || hist.len() != 3 {
            return Err(format!(
                "k: v1@10, v2@20, v3@30 with unlimited retention; flush + compaction while a reader is open: get_at(k, 15) = {:?}, history lists timestamps {:?} - older versions were discarded because a snapshot existed",
                g.map(|v| String::from_utf8_lossy(&v).to_string()),
                hist.iter().map(|(_, ts)| *ts).collect::<Vec<_>>()
            ));
        }
        Ok(())
    })
}

async fn fresh_get(t: &Tree, k: &[u8]) -> Result<Option<Vec<u8>>, String> {
    let tx = t.begin_with_mode(Mode::ReadOnly).map_err(|e| e.to_string())?;
    tx.get(k).map_err(|e| e.to_string())
}

fn c14_stale_block_cache_after_restore(dir: PathBuf) -> ScenFut<'static> {
    Box::pin(async move {
        let cfg = Cfg { cache: 1 << 20, level_count: 3, l0_max_files: 4, max_bytes_for_level: 1 << 20, ..base_cfg() };
        let t = cfg.open(&dir).map_err(|e| e.to_string())?;
        let ck = dir.with_extension("ckpt");
        let _ = std::fs::remove_dir_all(&ck);
        put(&t, &[(b"base", b"0")]).await?;
        t.create_checkpoint(&ck).map_err(|e| e.to_string())?;
        // discarded timeline: a table is written and read (its blocks enter the cache)
        put(&t, &[(b"x", b"discarded")]).await?;
        t.verif_flush().map_err(|e| e.to_string())?;
        let _ = fresh_get(&t, b"x").await?;
        t.restore_from_checkpoint(&ck).map_err(|e| e.to_string())?;
        // new timeline: the next table reuses the table id of the discarded one
        put(&t, &[(b"y", b"kept")]).await?;
        t.verif_flush().map_err(|e| e.to_string())?;
        let gy = fresh_get(&t, b"y").await?;
        let gx = fresh_get(&t, b"x").await?;
        close(t).await;
        let _ = std::fs::remove_dir_all(&ck);
        if gy.as_deref() != Some(&b"kept"[..]) || gx.is_some() {
            return Err(format!(
                "after restore, commit y + flush (the new table reuses the id of a table of the discarded timeline whose blocks are cached): get(y) = {:?} (expected kept), get(x) = {:?} (expected None)",
                gy.map(|v| String::from_utf8_lossy(&v).to_string()),
                gx.map(|v| String::from_utf8_lossy(&v).to_string())
            ));
        }
        Ok(())
    })
}

fn c14_vlog_writer_after_restore(dir: PathBuf) -> ScenFut<'static> {
    Box::pin(async move {
        let cfg = Cfg { vlog: true, vlog_threshold: 0, vlog_max_file: 1 << 20, cache: 0, ..base_cfg() };
        let t = cfg.open(&dir).map_err(|e| e.to_string())?;
        let ck = dir.with_extension("ckpt");
        let _ = std::fs::remove_dir_all(&ck);
        put(&t, &[(b"base", b"0000000000")]).await?;
        t.create_checkpoint(&ck).map_err(|e| e.to_string())?;
        t.restore_from_checkpoint(&ck).map_err(|e| e.to_string())?;
        put(&t, &[(b"after", b"written-after-restore")]).await?;
        t.verif_flush().map_err(|e| e.to_string())?;
        let live = fresh_get(&t, b"after").await;
        close(t).await;
        let t = cfg.open(&dir).map_err(|e| format!("reopen failed: {e}"))?;
        let after = fresh_get(&t, b"after").await;
        close(t).await;
        let _ = std::fs::remove_dir_all(&ck);
        match (live, after) {
            (Ok(Some(a)), Ok(Some(b))) if a == b"written-after-restore" && b == a => Ok(()),
            (l, a) => Err(format!(
                "value written after a restore (value log on) and flushed: live read = {:?}, read after reopen = {:?} (the value-log writer kept appending to the file that restore had replaced)",
                l.map(|v| v.map(|x| x.len())),
                a.map(|v| v.map(|x| x.len()))
            )),
        }
    })
}

/// (relative path, length, content hash) of every file below `dir`.
fn dir_digest(dir: &std::path::Path) -> Vec<(String, u64, u64)> {
    fn walk(base: &std::path::Path, d: &std::path::Path, out: &mut Vec<(String, u64, u64)>) {
        let Ok(rd) = std::fs::read_dir(d) else { return };
        for e in rd.flatten() {
            let p = e.path();
            if p.is_dir() {
                walk(base, &p, out);
            } else if let Ok(b) = std::fs::read(&p) {
                let mut h = 0xcbf2_9ce4_8422_2325u64;
                for x in &b {
                    h = (h ^ *x as u64).wrapping_mul(0x0000_0100_0000_01b3);
                }
                out.push((p.strip_prefix(base).unwrap_or(&p).to_string_lossy().to_string(), b.len() as u64, h));
            }
        }
    }
    let mut out = vec![];
    walk(dir, dir, &mut out);
    out.sort();
    out
}

/// A checkpoint is a database of its own: while the source keeps committing and flushing, the
/// checkpoint directory does not change, and a store opened on (a second copy of) the checkpoint
/// and the source do not see each other's writes - whatever the two do in which order.
fn c14_checkpoint_independent_of_source(dir: PathBuf) -> ScenFut<'static> {
    Box::pin(async move {
        use std::collections::BTreeMap;
        type M = BTreeMap<Vec<u8>, Vec<u8>>;
        async fn verify(t: &Tree, m: &M, nkeys: u64, who: &str, when: &str) -> Result<(), String> {
            for i in 0..nkeys {
                let k = format!("k{i}").into_bytes();
                let got = fresh_get(t, &k).await.map_err(|e| format!("{who}, {when}: get(k{i}) failed: {e}"))?;
                if got.as_ref() != m.get(&k) {
                    let show = |v: Option<&Vec<u8>>| v.map(|v| format!("{}.. ({} bytes)", String::from_utf8_lossy(&v[..v.len().min(24)]), v.len()));
                    return Err(format!("{who}, {when}: get(k{i}) = {:?}, its own history says {:?}", show(got.as_ref()), show(m.get(&k))));
                }
            }
            Ok(())
        }
        for seed in 0..24u64 {
            let mut r = crate::rng::Rng::new(0xC14C ^ seed);
            let d = dir.join(format!("s{seed}"));
            let cfg = Cfg {
                vlog: seed % 4 != 3,
                vlog_threshold: 64,
                vlog_max_file: *r.pick(&[1024, 1 << 20]),
                cache: *r.pick(&[0, 1 << 20]),
                flush_on_close: r.chance(1, 2),
                level_count: 3,
                l0_max_files: 4,
                ..base_cfg()
            };
            let what = format!("options: value log {}, value-log file size {}, flush on close {}", if cfg.vlog { "on" } else { "off" }, cfg.vlog_max_file, cfg.flush_on_close);
            let nkeys = 6u64;
            let src = cfg.open(&d.join("src")).map_err(|e| e.to_string())?;
            let mut m_src: M = BTreeMap::new();
            let mut n = 0u64;
            let mut write = |r: &mut crate::rng::Rng, tag: &str, m: &mut M| -> Vec<(Vec<u8>, Vec<u8>)> {
                let mut out = vec![];
                for _ in 0..r.range(1, 2) {
                    n += 1;
                    let k = format!("k{}", r.below(nkeys)).into_bytes();
                    let len = if r.chance(3, 4) { r.range(100, 600) as usize } else { r.range(1, 40) as usize };
                    let mut v = format!("{tag}-{n}-").into_bytes();
                    v.resize(v.len() + len, b'a' + (n % 26) as u8);
                    m.insert(k.clone(), v.clone());
                    out.push((k, v));
                }
                out
            };
            for _ in 0..r.range(3, 8) {
                let kv = write(&mut r, "before", &mut m_src);
                let refs: Vec<(&[u8], &[u8])> = kv.iter().map(|(k, v)| (&k[..], &v[..])).collect();
                put(&src, &refs).await?;
                if r.chance(1, 2) {
                    src.verif_flush().map_err(|e| e.to_string())?;
                }
            }
            let (ck_a, ck_b) = (d.join("ckA"), d.join("ckB"));
            src.create_checkpoint(&ck_a).map_err(|e| format!("create_checkpoint: {e}"))?;
            src.create_checkpoint(&ck_b).map_err(|e| format!("create_checkpoint: {e}"))?;
            let digest_a = dir_digest(&ck_a);
            let m_ck = m_src.clone();
            let other = cfg.open(&ck_b).map_err(|e| format!("{what}: the checkpoint directory does not open as a database: {e}"))?;
            let mut m_other = m_ck.clone();
            verify(&other, &m_other, nkeys, "store opened on the checkpoint", "right after opening").await.map_err(|e| format!("{what}: {e}"))?;
            let mut order = vec![];
            for round in 0..r.range(6, 12) {
                let on_src = r.chance(1, 2);
                let (t, m, tag) = if on_src { (&src, &mut m_src, "source") } else { (&other, &mut m_other, "ckpt") };
                let kv = write(&mut r, tag, m);
                let refs: Vec<(&[u8], &[u8])> = kv.iter().map(|(k, v)| (&k[..], &v[..])).collect();
                put(t, &refs).await?;
                let flushed = r.chance(2, 3);
                if flushed {
                    t.verif_flush().map_err(|e| e.to_string())?;
                }
                order.push(format!("{}{}", if on_src { "S" } else { "C" }, if flushed { "f" } else { "" }));
                let when = format!("after round {round} (S = source commits, C = checkpoint store commits, f = flushed: {})", order.join(" "));
                verify(&src, &m_src, nkeys, "source", &when).await.map_err(|e| format!("{what}: {e}"))?;
                verify(&other, &m_other, nkeys, "store opened on the checkpoint", &when).await.map_err(|e| format!("{what}: {e}"))?;
                let now = dir_digest(&ck_a);
                if now != digest_a {
                    let changed: Vec<String> = now.iter().filter(|x| !digest_a.contains(x)).map(|x| format!("{} now {} bytes", x.0, x.1)).chain(digest_a.iter().filter(|x| !now.iter().any(|y| y.0 == x.0)).map(|x| format!("{} gone", x.0))).take(4).collect();
                    return Err(format!("{what}: files of a checkpoint directory changed while the source went on ({when}): {}", changed.join(", ")));
                }
            }
            close(other).await;
            let other = cfg.open(&ck_b).map_err(|e| format!("{what}: reopen of the store on the checkpoint: {e}"))?;
            verify(&other, &m_other, nkeys, "store opened on the checkpoint", "after its close and reopen").await.map_err(|e| format!("{what}: {e}"))?;
            close(other).await;
            src.restore_from_checkpoint(&ck_a).map_err(|e| format!("restore: {e}"))?;
            let mut m_src = m_ck.clone();
            verify(&src, &m_src, nkeys, "source", "after restoring the untouched checkpoint").await.map_err(|e| format!("{what}: {e}"))?;
            let kv = write(&mut r, "after-restore", &mut m_src);
            let refs: Vec<(&[u8], &[u8])> = kv.iter().map(|(k, v)| (&k[..], &v[..])).collect();
            put(&src, &refs).await?;
            src.verif_flush().map_err(|e| e.to_string())?;
            close(src).await;
            let src = cfg.open(&d.join("src")).map_err(|e| format!("{what}: reopen of the source after restore: {e}"))?;
            verify(&src, &m_src, nkeys, "source", "after restore, one more commit, close and reopen").await.map_err(|e| format!("{what}: {e}"))?;
            close(src).await;
            let _ = std::fs::remove_dir_all(&d);
        }
        Ok(())
    })
}

/// A second checkpoint into a directory that already holds one (a "latest" backup directory).
fn c14_checkpoint_into_existing_directory(dir: PathBuf) -> ScenFut<'static> {
    Box::pin(async move {
        for vlog in [false, true] {
            let d = dir.join(if vlog { "vlog" } else { "plain" });
            let cfg = Cfg { cache: 0, vlog, vlog_threshold: 64, level_count: 3, l0_max_files: 4, max_bytes_for_level: 1 << 20, ..base_cfg() };
            let t = cfg.open(&d.join("src")).map_err(|e| e.to_string())?;
            let ck = d.join("latest");
            let big = vec![b'x'; 300];
            put(&t, &[(b"a", b"1"), (b"big", &big[..])]).await?;
            t.create_checkpoint(&ck).map_err(|e| format!("first create_checkpoint: {e}"))?;
            put(&t, &[(b"b", b"2")]).await?;
            let second = t.create_checkpoint(&ck).map_err(|e| e.to_string());
            let what = format!("value log {}: {{a, big}} committed, checkpoint into `latest`, {{b}} committed, second checkpoint into the same directory ({})", if vlog { "on" } else { "off" }, match &second { Ok(_) => "returned Ok".to_string(), Err(e) => format!("refused: {e}") });
            // the source is intact whatever the second call answered
            let expect = |a: Option<Vec<u8>>, bg: Option<Vec<u8>>, b: Option<Vec<u8>>, who: &str, want_b: bool| -> Result<(), String> {
                if a.as_deref() != Some(&b"1"[..]) || bg.as_deref() != Some(&big[..]) || (b.as_deref() == Some(&b"2"[..])) != want_b {
                    return Err(format!("{what}; {who}: a = {:?}, big intact: {}, b present: {} (expected a = 1, big intact, b {})", a.map(|v| String::from_utf8_lossy(&v).to_string()), bg.as_deref() == Some(&big[..]), b.is_some(), if want_b { "present" } else { "absent" }));
                }
                Ok(())
            };
            let r = (fresh_get(&t, b"a").await, fresh_get(&t, b"big").await, fresh_get(&t, b"b").await);
            close(t).await;
            match r {
                (Ok(a), Ok(bg), Ok(b)) => expect(a, bg, b, "source right afterwards", true)?,
                (a, bg, b) => return Err(format!("{what}; reads of the source fail: {:?} {:?} {:?}", a.err(), bg.err(), b.err())),
            }
            let t = cfg.open(&d.join("src")).map_err(|e| format!("{what}; the source does not reopen: {e}"))?;
            let r = (fresh_get(&t, b"a").await, fresh_get(&t, b"big").await, fresh_get(&t, b"b").await);
            close(t).await;
            match r {
                (Ok(a), Ok(bg), Ok(b)) => expect(a, bg, b, "source after reopen", true)?,
                (a, bg, b) => return Err(format!("{what}; reads of the reopened source fail: {:?} {:?} {:?}", a.err(), bg.err(), b.err())),
            }
            // the directory holds a checkpoint: the second one if the call succeeded, else the first
            let t = cfg.open(&ck).map_err(|e| format!("{what}; the checkpoint directory does not open as a database: {e}"))?;
            let r = (fresh_get(&t, b"a").await, fresh_get(&t, b"big").await, fresh_get(&t, b"b").await);
            close(t).await;
            match r {
                (Ok(a), Ok(bg), Ok(b)) => expect(a, bg, b, "checkpoint directory opened as a database", second.is_ok())?,
                (a, bg, b) => return Err(format!("{what}; reads of the opened checkpoint fail: {:?} {:?} {:?}", a.err(), bg.err(), b.err())),
            }
        }
        Ok(())
    })
}

/// A compaction round completes while create_checkpoint sits between copying the tables and
/// copying the manifest (no commit is in flight).
fn c14_checkpoint_vs_compaction(dir: PathBuf) -> ScenFut<'static> {
    Box::pin(async move {
        let res = std::thread::spawn(move || -> Result<(), String> {
            let rt = tokio::runtime::Builder::new_multi_thread().worker_threads(4).enable_all().build().map_err(|e| e.to_string())?;
            rt.block_on(async move {
                for vlog in [false, true] {
                    let d = dir.join(if vlog { "vlog" } else { "plain" });
                    let cfg = Cfg { cache: 0, vlog, vlog_threshold: 16, vlog_max_file: 512, level_count: 3, l0_max_files: 2, max_bytes_for_level: 1 << 20, ..base_cfg() };
                    let t = std::sync::Arc::new(cfg.open(&d.join("src")).map_err(|e| e.to_string())?);
                    let mut expect = std::collections::BTreeMap::new();
                    for round in 0..3u8 {
                        for i in 0..8u8 {
                            let k = format!("k{i}").into_bytes();
                            let v = format!("round{round}-key{i}-{}", "x".repeat(60)).into_bytes();
                            put(&t, &[(&k[..], &v[..])]).await?;
                            expect.insert(k, v);
                        }
                        t.verif_flush().map_err(|e| e.to_string())?;
                    }
                    let ck = d.join("ck");
                    let ctl = crate::e3::ctl();
                    ctl.reset();
                    let gate = ctl.arm_gate("checkpoint.after_tables");
                    let (tc, ckc) = (t.clone(), ck.clone());
                    let h = tokio::runtime::Handle::current();
                    let cp = std::thread::spawn(move || {
                        let _g = h.enter();
                        tc.create_checkpoint(&ckc).map(|_| ()).map_err(|e| e.to_string())
                    });
                    if !gate.wait_parked(5000) {
                        gate.release();
                        let _ = cp.join();
                        ctl.reset();
                        return Err("harness: create_checkpoint did not reach checkpoint.after_tables".into());
                    }
                    // compaction rounds run to completion in the meantime (issued from a helper: a
                    // checkpoint holding a lock they need would make them wait, which is fine too)
                    let tcomp = t.clone();
                    let h2 = tokio::runtime::Handle::current();
                    let comp = std::thread::spawn(move || {
                        let _g = h2.enter();
                        let mut n = 0;
                        for _ in 0..3 {
                            if let Ok(true) = tcomp.verif_compact_once() {
                                n += 1;
                            }
                        }
                        n
                    });
                    std::thread::sleep(std::time::Duration::from_millis(150));
                    gate.release();
                    let cres = cp.join().map_err(|_| "checkpoint thread panicked".to_string())?;
                    let rounds = comp.join().map_err(|_| "compaction thread panicked".to_string())?;
                    ctl.reset();
                    cres.map_err(|e| format!("create_checkpoint failed: {e}"))?;
                    let what = format!("value log {}: three flushed rounds of 8 keys; create_checkpoint paused between copying the tables and copying the manifest while {} compaction round(s) ran; no commit in flight", if vlog { "on" } else { "off" }, rounds);
                    let o = match cfg.open(&ck) {
                        Ok(o) => o,
                        Err(e) => return Err(format!("{what}: the checkpoint directory does not open as a database: {e}")),
                    };
                    for (k, v) in &expect {
                        match fresh_get(&o, k).await {
                            Ok(Some(g)) if &g == v => {}
                            other => {
                                close(o).await;
                                return Err(format!("{what}: in the opened checkpoint get({}) = {:?}, committed before the checkpoint: {} bytes", String::from_utf8_lossy(k), other.map(|v| v.map(|v| v.len())), v.len()));
                            }
                        }
                    }
                    close(o).await;
                    if let Ok(t) = std::sync::Arc::try_unwrap(t) {
                        close(t).await;
                    }
                }
                Ok(())
            })
        })
        .join()
        .map_err(|_| "scenario thread panicked".to_string())?;
        res
    })
}

/// restore_from_checkpoint runs while a commit is between its commit-log write and its apply.
fn c14_restore_with_commit_in_flight(dir: PathBuf) -> ScenFut<'static> {
    Box::pin(async move {
        let res = std::thread::spawn(move || -> Result<(), String> {
            let rt = tokio::runtime::Builder::new_multi_thread().worker_threads(4).enable_all().build().map_err(|e| e.to_string())?;
            rt.block_on(async move {
                let cfg = base_cfg();
                let t = std::sync::Arc::new(cfg.open(&dir.join("src")).map_err(|e| e.to_string())?);
                let ck = dir.join("ck");
                for i in 0..4u8 {
                    put(&t, &[(format!("pre{i}").as_bytes(), b"v")]).await?;
                }
                t.create_checkpoint(&ck).map_err(|e| e.to_string())?;
                for i in 0..6u8 {
                    put(&t, &[(format!("later{i}").as_bytes(), b"v")]).await?;
                }
                let ctl = crate::e3::ctl();
                ctl.reset();
                let gate = ctl.arm_gate("commit.after_wal");
                let tc = t.clone();
                let h = tokio::runtime::Handle::current();
                let committer = std::thread::spawn(move || h.block_on(async move { put(&tc, &[(b"ghost", b"from-the-discarded-timeline")]).await }));
                if !gate.wait_parked(5000) {
                    gate.release();
                    let _ = committer.join();
                    ctl.reset();
                    return Err("harness: the commit did not reach commit.after_wal".into());
                }
                // the restore may wait for the commit in flight or not: issue it from a helper
                let (tr, ckr) = (t.clone(), ck.clone());
                let h2 = tokio::runtime::Handle::current();
                let restorer = std::thread::spawn(move || {
                    let _g = h2.enter();
                    tr.restore_from_checkpoint(&ckr).map(|_| ()).map_err(|e| e.to_string())
                });
                std::thread::sleep(std::time::Duration::from_millis(200));
                gate.release();
                let rc = committer.join().map_err(|_| "committer panicked".to_string())?;
                restorer.join().map_err(|_| "restore thread panicked".to_string())?.map_err(|e| format!("restore failed: {e}"))?;
                ctl.reset();
                let ghost = get1(&t, b"ghost")?;
                let later = get1(&t, b"later0")?;
                // two overlapping writers of one key on the restored store
                let mut a = t.begin().map_err(|e| e.to_string())?;
                let mut b = t.begin().map_err(|e| e.to_string())?;
                a.set(&b"k"[..], &b"a"[..]).map_err(|e| e.to_string())?;
                b.set(&b"k"[..], &b"b"[..]).map_err(|e| e.to_string())?;
                let ra = a.commit().await;
                let rb = b.commit().await;
                drop(a);
                drop(b);
                let fresh = get1(&t, b"k")?;
                if let Ok(t) = std::sync::Arc::try_unwrap(t) {
                    close(t).await;
                }
                let what = format!("checkpoint; 6 more commits; a commit of `ghost` is held between its commit-log write and its apply while restore_from_checkpoint runs (the commit then returns {})", match &rc { Ok(()) => "Ok".to_string(), Err(e) => format!("an error: {e}") });
                if ghost.is_some() || later.is_some() {
                    return Err(format!("{what}: after the restore, ghost present: {}, later0 present: {} - the restored state holds writes made after the checkpoint", ghost.is_some(), later.is_some()));
                }
                if ra.is_ok() && rb.is_ok() {
                    return Err(format!("{what}: afterwards two transactions that overlap and both write k both commit (k = {:?}): the visible sequence number was raised above the rewound commit counter, so new horizons lie above every new conflict stamp", fresh.map(|v| String::from_utf8_lossy(&v).to_string())));
                }
                Ok(())
            })
        })
        .join()
        .map_err(|_| "scenario thread panicked".to_string())?;
        res
    })
}

/// create_checkpoint flushes the immutable memtable itself while the flush task flushes the
/// same memtable.
fn c02_checkpoint_flush_vs_task_flush(dir: PathBuf) -> ScenFut<'static> {
    Box::pin(async move {
        let res = std::thread::spawn(move || -> Result<(), String> {
            let rt = tokio::runtime::Builder::new_multi_thread().worker_threads(4).enable_all().build().map_err(|e| e.to_string())?;
            rt.block_on(async move {
                let cfg = Cfg { level_count: 3, l0_max_files: 2, max_bytes_for_level: 1 << 20, ..base_cfg() };
                let store = dir.join("store");
                let t = std::sync::Arc::new(cfg.open(&store).map_err(|e| e.to_string())?);
                put(&t, &[(b"k", b"v1"), (b"other", b"x")]).await?;
                t.verif_rotate().map_err(|e| e.to_string())?;
                let ctl = crate::e3::ctl();
                ctl.reset();
                let gate = ctl.arm_gate("flush.after_sst");
                let (tc, ck) = (t.clone(), dir.join("ck"));
                let h = tokio::runtime::Handle::current();
                let cp = std::thread::spawn(move || {
                    let _g = h.enter();
                    tc.create_checkpoint(&ck).map(|_| ()).map_err(|e| e.to_string())
                });
                if !gate.wait_parked(5000) {
                    gate.release();
                    let _ = cp.join();
                    ctl.reset();
                    return Err("harness: the checkpoint's flush did not reach flush.after_sst".into());
                }
                // what the flush task and ordinary life do meanwhile (they may have to wait)
                let th = t.clone();
                let h2 = tokio::runtime::Handle::current();
                let life = std::thread::spawn(move || -> Result<(), String> {
                    h2.block_on(async {
                        let _ = th.verif_flush_one();
                        put(&th, &[(b"k", b"v2")]).await?;
                        th.verif_rotate().map_err(|e| e.to_string())?;
                        let _ = th.verif_flush_one();
                        let _ = th.verif_compact_once();
                        Ok(())
                    })
                });
                std::thread::sleep(std::time::Duration::from_millis(400));
                gate.release();
                let rcp = cp.join().map_err(|_| "checkpoint thread panicked".to_string())?;
                life.join().map_err(|_| "helper panicked".to_string())??;
                ctl.reset();
                let live = get1(&t, b"k");
                let layout = t.verif_layout().map_err(|e| e.to_string())?;
                let mut ids: Vec<u64> = layout.tables.iter().map(|x| x.id).collect();
                ids.sort_unstable();
                let dup = ids.windows(2).any(|w| w[0] == w[1]);
                let img = dir.join("img");
                crate::props::c12::copy_dir(&store, &img).map_err(|e| e.to_string())?;
                let _ = std::fs::remove_file(img.join("LOCK"));
                if let Ok(t) = std::sync::Arc::try_unwrap(t) {
                    close(t).await;
                }
                let what = format!("k = v1 committed, memtable rotated; create_checkpoint flushes it and is held after writing the table file while the flush task's entry point flushes the same memtable, then k = v2 is committed, flushed and level 0 compacted; the checkpoint's flush resumes (create_checkpoint returned {:?})", rcp);
                match live {
                    Ok(Some(v)) if v == b"v2" => {}
                    other => return Err(format!("{what}: the running store reads k = {:?} instead of v2", other.map(|v| v.map(|v| String::from_utf8_lossy(&v).to_string())))),
                }
                if dup {
                    return Err(format!("{what}: a table id is installed twice: {ids:?}"));
                }
                match cfg.open(&img) {
                    Err(e) => Err(format!("{what}: the directory as it is now (process crash) does not open: {e}")),
                    Ok(t2) => {
                        let v = get1(&t2, b"k");
                        close(t2).await;
                        match v {
                            Ok(Some(v)) if v == b"v2" => Ok(()),
                            other => Err(format!("{what}: after a process crash k = {:?}", other.map(|v| v.map(|v| String::from_utf8_lossy(&v).to_string())))),
                        }
                    }
                }
            })
        })
        .join()
        .map_err(|_| "scenario thread panicked".to_string())?;
        res
    })
}

/// restore_from_checkpoint while a flush of the timeline it discards has written its table
/// file and not yet installed it.
fn c14_restore_during_flush(dir: PathBuf) -> ScenFut<'static> {
    Box::pin(async move {
        let res = std::thread::spawn(move || -> Result<(), String> {
            let rt = tokio::runtime::Builder::new_multi_thread().worker_threads(4).enable_all().build().map_err(|e| e.to_string())?;
            rt.block_on(async move {
                let cfg = base_cfg();
                let store = dir.join("store");
                let t = std::sync::Arc::new(cfg.open(&store).map_err(|e| e.to_string())?);
                for i in 0..10u8 {
                    put(&t, &[(format!("base{i}").as_bytes(), b"old")]).await?;
                }
                let ck = dir.join("ck");
                t.create_checkpoint(&ck).map_err(|e| e.to_string())?;
                put(&t, &[(b"late", b"from-the-discarded-timeline"), (b"base0", b"overwritten-after-checkpoint")]).await?;
                t.verif_rotate().map_err(|e| e.to_string())?;
                let ctl = crate::e3::ctl();
                ctl.reset();
                let gate = ctl.arm_gate("flush.after_sst");
                let tf = t.clone();
                let h = tokio::runtime::Handle::current();
                let flusher = std::thread::spawn(move || {
                    let _g = h.enter();
                    tf.verif_flush_one().map(|_| ()).map_err(|e| e.to_string())
                });
                if !gate.wait_parked(5000) {
                    gate.release();
                    let _ = flusher.join();
                    ctl.reset();
                    return Err("harness: the flush did not reach flush.after_sst".into());
                }
                let (tr, ckr) = (t.clone(), ck.clone());
                let h2 = tokio::runtime::Handle::current();
                let restorer = std::thread::spawn(move || {
                    let _g = h2.enter();
                    tr.restore_from_checkpoint(&ckr).map(|_| ()).map_err(|e| e.to_string())
                });
                std::thread::sleep(std::time::Duration::from_millis(400));
                gate.release();
                let _ = flusher.join();
                restorer.join().map_err(|_| "restore thread panicked".to_string())?.map_err(|e| format!("restore failed: {e}"))?;
                ctl.reset();
                for i in 0..3u8 {
                    put(&t, &[(format!("new{i}").as_bytes(), b"n")]).await?;
                }
                let late = get1(&t, b"late")?;
                let base0 = get1(&t, b"base0")?;
                if let Ok(t) = std::sync::Arc::try_unwrap(t) {
                    close(t).await;
                }
                let what = "checkpoint; `late` committed and base0 overwritten; the memtable is rotated and its flush has written the table file, not yet installed it; restore_from_checkpoint; the flush resumes; three new commits";
                if late.is_some() || base0.as_deref() != Some(&b"old"[..]) {
                    return Err(format!("{what}: late present: {}, base0 = {:?} (the flush of the discarded timeline installed its table into the restored manifest)", late.is_some(), base0.map(|v| String::from_utf8_lossy(&v).to_string())));
                }
                let t2 = cfg.open(&store).map_err(|e| format!("{what}: the store does not reopen: {e}"))?;
                let ok = get1(&t2, b"new2")?.is_some() && get1(&t2, b"late")?.is_none();
                close(t2).await;
                if !ok {
                    return Err(format!("{what}: after close and reopen the state is not the checkpoint plus the new commits"));
                }
                Ok(())
            })
        })
        .join()
        .map_err(|_| "scenario thread panicked".to_string())?;
        res
    })
}

/// The commit-log clean-up that a flush schedules runs after a restore to an older checkpoint.
fn c14_wal_cleanup_after_restore(dir: PathBuf) -> ScenFut<'static> {
    Box::pin(async move {
        // the scenario's own runtime is a current-thread one: the clean-up task queued by the
        // second checkpoint's flush runs at the next suspension point - after the restore
        surrealkv::verif::set_manual_background(false);
        let r: Result<(), String> = async {
            let cfg = base_cfg();
            let store = dir.join("store");
            let t = cfg.open(&store).map_err(|e| e.to_string())?;
            let (ck_a, ck_b) = (dir.join("ckA"), dir.join("ckB"));
            put(&t, &[(b"a", b"1")]).await?;
            t.create_checkpoint(&ck_a).map_err(|e| e.to_string())?;
            tokio::task::yield_now().await;
            tokio::time::sleep(std::time::Duration::from_millis(20)).await;
            put(&t, &[(b"b", b"2")]).await?;
            t.create_checkpoint(&ck_b).map_err(|e| e.to_string())?;
            t.restore_from_checkpoint(&ck_a).map_err(|e| format!("restore: {e}"))?;
            let durable = |k: &'static [u8]| {
                let t = &t;
                async move {
                    let mut tx = t.begin().map_err(|e| e.to_string())?;
                    tx.set_durability(surrealkv::Durability::Immediate);
                    tx.set(k, &b"after-restore"[..]).map_err(|e| e.to_string())?;
                    tx.commit().await.map_err(|e| e.to_string())
                }
            };
            durable(b"c").await?;
            tokio::time::sleep(std::time::Duration::from_millis(40)).await;
            durable(b"d").await?;
            let img = dir.join("img");
            crate::props::c12::copy_dir(&store, &img).map_err(|e| e.to_string())?;
            let _ = std::fs::remove_file(img.join("LOCK"));
            close(t).await;
            let t2 = cfg.open(&img).map_err(|e| format!("crash image does not open: {e}"))?;
            let (a, b, c, d) = (get1(&t2, b"a")?, get1(&t2, b"b")?, get1(&t2, b"c")?, get1(&t2, b"d")?);
            close(t2).await;
            if a.is_none() || b.is_some() || c.is_none() || d.is_none() {
                return Err(format!(
                    "commit a; checkpoint A; commit b; checkpoint B (its flush schedules the removal of released commit-log segments); restore A at once; c and d committed with immediate durability; process crash: a present: {}, b present: {}, c present: {}, d present: {} - the clean-up task ran after the restore and removed the segment the restored store writes to",
                    a.is_some(), b.is_some(), c.is_some(), d.is_some()
                ));
            }
            Ok(())
        }
        .await;
        surrealkv::verif::set_manual_background(true);
        r
    })
}

/// A checkpoint directory that has been opened as a database once (which leaves a commit-log
/// segment in it) is restored; the source then commits.
fn c14_restore_shares_wal_with_checkpoint(dir: PathBuf) -> ScenFut<'static> {
    Box::pin(async move {
        let cfg = base_cfg();
        let t = cfg.open(&dir.join("src")).map_err(|e| e.to_string())?;
        let ck = dir.join("ck");
        put(&t, &[(b"a", b"1")]).await?;
        t.create_checkpoint(&ck).map_err(|e| e.to_string())?;
        {
            let o = cfg.open(&ck).map_err(|e| format!("checkpoint does not open: {e}"))?;
            let _ = get1(&o, b"a")?;
            close(o).await;
        }
        let before = dir_digest(&ck);
        put(&t, &[(b"b", b"2")]).await?;
        t.restore_from_checkpoint(&ck).map_err(|e| format!("restore: {e}"))?;
        put(&t, &[(b"c", b"3")]).await?;
        t.flush_wal(true).map_err(|e| e.to_string())?;
        let after = dir_digest(&ck);
        let copy = dir.join("ck-copy");
        crate::props::c12::copy_dir(&ck, &copy).map_err(|e| e.to_string())?;
        let _ = std::fs::remove_file(copy.join("LOCK"));
        let o = cfg.open(&copy).map_err(|e| format!("copy of the checkpoint does not open: {e}"))?;
        let c_in_ck = get1(&o, b"c")?;
        close(o).await;
        close(t).await;
        if after != before || c_in_ck.is_some() {
            let changed: Vec<String> = after.iter().filter(|x| !before.contains(x)).map(|x| format!("{} now {} bytes", x.0, x.1)).take(3).collect();
            return Err(format!("commit a; checkpoint; the checkpoint directory opened as a database, read, closed; commit b; restore from the checkpoint; commit c in the restored store: files of the checkpoint directory changed ({}), and the checkpoint opened as a database now holds c: {}", changed.join(", "), c_in_ck.is_some()));
        }
        Ok(())
    })
}

/// A second checkpoint into a directory whose first checkpoint has been opened as a database
/// once (which leaves a commit-log segment there), after the store moved on by several flushes.
fn c14_checkpoint_into_opened_directory(dir: PathBuf) -> ScenFut<'static> {
    Box::pin(async move {
        let cfg = Cfg { level_count: 3, l0_max_files: 8, max_bytes_for_level: 1 << 20, ..base_cfg() };
        let t = cfg.open(&dir.join("src")).map_err(|e| e.to_string())?;
        let ck = dir.join("latest");
        put(&t, &[(b"a", b"1")]).await?;
        t.create_checkpoint(&ck).map_err(|e| e.to_string())?;
        {
            let o = cfg.open(&ck).map_err(|e| format!("first checkpoint does not open: {e}"))?;
            let _ = get1(&o, b"a")?;
            close(o).await;
        }
        for i in 0..4u8 {
            put(&t, &[(format!("b{i}").as_bytes(), b"2")]).await?;
            t.verif_flush().map_err(|e| e.to_string())?;
        }
        let second = t.create_checkpoint(&ck).map_err(|e| e.to_string());
        let what = format!("commit a; checkpoint into `latest`; `latest` opened as a database, read, closed; four more commits, each flushed; second checkpoint into `latest` ({})", match &second { Ok(_) => "returned Ok".to_string(), Err(e) => format!("refused: {e}") });
        let copy = dir.join("copy");
        crate::props::c12::copy_dir(&ck, &copy).map_err(|e| e.to_string())?;
        let _ = std::fs::remove_file(copy.join("LOCK"));
        let opened = cfg.open(&copy);
        let r = match opened {
            Err(e) => Err(format!("{what}: the directory does not open as a database: {e}")),
            Ok(o) => {
                let (a, b3) = (get1(&o, b"a")?, get1(&o, b"b3")?);
                close(o).await;
                if a.is_none() || (second.is_ok() && b3.is_none()) {
                    Err(format!("{what}: opened as a database: a present: {}, b3 present: {}", a.is_some(), b3.is_some()))
                } else {
                    Ok(())
                }
            }
        };
        close(t).await;
        r
    })
}

/// A range cursor opened before a restore is read to its end after it; the new timeline then
/// writes a table that reuses the id of one the cursor read.
fn c14_cursor_across_restore_refills_cache(dir: PathBuf) -> ScenFut<'static> {
    Box::pin(async move {
        let cfg = Cfg { cache: 1 << 20, max_memtable_size: 4 << 20, level_count: 3, l0_max_files: 8, max_bytes_for_level: 1 << 22, ..base_cfg() };
        let t = cfg.open(&dir.join("src")).map_err(|e| e.to_string())?;
        let ck = dir.join("ck");
        put(&t, &[(b"a", b"1")]).await?;
        t.create_checkpoint(&ck).map_err(|e| e.to_string())?;
        let n = 120u32;
        let write = |tag: &'static str| {
            let t = &t;
            async move {
                for chunk in (1..=n).collect::<Vec<_>>().chunks(40) {
                    let mut tx = t.begin_with_mode(Mode::WriteOnly).map_err(|e| e.to_string())?;
                    for i in chunk {
                        tx.set(format!("k{i:04}").as_bytes(), format!("{tag}-{i:04}-{}", "x".repeat(100)).as_bytes()).map_err(|e| e.to_string())?;
                    }
                    tx.commit().await.map_err(|e| e.to_string())?;
                }
                t.verif_flush().map_err(|e| e.to_string())
            }
        };
        write("discarded").await?;
        let old = t.begin_with_mode(Mode::ReadOnly).map_err(|e| e.to_string())?;
        let mut cursor = old.range(&b"k"[..], &b"l"[..]).map_err(|e| e.to_string())?;
        t.restore_from_checkpoint(&ck).map_err(|e| format!("restore: {e}"))?;
        let drained = collect_fwd(&mut cursor).map(|v| v.len());
        drop(cursor);
        drop(old);
        write("restored-").await?;
        let tx = t.begin_with_mode(Mode::ReadOnly).map_err(|e| e.to_string())?;
        let mut it = tx.range(&b"k"[..], &b"l"[..]).map_err(|e| e.to_string())?;
        let mut wrong = 0;
        let mut first = None;
        let mut ok = it.seek_first().map_err(|e| e.to_string())?;
        while ok {
            let v = it.value().map_err(|e| e.to_string())?;
            if !v.starts_with(b"restored-") {
                wrong += 1;
                first.get_or_insert(String::from_utf8_lossy(&v[..v.len().min(16)]).to_string());
            }
            ok = it.next().map_err(|e| e.to_string())?;
        }
        drop(it);
        drop(tx);
        close(t).await;
        if wrong > 0 {
            return Err(format!("checkpoint; 120 keys written as `discarded-…` and flushed; a range cursor is opened; restore; the cursor is read to its end afterwards ({:?} keys); the same keys written as `restored-…` and flushed (the table reuses the id of the discarded one); a scan in a new transaction returns a discarded value for {wrong} of 120 keys (first: {:?}) - blocks the old cursor read after the restore went into the cache under the reused table id", drained, first));
        }
        Ok(())
    })
}

fn c14_version_index_not_restored(dir: PathBuf) -> ScenFut<'static> {
    Box::pin(async move {
        let cfg = ver_cfg(true);
        let t = cfg.open(&dir).map_err(|e| e.to_string())?;
        let ck = dir.with_extension("ckpt");
        let _ = std::fs::remove_dir_all(&ck);
        set_at(&t, b"k", b"v1", 10).await?;
        t.create_checkpoint(&ck).map_err(|e| e.to_string())?;
        set_at(&t, b"k", b"discarded", 20).await?;
        t.verif_flush().map_err(|e| e.to_string())?; // the version index learns about the discarded version
        t.restore_from_checkpoint(&ck).map_err(|e| e.to_string())?;
        // the discarded version carried sequence number 2; let the new timeline reach it
        set_at(&t, b"other", b"o", 30).await?;
        set_at(&t, b"other2", b"o", 31).await?;
        let g = get_at(&t, b"k", 25).await?;
        let hist = hist_list(&t, b"a", b"z", false, true, None)?;
        close(t).await;
        let _ = std::fs::remove_dir_all(&ck);
        let hist: Vec<_> = hist.into_iter().filter(|(k, _)| k == b"k").collect();
        if g.as_deref() != Some(&b"v1"[..]) || hist.len() != 1 {
            return Err(format!(
                "version index on: after restore to a checkpoint taken before `k@20`, get_at(k, 25) = {:?} and history lists timestamps {:?} (the version index is neither checkpointed nor rewound)",
                g.map(|v| String::from_utf8_lossy(&v).to_string()),
                hist.iter().map(|(_, ts)| *ts).collect::<Vec<_>>()
            ));
        }
        Ok(())
    })
}

fn c01_begin_races_compaction(dir: PathBuf) -> ScenFut<'static> {
    Box::pin(async move {
        // needs real threads: run on a helper multi-thread runtime
        let res = std::thread::spawn(move || -> Result<(), String> {
            let rt = tokio::runtime::Builder::new_multi_thread().worker_threads(4).enable_all().build().map_err(|e| e.to_string())?;
            rt.block_on(async move {
                let t = std::sync::Arc::new(c01_cfg().open(&dir).map_err(|e| e.to_string())?);
                put(&t, &[(b"k", b"v1")]).await?;
                t.verif_flush().map_err(|e| e.to_string())?;
                let ctl = crate::e3::ctl();
                ctl.reset();
                let gate = ctl.arm_gate("txn.begin.after_load");
                // the reader loads its horizon, then is held before it registers its snapshot
                let t2 = t.clone();
                let reader = std::thread::spawn(move || -> Result<(u64, Option<Vec<u8>>), String> {
                    let tx = t2.begin_with_mode(Mode::ReadOnly).map_err(|e| e.to_string())?;
                    let h = tx.verif_start_seq();
                    let v = tx.get(&b"k"[..]).map_err(|e| e.to_string())?;
                    Ok((h, v))
                });
                if !gate.wait_parked(5000) {
                    gate.release();
                    let _ = reader.join();
                    return Err("harness: the reader never reached txn.begin.after_load".into());
                }
                // meanwhile: overwrite, flush, compact (no snapshot is registered yet)
                put(&t, &[(b"k", b"v2")]).await?;
                let seq_v2 = t.verif_visible_seq();
                t.verif_flush().map_err(|e| e.to_string())?;
                compact_all(&t).await?;
                gate.release();
                let (h, got) = reader.join().map_err(|_| "reader thread panicked".to_string())??;
                ctl.reset();
                match std::sync::Arc::try_unwrap(t) {
                    Ok(t) => close(t).await,
                    Err(_) => {}
                }
                let exp: &[u8] = if h >= seq_v2 { b"v2" } else { b"v1" };
                if got.as_deref() == Some(exp) {
                    Ok(())
                } else {
                    Err(format!(
                        "begin loaded horizon {} and was held before registering its snapshot while k was overwritten (seq {}), flushed and compacted: get(k) = {:?}, the state at its horizon is {:?}",
                        h,
                        seq_v2,
                        got.map(|v| String::from_utf8_lossy(&v).to_string()),
                        String::from_utf8_lossy(exp)
                    ))
                }
            })
        })
        .join()
        .map_err(|_| "scenario thread panicked".to_string())?;
        res
    })
}

/// A commit is applied but not yet published (it waits behind an earlier commit that is still
/// between its commit-log write and its apply) when the memtable is flushed and compacted.
fn c05_compaction_of_unpublished_commit(dir: PathBuf) -> ScenFut<'static> {
    Box::pin(async move {
        let res = std::thread::spawn(move || -> Result<(), String> {
            let rt = tokio::runtime::Builder::new_multi_thread().worker_threads(4).enable_all().build().map_err(|e| e.to_string())?;
            rt.block_on(async move {
                let cfg = Cfg { level_count: 2, l0_max_files: 1, max_bytes_for_level: 1 << 20, ..base_cfg() };
                let t = std::sync::Arc::new(cfg.open(&dir).map_err(|e| e.to_string())?);
                put(&t, &[(b"k", b"v1")]).await?; // acknowledged: every later transaction sees it
                let ctl = crate::e3::ctl();
                ctl.reset();
                let gate = ctl.arm_gate("commit.after_wal");
                let wo = |t: std::sync::Arc<Tree>, k: &'static [u8], v: &'static [u8]| async move {
                    let mut tx = t.begin_with_mode(Mode::WriteOnly).map_err(|e| e.to_string())?;
                    tx.set(k, v).map_err(|e| e.to_string())?;
                    tx.commit().await.map_err(|e| e.to_string())
                };
                let (t1, h1) = (t.clone(), tokio::runtime::Handle::current());
                let early = std::thread::spawn(move || h1.block_on(wo(t1, b"e", b"x")));
                if !gate.wait_parked(5000) {
                    gate.release();
                    let _ = early.join();
                    ctl.reset();
                    return Err("harness: no commit reached commit.after_wal".into());
                }
                // a later commit of k: logged and applied, but published only after the early one
                let (t2, h2) = (t.clone(), tokio::runtime::Handle::current());
                let later = std::thread::spawn(move || h2.block_on(wo(t2, b"k", b"v2")));
                let mut applied = false;
                for _ in 0..500 {
                    if t.verif_dump_key(b"k").map(|v| v.len() >= 2).unwrap_or(false) {
                        applied = true;
                        break;
                    }
                    std::thread::sleep(std::time::Duration::from_millis(4));
                }
                let horizon = t.verif_visible_seq();
                let flushed = t.verif_flush().map_err(|e| e.to_string());
                let compacted = t.verif_compact_once().map_err(|e| e.to_string());
                let r = t.begin_with_mode(Mode::ReadOnly).map_err(|e| e.to_string())?;
                let got = r.get(&b"k"[..]).map_err(|e| e.to_string());
                let rh = r.verif_start_seq();
                drop(r);
                gate.release();
                let re = early.join().map_err(|_| "committer panicked".to_string())?;
                let rl = later.join().map_err(|_| "committer panicked".to_string())?;
                ctl.reset();
                let fin = get1(&t, b"k")?;
                if let Ok(t) = std::sync::Arc::try_unwrap(t) {
                    close(t).await;
                }
                if !applied {
                    return Err("harness: the later commit was not applied while the early one was held".into());
                }
                flushed?;
                let compacted = compacted?;
                re?;
                rl?;
                let got = got?;
                if got.as_deref() != Some(&b"v1"[..]) {
                    return Err(format!(
                        "k = v1 is committed and acknowledged; a commit of another key is held between its commit-log write and its apply; a later commit k = v2 is applied but cannot be published (visible sequence number still {horizon}); the memtable is flushed and one compaction round runs ({}); a transaction begun now (horizon {rh}) reads k = {:?} instead of v1 (after the held commit was released: k = {:?})",
                        if compacted { "it merged the table" } else { "nothing to do" },
                        got.map(|v| String::from_utf8_lossy(&v).to_string()),
                        fin.map(|v| String::from_utf8_lossy(&v).to_string())
                    ));
                }
                if fin.as_deref() != Some(&b"v2"[..]) {
                    return Err(format!("after both commits returned k = {:?}, expected v2", fin.map(|v| String::from_utf8_lossy(&v).to_string())));
                }
                Ok(())
            })
        })
        .join()
        .map_err(|_| "scenario thread panicked".to_string())?;
        res
    })
}

fn c05_l0_order_by_largest_seq(dir: PathBuf) -> ScenFut<'static> {
    Box::pin(async move {
        let res = std::thread::spawn(move || -> Result<(), String> {
            let rt = tokio::runtime::Builder::new_multi_thread().worker_threads(4).enable_all().build().map_err(|e| e.to_string())?;
            rt.block_on(async move {
                let cfg = Cfg { level_count: 3, l0_max_files: 8, ..base_cfg() };
                let t = std::sync::Arc::new(cfg.open(&dir).map_err(|e| e.to_string())?);
                put(&t, &[(b"k", b"v1")]).await?;
                let ctl = crate::e3::ctl();
                ctl.reset();
                // B: overwrites k; held after its WAL write, before its memtable apply
                let gate = ctl.arm_gate("commit.after_wal");
                let tb = t.clone();
                let b = tokio::spawn(async move {
                    let mut tx = tb.begin().map_err(|e| e.to_string())?;
                    tx.set(&b"k"[..], &b"v2"[..]).map_err(|e| e.to_string())?;
                    tx.commit().await.map_err(|e| e.to_string())
                });
                let g2 = gate.clone();
                if !tokio::task::spawn_blocking(move || g2.wait_parked(5000)).await.unwrap_or(false) {
                    gate.release();
                    let _ = b.await;
                    return Err("harness: the committer never reached commit.after_wal".into());
                }
                // X: a later commit to another key; its apply finishes first, into the old memtable
                let tx_ = t.clone();
                let x = tokio::spawn(async move {
                    let mut tx = tx_.begin().map_err(|e| e.to_string())?;
                    tx.set(&b"y"[..], &b"w"[..]).map_err(|e| e.to_string())?;
                    tx.commit().await.map_err(|e| e.to_string())
                });
                // wait until X is applied (it stays unpublished behind B)
                let mut applied = false;
                for _ in 0..2000 {
                    if ctl.point_hits.lock().unwrap().get("commit.after_mark_applied").copied().unwrap_or(0) >= 1 {
                        applied = true;
                        break;
                    }
                    tokio::time::sleep(std::time::Duration::from_millis(1)).await;
                }
                if !applied {
                    gate.release();
                    let _ = b.await;
                    let _ = x.await;
                    return Err("harness: the second commit never finished its apply".into());
                }
                t.verif_rotate().map_err(|e| e.to_string())?;
                gate.release();
                b.await.map_err(|e| e.to_string())??;
                x.await.map_err(|e| e.to_string())??;
                ctl.reset();
                let before = get1(&t, b"k")?;
                t.verif_flush().map_err(|e| e.to_string())?;
                let lay = t.verif_layout().map_err(|e| e.to_string())?;
                let after = get1(&t, b"k")?;
                let tables: Vec<String> = lay.tables.iter().map(|x| format!("L{}#{} seqs {:?}..{:?}", x.level, x.id, x.smallest_seq, x.largest_seq)).collect();
                if let Ok(t) = std::sync::Arc::try_unwrap(t) {
                    close(t).await;
                }
                if before.as_deref() != Some(&b"v2"[..]) || after.as_deref() != Some(&b"v2"[..]) {
                    return Err(format!(
                        "k=v1 committed; commit of k=v2 held between WAL and apply while a later commit to another key applied into the old memtable; rotate; k=v2 applied into the new memtable; both acknowledged. get(k) = {:?} before the flush and {:?} after it (tables {:?}); expected v2",
                        before.map(|v| String::from_utf8_lossy(&v).to_string()),
                        after.map(|v| String::from_utf8_lossy(&v).to_string()),
                        tables
                    ));
                }
                Ok(())
            })
        })
        .join()
        .map_err(|_| "scenario thread panicked".to_string())?;
        res
    })
}

fn get1(t: &Tree, k: &[u8]) -> Result<Option<Vec<u8>>, String> {
    let tx = t.begin_with_mode(Mode::ReadOnly).map_err(|e| e.to_string())?;
    tx.get(k).map_err(|e| e.to_string())
}

fn l0_count(t: &Tree) -> Result<(usize, Vec<String>), String> {
    let lay = t.verif_layout().map_err(|e| e.to_string())?;
    let mut per = std::collections::BTreeMap::new();
    for x in &lay.tables {
        let e = per.entry(x.level).or_insert((0usize, 0u64));
        e.0 += 1;
        e.1 += x.file_size;
    }
    Ok((per.get(&0).map(|e| e.0).unwrap_or(0), per.iter().map(|(l, e)| format!("L{}: {} tables, {} bytes", l, e.0, e.1)).collect()))
}

async fn fill(t: &Tree, tag: &str, n: usize, vlen: usize) -> Result<(), String> {
    let v = vec![0x61u8; vlen];
    let keys: Vec<Vec<u8>> = (0..n).map(|i| format!("{}{:04}", tag, i).into_bytes()).collect();
    let kvs: Vec<(&[u8], &[u8])> = keys.iter().map(|k| (k.as_slice(), v.as_slice())).collect();
    put(t, &kvs).await
}

fn c17_bottom_level_outranks_l0(dir: PathBuf) -> ScenFut<'static> {
    Box::pin(async move {
        // two levels: L1 is the bottom level; make it larger than its target, then add L0 files
        let cfg = Cfg { level_count: 2, l0_max_files: 1, max_bytes_for_level: 2048, l0_stall: 3, ..base_cfg() };
        let t = cfg.open(&dir).map_err(|e| e.to_string())?;
        fill(&t, "a", 60, 200).await?;
        t.verif_flush().map_err(|e| e.to_string())?;
        t.verif_compact_once().map_err(|e| e.to_string())?;
        for i in 0..cfg.l0_stall {
            fill(&t, &format!("b{}", i), 2, 20).await?;
            t.verif_flush().map_err(|e| e.to_string())?;
        }
        let (before, lay_before) = l0_count(&t)?;
        let mut rounds = 0;
        for _ in 0..12 {
            rounds += 1;
            t.verif_compact_once().map_err(|e| e.to_string())?;
            if l0_count(&t)?.0 < cfg.l0_stall {
                break;
            }
        }
        let (after, lay_after) = l0_count(&t)?;
        close(t).await;
        if after >= cfg.l0_stall {
            return Err(format!(
                "2 levels, bottom level over its size target, {} files on L0 (write-stall limit {}): after {} rounds of the production compaction strategy L0 still holds {} files, so a stalled commit() never resumes (before: {:?}; after: {:?})",
                before, cfg.l0_stall, rounds, after, lay_before, lay_after
            ));
        }
        Ok(())
    })
}

fn c17_one_compaction_round_per_wakeup(dir: PathBuf) -> ScenFut<'static> {
    Box::pin(async move {
        // three levels: L1 far over its target (outranks L0), L0 at the write-stall limit
        let cfg = Cfg { level_count: 3, l0_max_files: 2, max_bytes_for_level: 512, l0_stall: 4, ..base_cfg() };
        let t = cfg.open(&dir).map_err(|e| e.to_string())?;
        fill(&t, "a", 60, 200).await?;
        t.verif_flush().map_err(|e| e.to_string())?;
        fill(&t, "a", 60, 200).await?;
        t.verif_flush().map_err(|e| e.to_string())?;
        t.verif_compact_once().map_err(|e| e.to_string())?;
        for i in 0..4 {
            fill(&t, &format!("b{}", i), 2, 20).await?;
            t.verif_flush().map_err(|e| e.to_string())?;
        }
        let (before, lay_before) = l0_count(&t)?;
        if before < cfg.l0_stall {
            close(t).await;
            return Err(format!("harness: could not build the state (L0 holds {} files: {:?})", before, lay_before));
        }
        // what the flush task does after its last flush: wake the level task once
        let ctl = crate::e3::ctl();
        ctl.reset();
        surrealkv::verif::set_manual_background(false);
        t.verif_wake_background();
        let mut idle = false;
        for _ in 0..5000 {
            tokio::time::sleep(std::time::Duration::from_millis(1)).await;
            let hits = ctl.point_hits.lock().unwrap().get("task.level.before_idle").copied().unwrap_or(0);
            let lay = t.verif_layout().map_err(|e| e.to_string())?;
            if hits >= 1 && !lay.level_task_running && !lay.memtable_task_running {
                idle = true;
                break;
            }
        }
        surrealkv::verif::set_manual_background(true);
        ctl.reset();
        let (after, lay_after) = l0_count(&t)?;
        close(t).await;
        if !idle {
            return Err("harness: the level task never went idle".into());
        }
        if after >= cfg.l0_stall {
            return Err(format!(
                "L0 at the write-stall limit ({} files, limit {}), L1 far over its target; the level task is woken once (as after a flush) and goes idle with L0 still at {} files: writers stay stalled and no flush will ever wake it again (before: {:?}; after: {:?})",
                before, cfg.l0_stall, after, lay_before, lay_after
            ));
        }
        Ok(())
    })
}

fn c12_damaged_first_header(dir: PathBuf) -> ScenFut<'static> {
    Box::pin(async move {
        let cfg = base_cfg();
        let t = cfg.open(&dir).map_err(|e| e.to_string())?;
        put(&t, &[(b"a", b"1")]).await?;
        put(&t, &[(b"b", b"2")]).await?;
        close(t).await;
        let wal = dir.join("wal");
        let seg = std::fs::read_dir(&wal).map_err(|e| e.to_string())?.flatten().map(|e| e.path()).find(|p| p.extension().map(|x| x == "wal").unwrap_or(false)).ok_or("no segment")?;
        let mut bytes = std::fs::read(&seg).map_err(|e| e.to_string())?;
        bytes[6] ^= 0xff; // record-type byte of the first header
        std::fs::write(&seg, &bytes).map_err(|e| e.to_string())?;
        match cfg.open(&dir) {
            Ok(t) => {
                let r = put(&t, &[(b"c", b"3")]).await;
                close(t).await;
                r.map_err(|e| format!("commit after recovery from a damaged first record header failed: {e}"))
            }
            Err(e) => Err(format!("two commits; close; the record-type byte of the segment's first header altered; open in the default (repairing) recovery mode fails instead of keeping the valid prefix: {e}")),
        }
    })
}

/// A whole 32 KiB block in the middle of a commit-log segment reads as zeros (a lost write).
fn c12_zeroed_block(dir: PathBuf) -> ScenFut<'static> {
    Box::pin(async move {
        use surrealkv::verif::{verif_wal_read_segment, VerifWal};
        let wal_dir = dir.join("wal");
        std::fs::create_dir_all(&wal_dir).map_err(|e| e.to_string())?;
        // a record of three blocks, then small ones
        let recs: Vec<Vec<u8>> = vec![vec![b'A'; 100], (0..90_000u32).map(|i| (i % 251) as u8).collect(), vec![b'C'; 200], vec![b'D'; 300]];
        let mut w = VerifWal::open(&wal_dir, 1 << 30, false).map_err(|e| e.to_string())?;
        for r in &recs {
            w.append(r).map_err(|e| e.to_string())?;
        }
        w.sync().map_err(|e| e.to_string())?;
        w.close().map_err(|e| e.to_string())?;
        let seg = std::fs::read_dir(&wal_dir).map_err(|e| e.to_string())?.flatten().map(|e| e.path()).find(|p| p.extension().map(|x| x == "wal").unwrap_or(false)).ok_or("no segment")?;
        let pristine = std::fs::read(&seg).map_err(|e| e.to_string())?;
        for block in 0..(pristine.len() / 32768 + 1) {
            let mut bytes = pristine.clone();
            let (lo, hi) = (block * 32768, ((block + 1) * 32768).min(bytes.len()));
            bytes[lo..hi].iter_mut().for_each(|b| *b = 0);
            std::fs::write(&seg, &bytes).map_err(|e| e.to_string())?;
            let (got, end) = verif_wal_read_segment(&seg).map_err(|e| format!("block {block} zeroed: reading fails outright: {e}"))?;
            for (i, (g, _)) in got.iter().enumerate() {
                if i >= recs.len() || *g != recs[i] {
                    return Err(format!(
                        "4 records (100 bytes, 90 000 bytes over three blocks, 200, 300) appended; block {block} of the segment (bytes {lo}..{hi}) reads as zeros: record #{i} read back is {} bytes and is not the record appended at that position ({}); the reader then ends with {:?}",
                        g.len(),
                        recs.iter().position(|r| r == g).map_or("it equals no appended record: fragments around the zeros were joined".to_string(), |j| format!("it is appended record #{j}: the records in the zeroed range were skipped")),
                        end
                    ));
                }
            }
        }
        std::fs::write(&seg, &pristine).map_err(|e| e.to_string())?;
        Ok(())
    })
}

fn c12_compression_record_unchecked(dir: PathBuf) -> ScenFut<'static> {
    Box::pin(async move {
        use surrealkv::verif::{verif_wal_read_segment, VerifWal};
        std::fs::create_dir_all(&dir).map_err(|e| e.to_string())?;
        let recs: Vec<Vec<u8>> = vec![b"first record".to_vec(), vec![7u8; 300]];
        let mut w = VerifWal::open(&dir, 1 << 30, true).map_err(|e| e.to_string())?;
        for r in &recs {
            w.append(r).map_err(|e| e.to_string())?;
        }
        w.close().map_err(|e| e.to_string())?;
        let seg = std::fs::read_dir(&dir).map_err(|e| e.to_string())?.flatten().map(|e| e.path()).find(|p| p.extension().map(|x| x == "wal").unwrap_or(false)).ok_or("no segment")?;
        let mut bytes = std::fs::read(&seg).map_err(|e| e.to_string())?;
        bytes[7] ^= 0x01; // payload of the compression-type record
        std::fs::write(&seg, &bytes).map_err(|e| e.to_string())?;
        let (got, end) = verif_wal_read_segment(&seg).map_err(|e| e.to_string())?;
        for (i, (g, _)) in got.iter().enumerate() {
            if i >= recs.len() || *g != recs[i] {
                return Err(format!("compressed segment, one bit of the compression-type record's payload flipped: record #{} is read back as {} bytes that were never appended (reading ended with {:?})", i, g.len(), end));
            }
        }
        Ok(())
    })
}

/// A compaction round is parked at one of its yield points; meanwhile a reader begins, the key
/// it sees is overwritten and the new version is flushed; the round is released; the reader
/// reads again. One run per gate.
fn c01_compaction_paused(dir: PathBuf) -> ScenFut<'static> {
    Box::pin(async move {
        let res = std::thread::spawn(move || -> Result<(), String> {
            let rt = tokio::runtime::Builder::new_multi_thread().worker_threads(4).enable_all().build().map_err(|e| e.to_string())?;
            rt.block_on(async move {
                for gate_name in ["compact.after_snapshots", "compact.before_manifest", "compact.before_cleanup"] {
                    for second_round in [false, true] {
                        let d = dir.join(format!("{}-{}", gate_name.replace('.', "_"), second_round));
                        let t = std::sync::Arc::new(c01_cfg().open(&d).map_err(|e| e.to_string())?);
                        put(&t, &[(b"k", b"v1"), (b"j", b"w1")]).await?;
                        t.verif_flush().map_err(|e| e.to_string())?;
                        put(&t, &[(b"j", b"w2")]).await?;
                        t.verif_flush().map_err(|e| e.to_string())?;
                        let ctl = crate::e3::ctl();
                        ctl.reset();
                        let gate = ctl.arm_gate(gate_name);
                        let tc = t.clone();
                        let h1 = tokio::runtime::Handle::current();
                        let comp = std::thread::spawn(move || {
                            let _g = h1.enter();
                            tc.verif_compact_once().map_err(|e| e.to_string())
                        });
                        if !gate.wait_parked(5000) {
                            gate.release();
                            let _ = comp.join();
                            ctl.reset();
                            return Err(format!("harness: no compaction round reached {}", gate_name));
                        }
                        // while the round is parked: reader begins, k is overwritten and flushed
                        let r = t.begin_with_mode(Mode::ReadOnly).map_err(|e| e.to_string())?;
                        let h = r.verif_start_seq();
                        let first = r.get(&b"k"[..]).map_err(|e| e.to_string())?;
                        put(&t, &[(b"k", b"v2")]).await?;
                        // the flush needs the manifest lock, which a round parked after its table
                        // pick may hold: issue it from a helper thread and do not wait for it
                        let tf = t.clone();
                        let h2 = tokio::runtime::Handle::current();
                        let fl = std::thread::spawn(move || {
                            let _g = h2.enter();
                            tf.verif_flush().map_err(|e| e.to_string())
                        });
                        std::thread::sleep(std::time::Duration::from_millis(30));
                        gate.release();
                        comp.join().map_err(|_| "compaction thread panicked".to_string())??;
                        fl.join().map_err(|_| "flush thread panicked".to_string())??;
                        ctl.reset();
                        if second_round {
                            compact_all(&t).await?;
                        }
                        let again = r.get(&b"k"[..]).map_err(|e| e.to_string())?;
                        let mut it = r.range(&b"a"[..], &b"z"[..]).map_err(|e| e.to_string())?;
                        let scan = collect_fwd(&mut it)?;
                        drop(it);
                        drop(r);
                        if let Ok(t) = std::sync::Arc::try_unwrap(t) {
                            close(t).await;
                        }
                        let show = |v: &Option<Vec<u8>>| v.as_ref().map(|b| String::from_utf8_lossy(b).to_string());
                        if first.as_deref() != Some(&b"v1"[..]) || again.as_deref() != Some(&b"v1"[..]) || scan != vec![b"j".to_vec(), b"k".to_vec()] {
                            return Err(format!(
                                "compaction round parked at {}; a reader begins (horizon {}) and reads k = {:?}; k is overwritten and flushed; the round resumes{}; the reader now reads k = {:?}, scan lists {:?}; expected v1 and [j, k]",
                                gate_name,
                                h,
                                show(&first),
                                if second_round { ", further rounds run" } else { "" },
                                show(&again),
                                scan.iter().map(|k| String::from_utf8_lossy(k).to_string()).collect::<Vec<_>>()
                            ));
                        }
                    }
                }
                Ok(())
            })
        })
        .join()
        .map_err(|_| "scenario thread panicked".to_string())?;
        res
    })
}

/// A reader building the view of a range cursor (locks: immutable memtables, then manifest) and
/// a flush installing its table (locks: manifest, then immutable memtables), each parked between
/// its two locks.
fn c17_cursor_view_vs_flush_install(dir: PathBuf) -> ScenFut<'static> {
    Box::pin(async move {
        let res = std::thread::spawn(move || -> Result<(), String> {
            let rt = tokio::runtime::Builder::new_multi_thread().worker_threads(4).enable_all().build().map_err(|e| e.to_string())?;
            rt.block_on(async move {
                let cfg = Cfg { level_count: 3, l0_max_files: 8, max_bytes_for_level: 1 << 20, ..base_cfg() };
                let t = std::sync::Arc::new(cfg.open(&dir).map_err(|e| e.to_string())?);
                put(&t, &[(b"k", b"v1")]).await?;
                t.verif_rotate().map_err(|e| e.to_string())?;
                put(&t, &[(b"j", b"w1")]).await?;
                let ctl = crate::e3::ctl();
                ctl.reset();
                let g_reader = ctl.arm_gate("iter.state.after_immutables");
                let g_flush = ctl.arm_gate("flush.install.after_manifest_lock");
                let (done_tx, done_rx) = std::sync::mpsc::channel::<(&'static str, Result<usize, String>)>();
                let (tr, txr) = (t.clone(), done_tx.clone());
                let reader = std::thread::spawn(move || {
                    let r = (|| -> Result<usize, String> {
                        let tx = tr.begin_with_mode(Mode::ReadOnly).map_err(|e| e.to_string())?;
                        let mut it = tx.range(&b"a"[..], &b"z"[..]).map_err(|e| e.to_string())?;
                        Ok(collect_fwd(&mut it)?.len())
                    })();
                    let _ = txr.send(("reader", r));
                });
                if !g_reader.wait_parked(5000) {
                    g_reader.release();
                    g_flush.release();
                    ctl.reset();
                    return Err("harness: the reader did not reach iter.state.after_immutables".into());
                }
                let (tf, txf) = (t.clone(), done_tx.clone());
                let h = tokio::runtime::Handle::current();
                let flusher = std::thread::spawn(move || {
                    let _g = h.enter();
                    let r = tf.verif_flush_one().map(|_| 0usize).map_err(|e| e.to_string());
                    let _ = txf.send(("flush", r));
                });
                // the flush either parks with the manifest lock held, or (reader holding no lock
                // the flush needs first) runs through
                let flush_parked = g_flush.wait_parked(3000);
                g_reader.release();
                std::thread::sleep(std::time::Duration::from_millis(50));
                g_flush.release();
                let mut got = vec![];
                for _ in 0..2 {
                    match done_rx.recv_timeout(std::time::Duration::from_secs(20)) {
                        Ok(x) => got.push(x),
                        Err(_) => break,
                    }
                }
                ctl.reset();
                if got.len() < 2 {
                    // both threads are stuck inside the store for good; the process is ended by the caller's verdict
                    let finished: Vec<&str> = got.iter().map(|g| g.0).collect();
                    std::mem::forget(reader);
                    std::mem::forget(flusher);
                    return Err(format!(
                        "a reader creating a range cursor was paused after taking the immutable-memtable lock, a flush was {} after taking the manifest lock, both were resumed: 20 s later {} - each holds the lock the other one needs (the flush never installs its table; commits then stall and close() waits for the flush)",
                        if flush_parked { "paused" } else { "started" },
                        if finished.is_empty() { "neither has returned".to_string() } else { format!("only {:?} has returned", finished) }
                    ));
                }
                let _ = reader.join();
                let _ = flusher.join();
                for (who, r) in got {
                    match r {
                        Ok(n) if who == "reader" && n != 2 => return Err(format!("reader's scan returned {n} keys, expected 2")),
                        Err(e) => return Err(format!("{who} failed: {e}")),
                        _ => {}
                    }
                }
                if let Ok(t) = std::sync::Arc::try_unwrap(t) {
                    close(t).await;
                }
                Ok(())
            })
        })
        .join()
        .map_err(|_| "scenario thread panicked".to_string())?;
        res
    })
}

/// Commits alternate with checkpoints (each checkpoint flushes the memtable into a new L0
/// table); the store's own background tasks are running.
fn c17_checkpoints_fill_l0(dir: PathBuf) -> ScenFut<'static> {
    Box::pin(async move {
        let res = std::thread::spawn(move || -> Result<(), String> {
            let rt = tokio::runtime::Builder::new_multi_thread().worker_threads(4).enable_all().build().map_err(|e| e.to_string())?;
            surrealkv::verif::set_manual_background(false);
            let r = rt.block_on(async move {
                let cfg = Cfg { level_count: 3, l0_max_files: 2, l0_stall: 4, memtable_stall: 4, max_bytes_for_level: 1 << 20, ..base_cfg() };
                let t = std::sync::Arc::new(cfg.open(&dir.join("src")).map_err(|e| e.to_string())?);
                for i in 0..12u32 {
                    let tc = t.clone();
                    let k = format!("k{i:02}").into_bytes();
                    let c = tokio::spawn(async move { put(&tc, &[(&k[..], b"v")]).await });
                    match tokio::time::timeout(std::time::Duration::from_secs(20), c).await {
                        Ok(r) => r.map_err(|e| e.to_string())??,
                        Err(_) => {
                            let l0 = t.verif_layout().map(|l| l.tables.iter().filter(|x| x.level == 0).count()).unwrap_or(0);
                            return Err(format!(
                                "small commits alternate with create_checkpoint (write-stall threshold: 4 L0 tables; background tasks running): commit #{i} has not returned after 20 s - {l0} tables sit in L0, every checkpoint added one by flushing the memtable itself, and nothing wakes the compaction task or the stalled writer"
                            ));
                        }
                    }
                    let ck = dir.join(format!("ck{i}"));
                    t.create_checkpoint(&ck).map_err(|e| format!("create_checkpoint: {e}"))?;
                    let _ = std::fs::remove_dir_all(&ck);
                }
                if let Ok(t) = std::sync::Arc::try_unwrap(t) {
                    close(t).await;
                }
                Ok(())
            });
            surrealkv::verif::set_manual_background(true);
            r
        })
        .join()
        .map_err(|_| "scenario thread panicked".to_string())?;
        res
    })
}

/// A checkpoint taken with level 0 at the write-stall limit is restored; background tasks run.
fn c17_restore_into_full_l0(dir: PathBuf) -> ScenFut<'static> {
    Box::pin(async move {
        let res = std::thread::spawn(move || -> Result<(), String> {
            let rt = tokio::runtime::Builder::new_multi_thread().worker_threads(4).enable_all().build().map_err(|e| e.to_string())?;
            // build the checkpoint with the background tasks off, so that level 0 stays full
            let cfg = Cfg { level_count: 3, l0_max_files: 4, l0_stall: 4, memtable_stall: 4, max_bytes_for_level: 1 << 20, ..base_cfg() };
            let ck = dir.join("ck");
            {
                let (d, ck, cfg) = (dir.clone(), ck.clone(), cfg.clone());
                rt.block_on(async move {
                    let t = cfg.open(&d.join("build")).map_err(|e| e.to_string())?;
                    for i in 0..4u8 {
                        put(&t, &[(format!("k{i}").as_bytes(), b"v")]).await?;
                        t.verif_flush().map_err(|e| e.to_string())?;
                    }
                    t.create_checkpoint(&ck).map_err(|e| e.to_string())?;
                    close(t).await;
                    Ok::<(), String>(())
                })?;
            }
            surrealkv::verif::set_manual_background(false);
            let r = rt.block_on(async move {
                let t = std::sync::Arc::new(cfg.open(&dir.join("live")).map_err(|e| e.to_string())?);
                put(&t, &[(b"x", b"1")]).await?;
                // the compaction task looks at the levels once when the store opens: let that
                // look happen before the restore, as it has in any store that has been up a while
                tokio::time::sleep(std::time::Duration::from_millis(500)).await;
                t.restore_from_checkpoint(&ck).map_err(|e| format!("restore: {e}"))?;
                let tc = t.clone();
                let c = tokio::spawn(async move { put(&tc, &[(b"after", b"restore")]).await });
                match tokio::time::timeout(std::time::Duration::from_secs(20), c).await {
                    Ok(r) => r.map_err(|e| e.to_string())??,
                    Err(_) => {
                        return Err("a checkpoint with 4 tables in level 0 (write-stall threshold 4) is restored into a running store: the first commit afterwards has not returned after 20 s - it waits in the write stall and nothing starts the compaction that would end it".to_string());
                    }
                }
                if let Ok(t) = std::sync::Arc::try_unwrap(t) {
                    close(t).await;
                }
                Ok(())
            });
            surrealkv::verif::set_manual_background(true);
            r
        })
        .join()
        .map_err(|_| "scenario thread panicked".to_string())?;
        res
    })
}

/// The signal that clears a write stall lands exactly at the yield point between the stalled
/// writer's last look at the counts and its wait; nothing signals afterwards.
fn c17_stall_signal_at_yield_point(dir: PathBuf) -> ScenFut<'static> {
    Box::pin(async move {
        let res = std::thread::spawn(move || -> Result<(), String> {
            let rt = tokio::runtime::Builder::new_multi_thread().worker_threads(4).enable_all().build().map_err(|e| e.to_string())?;
            rt.block_on(async move {
                for what in ["flush", "close"] {
                    let d = dir.join(what);
                    let cfg = Cfg { memtable_stall: 2, ..base_cfg() };
                    let t = std::sync::Arc::new(cfg.open(&d).map_err(|e| e.to_string())?);
                    for i in 0..2 {
                        put(&t, &[(format!("k{i}").as_bytes(), b"v")]).await?;
                        t.verif_rotate().map_err(|e| e.to_string())?;
                    }
                    let ctl = crate::e3::ctl();
                    ctl.reset();
                    let tc = t.clone();
                    let h = tokio::runtime::Handle::current();
                    let fired = std::sync::Arc::new(std::sync::atomic::AtomicBool::new(false));
                    let f2 = fired.clone();
                    ctl.at_point_once(
                        "stall.before_wait",
                        std::sync::Arc::new(move || {
                            let _g = h.enter();
                            if what == "flush" {
                                let _ = tc.verif_flush();
                            } else {
                                // shutdown signal: close() from another thread, completed before we go on
                                let tc2 = tc.clone();
                                let h2 = h.clone();
                                let _ = std::thread::spawn(move || h2.block_on(async move { tc2.close().await.map_err(|e| e.to_string()) })).join();
                            }
                            f2.store(true, std::sync::atomic::Ordering::SeqCst);
                        }),
                    );
                    let tw = t.clone();
                    let writer = tokio::spawn(async move { put(&tw, &[(b"k2", b"v")]).await });
                    // bounded progress, decided on logical state: the stall condition is gone (or
                    // the store is shut down) and no thread of the process is runnable
                    let mut done = false;
                    let mut idle = 0;
                    for _ in 0..1200 {
                        tokio::time::sleep(std::time::Duration::from_millis(10)).await;
                        if writer.is_finished() {
                            done = true;
                            break;
                        }
                        let (running, _) = crate::e3::thread_states();
                        if fired.load(std::sync::atomic::Ordering::SeqCst) && running == 0 {
                            idle += 1;
                        } else {
                            idle = 0;
                        }
                        if idle >= 300 {
                            break;
                        }
                    }
                    ctl.reset();
                    let imm = t.verif_layout().map(|l| l.immutables).unwrap_or(99);
                    if !done {
                        writer.abort();
                        return Err(format!(
                            "2 immutable memtables = write stall; a third commit reaches stall.before_wait; at that instant {}; the commit never returns although {} (immutable memtables now: {}) and no thread was runnable for 3 s",
                            if what == "flush" { "both memtables are flushed and the stall-cleared signal is sent" } else { "close() shuts the store down and signals the stalled writers" },
                            if what == "flush" { "the stall condition is gone" } else { "the store is closed" },
                            imm
                        ));
                    }
                    let _ = writer.await;
                    if what == "flush" {
                        if let Ok(t) = std::sync::Arc::try_unwrap(t) {
                            close(t).await;
                        }
                    }
                }
                Ok(())
            })
        })
        .join()
        .map_err(|_| "scenario thread panicked".to_string())?;
        res
    })
}

fn c12_torn_tail_behind_compression_header(dir: PathBuf) -> ScenFut<'static> {
    Box::pin(async move {
        use surrealkv::verif::{verif_wal_read_segment, VerifWal, VerifWalEnd};
        std::fs::create_dir_all(&dir).map_err(|e| e.to_string())?;
        let mut w = VerifWal::open(&dir, 1 << 30, true).map_err(|e| e.to_string())?;
        w.append(&crate::rng::prg_bytes(5, 5, 5, 40_000)).map_err(|e| e.to_string())?;
        w.close().map_err(|e| e.to_string())?;
        let seg = std::fs::read_dir(&dir).map_err(|e| e.to_string())?.flatten().map(|e| e.path()).find(|p| p.extension().map(|x| x == "wal").unwrap_or(false)).ok_or("no segment")?;
        let bytes = std::fs::read(&seg).map_err(|e| e.to_string())?;
        std::fs::write(&seg, &bytes[..9]).map_err(|e| e.to_string())?; // compression header + 1 byte of the next header
        let appended: Vec<Vec<u8>> = vec![b"after".to_vec(), vec![9u8; 700]];
        let mut w = VerifWal::open(&dir, 1 << 30, true).map_err(|e| e.to_string())?;
        for a in &appended {
            w.append(a).map_err(|e| e.to_string())?;
        }
        w.close().map_err(|e| e.to_string())?;
        let (got, end) = verif_wal_read_segment(&seg).map_err(|e| e.to_string())?;
        let got: Vec<Vec<u8>> = got.into_iter().map(|x| x.0).collect();
        if got != appended || end != VerifWalEnd::Eof {
            return Err(format!("compressed segment cut 1 byte into its first record header; reopened; 2 records appended; reading yields {} records and ends with {:?}", got.len(), end));
        }
        Ok(())
    })
}

/// A leaf between a tiny separator and large ones is drained: the borrow from the left sibling
/// is declined (the new separator would not fit into the parent).
fn c18_leaf_drained_behind_declined_redistribution(dir: PathBuf) -> ScenFut<'static> {
    Box::pin(async move {
        use surrealkv::bplustree::tree::new_disk_tree;
        use surrealkv::{BytewiseComparator, LSMIterator};
        std::fs::create_dir_all(&dir).map_err(|e| e.to_string())?;
        let big = |prefix: u8, i: u8| -> Vec<u8> {
            let mut k = vec![prefix; 980];
            k[1] = b'0' + i;
            k
        };
        let mut tree = new_disk_tree(dir.join("t.bpt"), std::sync::Arc::new(BytewiseComparator {})).map_err(|e| e.to_string())?;
        let mut model = std::collections::BTreeMap::new();
        let smalls: Vec<Vec<u8>> = (0..18).map(|i| format!("b{:02}", i).into_bytes()).collect();
        for k in &smalls {
            tree.insert(k, vec![b'v'; 101]).map_err(|e| e.to_string())?;
            model.insert(k.clone(), vec![b'v'; 101]);
        }
        for i in [1u8, 2, 0] {
            tree.insert(big(b'a', i), vec![i; 8]).map_err(|e| e.to_string())?;
            model.insert(big(b'a', i), vec![i; 8]);
        }
        for i in 0..9u8 {
            tree.insert(big(b'c', i), vec![i; 8]).map_err(|e| e.to_string())?;
            model.insert(big(b'c', i), vec![i; 8]);
        }
        for k in &smalls {
            tree.delete(k).map_err(|e| e.to_string())?;
            model.remove(k);
        }
        let what = "18 small entries b00..b17, large (980-byte) keys a0..a2 and c0..c8 around them (the leaf of the b entries ends up between a 3-byte separator and 980-byte ones), then every b entry deleted";
        for (k, v) in &model {
            if tree.get(k).map_err(|e| e.to_string())?.as_deref() != Some(v.as_slice()) {
                return Err(format!("{what}: get of a remaining key fails"));
            }
        }
        let mut it = tree.internal_iterator();
        let (mut fwd, mut ok) = (0, it.seek_first().map_err(|e| e.to_string())?);
        while ok {
            fwd += 1;
            ok = it.next().map_err(|e| e.to_string())?;
        }
        let mut it = tree.internal_iterator();
        let (mut bwd, mut ok) = (0, it.seek_last().map_err(|e| e.to_string())?);
        while ok {
            bwd += 1;
            ok = it.prev().map_err(|e| e.to_string())?;
        }
        drop(it);
        let census = tree.verif_census().map_err(|e| e.to_string());
        if fwd != model.len() || bwd != model.len() {
            return Err(format!("{what}: {} entries remain (point lookups find them all), a forward cursor walk visits {fwd}, a backward walk {bwd} - a leaf without keys is left in the leaf chain and the cursor stops at it", model.len()));
        }
        census.map(|_| ()).map_err(|e| format!("{what}: census fails: {e}"))
    })
}

fn c18_separator_overflow(dir: PathBuf) -> ScenFut<'static> {
    Box::pin(async move {
        use surrealkv::bplustree::tree::new_disk_tree;
        std::fs::create_dir_all(&dir).map_err(|e| e.to_string())?;
        let big = |tag: &str, n: usize| -> Vec<u8> {
            let mut k = tag.as_bytes().to_vec();
            k.extend(std::iter::repeat(b'K').take(n - tag.len()));
            k
        };
        // (key, value length); None = delete  [minimised from generated sequences]
        let leak: Vec<(Vec<u8>, Option<usize>)> = vec![
            (b"key000354".to_vec(), Some(878)),
            (b"key000112".to_vec(), Some(419)),
            (big("big0054", 3126), Some(40)),
            (b"key000076".to_vec(), Some(503)),
            (b"key000281".to_vec(), Some(691)),
            (b"key000447".to_vec(), Some(16077)),
            (big("big0040", 2977), Some(41)),
            (big("big0010", 1950), Some(29441)),
            (big("big0226", 1095), Some(20)),
            (big("big0080", 4490), Some(8)),
            (b"key000223".to_vec(), Some(827)),
            (big("big0080", 4490), None),
            (big("big0040", 2977), None),
        ];
        let reopen: Vec<(Vec<u8>, Option<usize>)> = vec![
            (b"key000281".to_vec(), Some(4136)),
            (b"key000112".to_vec(), Some(419)),
            (big("big0054", 1068), Some(40)),
            (b"key000202".to_vec(), Some(934)),
            (big("big0010", 1035), Some(13)),
            (b"key000101".to_vec(), Some(45)),
            (b"key000076".to_vec(), Some(503)),
            (b"key000281".to_vec(), Some(691)),
            (b"key000124".to_vec(), Some(48)),
            (big("big0040", 982), Some(41)),
            (big("big0290", 1008), Some(40)),
            (big("big0010", 1035), None),
            (big("big0226", 1014), Some(20)),
            (big("big0080", 1010), Some(8)),
            (b"key000103".to_vec(), Some(48)),
            (b"key000057".to_vec(), Some(28)),
            (b"key000014".to_vec(), Some(40)),
            (b"key000035".to_vec(), Some(17829)),
            (b"key000108".to_vec(), Some(4096)),
            (b"key000041".to_vec(), Some(741)),
            (b"key000129".to_vec(), Some(4180)),
            (b"key000124".to_vec(), Some(47)),
            (b"key000035".to_vec(), None),
        ];
        for (name, ops) in [("leak", leak), ("reopen", reopen)] {
            let path = dir.join(format!("{name}.bpt"));
            let cmp: std::sync::Arc<dyn surrealkv::Comparator> = std::sync::Arc::new(surrealkv::BytewiseComparator {});
            let mut t = new_disk_tree(&path, cmp.clone()).map_err(|e| e.to_string())?;
            let mut model: std::collections::BTreeMap<Vec<u8>, Vec<u8>> = Default::default();
            for (i, (k, v)) in ops.iter().enumerate() {
                match v {
                    Some(n) => {
                        let val = vec![(i % 251) as u8; *n];
                        t.insert(k, &val).map_err(|e| format!("insert #{i}: {e}"))?;
                        model.insert(k.clone(), val);
                    }
                    None => {
                        t.delete(k).map_err(|e| format!("delete #{i}: {e}"))?;
                        model.remove(k);
                    }
                }
            }
            let cs = t.verif_census().map_err(|e| format!("{name}: census: {e}"))?;
            if cs.unaccounted_pages > 0 || !cs.pages_seen_twice.is_empty() {
                return Err(format!("keys longer than the inline limit, leaf redistribution: {} of {} pages are neither reachable nor free, pages reachable twice: {:?}", cs.unaccounted_pages, cs.total_pages, cs.pages_seen_twice));
            }
            t.flush().map_err(|e| e.to_string())?;
            drop(t);
            let t = new_disk_tree(&path, cmp).map_err(|e| format!("keys longer than the inline limit, leaf redistribution, close: reopening the tree fails: {e}"))?;
            for (k, v) in &model {
                let got = t.get(k).map_err(|e| format!("get after reopen: {e}"))?;
                if got.as_ref().map(|b| b.to_vec()).as_ref() != Some(v) {
                    return Err(format!("after reopen get of a {}-byte key returns {:?} bytes, expected {}", k.len(), got.map(|b| b.len()), v.len()));
                }
            }
        }
        Ok(())
    })
}

fn c19_refused_open_truncates_lock(dir: PathBuf) -> ScenFut<'static> {
    Box::pin(async move {
        let cfg = base_cfg();
        let owner = cfg.open(&dir).map_err(|e| e.to_string())?;
        let before = std::fs::read(dir.join("LOCK")).map_err(|e| e.to_string())?;
        let second = cfg.open(&dir);
        let after = std::fs::read(dir.join("LOCK")).map_err(|e| e.to_string())?;
        let refused = second.is_err();
        if let Ok(t) = second {
            close(t).await;
        }
        close(owner).await;
        if !refused {
            return Err("a second open of a directory held by a live store succeeded".into());
        }
        if before != after {
            return Err(format!("a refused open changed the owner's LOCK file: {:?} -> {:?}", String::from_utf8_lossy(&before), String::from_utf8_lossy(&after)));
        }
        Ok(())
    })
}

/// `Tree` is `Clone`: one of two handles of a store is dropped, the other stays in use.
fn c19_clone_dropped(dir: PathBuf) -> ScenFut<'static> {
    Box::pin(async move {
        let cfg = base_cfg();
        let a = cfg.open(&dir).map_err(|e| e.to_string())?;
        put(&a, &[(b"k", b"v1")]).await?;
        let b = a.clone();
        drop(a);
        // whatever the dropped handle set off runs on this runtime: give it time
        for _ in 0..50 {
            tokio::time::sleep(std::time::Duration::from_millis(10)).await;
        }
        // the remaining handle is a live instance of the store
        let still_reads = get1(&b, b"k")?;
        let still_commits = put(&b, &[(b"k2", b"v2")]).await;
        let second = cfg.open(&dir);
        let granted = second.is_ok();
        if let Ok(t) = second {
            close(t).await;
        }
        close(b).await;
        if granted {
            return Err(format!(
                "a store handle was cloned and one of the two handles dropped; the other handle still reads (k = {:?}) and its commit {}; a second open of the same directory then succeeded while that handle was alive",
                still_reads.map(|v| String::from_utf8_lossy(&v).to_string()),
                match still_commits { Ok(()) => "was acknowledged".to_string(), Err(e) => format!("fails with '{e}'") }
            ));
        }
        if let Err(e) = still_commits {
            return Err(format!("a store handle was cloned and one of the two handles dropped: commits through the remaining handle fail: {e}"));
        }
        Ok(())
    })
}

/// A checkpoint directory that is written again after the store was restored to an older
/// checkpoint: the new timeline reuses table ids of the discarded one, with tables of the same
/// size (fixed-size records).
fn c14_directory_reused_after_restore(dir: PathBuf) -> ScenFut<'static> {
    Box::pin(async move {
        let cfg = Cfg { cache: 0, level_count: 3, l0_max_files: 8, max_bytes_for_level: 1 << 20, ..base_cfg() };
        let t = cfg.open(&dir.join("src")).map_err(|e| e.to_string())?;
        let (ck_a, ck_d) = (dir.join("ckA"), dir.join("ckD"));
        let fill = |tag: &'static str| -> Vec<(Vec<u8>, Vec<u8>)> { (0..40).map(|i| (format!("k{i:04}").into_bytes(), format!("timeline-{tag}-{i:04}").into_bytes())).collect() };
        let write = |kv: Vec<(Vec<u8>, Vec<u8>)>| {
            let t = &t;
            async move {
                let refs: Vec<(&[u8], &[u8])> = kv.iter().map(|(k, v)| (&k[..], &v[..])).collect();
                put(t, &refs).await
            }
        };
        put(&t, &[(b"base", b"0")]).await?;
        t.verif_flush().map_err(|e| e.to_string())?;
        t.create_checkpoint(&ck_a).map_err(|e| e.to_string())?;
        write(fill("one")).await?;
        t.verif_flush().map_err(|e| e.to_string())?;
        t.create_checkpoint(&ck_d).map_err(|e| e.to_string())?;
        t.restore_from_checkpoint(&ck_a).map_err(|e| format!("restore: {e}"))?;
        write(fill("two")).await?;
        t.verif_flush().map_err(|e| e.to_string())?;
        t.create_checkpoint(&ck_d).map_err(|e| format!("second checkpoint into the same directory: {e}"))?;
        // the directory now holds the checkpoint of the second timeline
        let opened = cfg.open(&ck_d.clone()).map_err(|e| format!("the re-used checkpoint directory does not open as a database: {e}"));
        let what = "checkpoint A; 40 keys written as timeline one, flushed; checkpoint D; restore A; the same 40 keys written as timeline two (same sizes: the flushed table reuses the id and the length of the discarded one), flushed; checkpoint into D again";
        match opened {
            Ok(o) => {
                let v = get1(&o, b"k0000")?;
                close(o).await;
                if v.as_deref() != Some(&b"timeline-two-0000"[..]) {
                    close(t).await;
                    return Err(format!("{what}: D opened as a database has k0000 = {:?}", v.map(|v| String::from_utf8_lossy(&v).to_string())));
                }
            }
            Err(e) => {
                close(t).await;
                return Err(format!("{what}: {e}"));
            }
        }
        close(t).await;
        Ok(())
    })
}

/// close() is cancelled at its first suspension point (a timeout or select around it); the
/// handle is still there.
fn c19_close_cancelled(dir: PathBuf) -> ScenFut<'static> {
    Box::pin(async move {
        let cfg = base_cfg();
        let a = cfg.open(&dir).map_err(|e| e.to_string())?;
        put(&a, &[(b"k", b"v1")]).await?;
        let completed = tokio::select! {
            biased;
            r = a.close() => Some(r),
            _ = std::future::ready(()) => None,
        };
        let second = cfg.open(&dir);
        let granted = second.is_ok();
        if let Ok(t) = second {
            close(t).await;
        }
        let reads = get1(&a, b"k");
        // now let it run to completion
        let r = a.close().await;
        drop(a);
        if completed.is_none() && granted {
            return Err(format!("close() was dropped at its first suspension point (as under a timeout); the handle is still alive (a read through it: {:?}); a second open of the directory then succeeded", reads.map(|v| v.map(|v| String::from_utf8_lossy(&v).to_string()))));
        }
        if let Err(e) = r {
            return Err(format!("close() after a cancelled close() fails: {e}"));
        }
        for _ in 0..200 {
            match cfg.open(&dir) {
                Ok(t) => {
                    let v = get1(&t, b"k")?;
                    close(t).await;
                    return if v.as_deref() == Some(&b"v1"[..]) { Ok(()) } else { Err("data committed before the close is missing after the reopen".into()) };
                }
                Err(_) => tokio::time::sleep(std::time::Duration::from_millis(10)).await,
            }
        }
        Err("the directory cannot be opened for 2 s after close() completed".into())
    })
}

/// An open that fails after the directory lock was taken (damaged commit log in the strict
/// recovery mode), then another open of the same directory in the same process.
fn c19_failed_open_keeps_lock(dir: PathBuf) -> ScenFut<'static> {
    Box::pin(async move {
        let cfg = base_cfg();
        let t = cfg.open(&dir).map_err(|e| e.to_string())?;
        for i in 0..20u8 {
            put(&t, &[(format!("key{i:02}").as_bytes(), &[b'v'; 100][..])]).await?;
        }
        close(t).await;
        let seg = last_wal_segment(&dir).ok_or("no segment")?;
        let mut bytes = std::fs::read(&seg).map_err(|e| e.to_string())?;
        for b in &mut bytes[40..60] {
            *b ^= 0xff;
        }
        std::fs::write(&seg, &bytes).map_err(|e| e.to_string())?;
        let strict = Cfg { absolute_consistency: true, ..cfg.clone() }.open(&dir);
        let strict_err = match strict {
            Ok(t) => {
                close(t).await;
                return Err("harness: the damaged commit log opened in absolute-consistency mode".into());
            }
            Err(e) => e.to_string(),
        };
        // whatever the failed open left behind runs on this runtime
        for _ in 0..100 {
            match cfg.open(&dir) {
                Ok(t) => {
                    close(t).await;
                    return Ok(());
                }
                Err(_) => tokio::time::sleep(std::time::Duration::from_millis(10)).await,
            }
        }
        let e = cfg.open(&dir).err().map(|e| e.to_string()).unwrap_or_default();
        Err(format!("an open in absolute-consistency mode failed ({}); no store came out of it, yet for 1 s every further open of the directory (now in the repairing mode) is refused: {}", strict_err.chars().take(90).collect::<String>(), e))
    })
}

/// The last handle of a store is dropped on a thread that is not inside the runtime.
fn c19_dropped_outside_runtime(dir: PathBuf) -> ScenFut<'static> {
    Box::pin(async move {
        let res = std::thread::spawn(move || -> Result<(), String> {
            let rt = tokio::runtime::Builder::new_multi_thread().worker_threads(2).enable_all().build().map_err(|e| e.to_string())?;
            let cfg = base_cfg();
            let t = rt.block_on(async { cfg.open(&dir) }).map_err(|e| e.to_string())?;
            rt.block_on(async { put(&t, &[(b"k", b"v1")]).await })?;
            drop(t); // this thread is not inside the runtime
            for _ in 0..200 {
                match rt.block_on(async { cfg.open(&dir) }) {
                    Ok(t) => {
                        let v = get1(&t, b"k")?;
                        rt.block_on(close(t));
                        return if v.as_deref() == Some(&b"v1"[..]) { Ok(()) } else { Err("commit missing after the reopen".into()) };
                    }
                    Err(_) => std::thread::sleep(std::time::Duration::from_millis(10)),
                }
            }
            let e = rt.block_on(async { cfg.open(&dir) }).err().map(|e| e.to_string()).unwrap_or_default();
            Err(format!("a store opened inside a runtime was dropped on a thread outside it (the runtime keeps running); for 2 s every further open of the directory is refused: {e}"))
        })
        .join()
        .map_err(|_| "scenario thread panicked".to_string())?;
        res
    })
}

/// The block handles in a table's footer (which no checksum covers) are given sizes and
/// offsets that reach beyond the file.
fn c16_footer_handle_beyond_file(dir: PathBuf) -> ScenFut<'static> {
    Box::pin(async move {
        fn get_varint(buf: &[u8]) -> Option<(u64, usize)> {
            let (mut v, mut shift) = (0u64, 0);
            for (i, b) in buf.iter().enumerate().take(10) {
                v |= ((b & 0x7f) as u64) << shift;
                if b & 0x80 == 0 {
                    return Some((v, i + 1));
                }
                shift += 7;
            }
            None
        }
        fn put_varint(mut v: u64, out: &mut Vec<u8>) {
            while v >= 0x80 {
                out.push((v as u8) | 0x80);
                v >>= 7;
            }
            out.push(v as u8);
        }
        let cfg = Cfg { flush_on_close: true, block_size: 512, ..base_cfg() };
        let t = cfg.open(&dir).map_err(|e| e.to_string())?;
        for i in 0..200u32 {
            put(&t, &[(format!("key{i:04}").as_bytes(), format!("value{i:04}-{}", "x".repeat(30)).as_bytes())]).await?;
        }
        close(t).await;
        let sst = std::fs::read_dir(dir.join("sstables")).map_err(|e| e.to_string())?.flatten().map(|e| e.path()).find(|p| p.extension().map(|x| x == "sst").unwrap_or(false)).ok_or("no table file")?;
        let pristine = std::fs::read(&sst).map_err(|e| e.to_string())?;
        // footer: 50 bytes at the end; 2 bytes, then meta-index handle and index handle as varints
        let f = pristine.len() - 50;
        let mut p = f + 2;
        let mut fields = vec![];
        for _ in 0..4 {
            let (v, n) = get_varint(&pristine[p..]).ok_or("harness: footer layout not understood")?;
            fields.push((p, v, n));
            p += n;
        }
        let file_len = pristine.len() as u64;
        for (which, name) in [(1usize, "size of the meta-index handle"), (3, "size of the index handle"), (0, "offset of the meta-index handle"), (2, "offset of the index handle")] {
            for huge in [1u64 << 63, 1 << 40, file_len, file_len * 2] {
                let mut vals: Vec<u64> = fields.iter().map(|x| x.1).collect();
                vals[which] = huge;
                let mut enc = vec![];
                for v in &vals {
                    put_varint(*v, &mut enc);
                }
                if fields[0].0 + enc.len() > f + 42 {
                    continue;
                }
                let mut bytes = pristine.clone();
                bytes[fields[0].0..f + 42].fill(0);
                bytes[fields[0].0..fields[0].0 + enc.len()].copy_from_slice(&enc);
                std::fs::write(&sst, &bytes).map_err(|e| e.to_string())?;
                let d2 = dir.clone();
                let cfg2 = cfg.clone();
                let r = std::panic::catch_unwind(std::panic::AssertUnwindSafe(|| cfg2.open(&d2)));
                match r {
                    Err(_) => {
                        let _ = std::fs::write(&sst, &pristine);
                        return Err(format!("200 keys in one table; the {name} in the table's footer set to {huge}: opening the store panics: {}", crate::panics::take_last()));
                    }
                    Ok(Err(_)) => {}
                    Ok(Ok(t)) => {
                        // whatever opens must serve the written data or errors
                        let mut wrong = None;
                        for i in (0..200u32).step_by(7) {
                            let want = format!("value{i:04}-{}", "x".repeat(30)).into_bytes();
                            match get1(&t, format!("key{i:04}").as_bytes()) {
                                Ok(Some(v)) if v == want => {}
                                Err(_) => {}
                                Ok(other) => wrong = Some((i, other.map(|v| v.len()))),
                            }
                        }
                        close(t).await;
                        if let Some((i, got)) = wrong {
                            let _ = std::fs::write(&sst, &pristine);
                            return Err(format!("the {name} in the table's footer set to {huge}: the store opens and get(key{i:04}) returns {got:?} instead of the written value or an error"));
                        }
                    }
                }
            }
        }
        std::fs::write(&sst, &pristine).map_err(|e| e.to_string())?;
        Ok(())
    })
}

/// The index handle in a table's footer is rewritten to name another valid, checksummed block of
/// the same file (the first index partition instead of the top-level index).
fn c16_footer_redirected_to_valid_block(dir: PathBuf) -> ScenFut<'static> {
    Box::pin(async move {
        fn get_varint(buf: &[u8]) -> Option<(u64, usize)> {
            let (mut v, mut shift) = (0u64, 0);
            for (i, b) in buf.iter().enumerate().take(10) {
                v |= ((b & 0x7f) as u64) << shift;
                if b & 0x80 == 0 {
                    return Some((v, i + 1));
                }
                shift += 7;
            }
            None
        }
        fn put_varint(mut v: u64, out: &mut Vec<u8>) {
            while v >= 0x80 {
                out.push((v as u8) | 0x80);
                v >>= 7;
            }
            out.push(v as u8);
        }
        let cfg = Cfg { flush_on_close: true, block_size: 512, index_partition_size: 128, compression: vec![], cache: 0, max_memtable_size: 4 << 20, ..base_cfg() };
        let n = 2000u32;
        let t = cfg.open(&dir).map_err(|e| e.to_string())?;
        for chunk in (0..n).collect::<Vec<_>>().chunks(200) {
            let mut tx = t.begin_with_mode(Mode::WriteOnly).map_err(|e| e.to_string())?;
            for i in chunk {
                tx.set(format!("key-{i:06}").as_bytes(), format!("value-{i:06}-{}", "x".repeat(40)).as_bytes()).map_err(|e| e.to_string())?;
            }
            tx.commit().await.map_err(|e| e.to_string())?;
        }
        close(t).await;
        let mut ssts: Vec<_> = std::fs::read_dir(dir.join("sstables")).map_err(|e| e.to_string())?.flatten().map(|e| e.path()).filter(|p| p.extension().map(|x| x == "sst").unwrap_or(false)).collect();
        if ssts.len() != 1 {
            return Err(format!("harness: expected one table file, found {}", ssts.len()));
        }
        let sst = ssts.pop().unwrap();
        let mut bytes = std::fs::read(&sst).map_err(|e| e.to_string())?;
        let lay = "harness: footer / index layout not understood";
        let f = bytes.len() - 50;
        let mut p = f + 2;
        for _ in 0..2 {
            p += get_varint(&bytes[p..]).ok_or(lay)?.1;
        }
        let (top_off, n1) = get_varint(&bytes[p..]).ok_or(lay)?;
        // first entry of the top-level index block: shared, non_shared, value_len, key, value = handle of partition 1
        let b = &bytes[top_off as usize..];
        let (shared, a0) = get_varint(b).ok_or(lay)?;
        let (klen, a1) = get_varint(&b[a0..]).ok_or(lay)?;
        let (vlen, a2) = get_varint(&b[a0 + a1..]).ok_or(lay)?;
        if shared != 0 {
            return Err(lay.into());
        }
        let v = &b[a0 + a1 + a2 + klen as usize..][..vlen as usize];
        let (p1_off, m) = get_varint(v).ok_or(lay)?;
        let (p1_size, _) = get_varint(&v[m..]).ok_or(lay)?;
        let _ = n1;
        let mut enc = vec![];
        put_varint(p1_off, &mut enc);
        put_varint(p1_size, &mut enc);
        if p + enc.len() > f + 42 || p1_off >= top_off {
            return Err(lay.into());
        }
        bytes[p..f + 42].fill(0);
        bytes[p..p + enc.len()].copy_from_slice(&enc);
        std::fs::write(&sst, &bytes).map_err(|e| e.to_string())?;
        let t = match cfg.open(&dir) {
            Ok(t) => t,
            Err(_) => return Ok(()), // detected at open
        };
        let (mut absent, mut wrong, mut errors, mut ok) = (0, 0, 0, 0);
        for i in 0..n {
            let want = format!("value-{i:06}-{}", "x".repeat(40)).into_bytes();
            match get1(&t, format!("key-{i:06}").as_bytes()) {
                Err(_) => errors += 1,
                Ok(Some(v)) if v == want => ok += 1,
                Ok(Some(_)) => wrong += 1,
                Ok(None) => absent += 1,
            }
        }
        close(t).await;
        if absent > 0 || wrong > 0 {
            return Err(format!(
                "2000 keys in one table; the index handle in the table's footer (50 bytes that no checksum covers) rewritten to name the first index partition block - a valid, checksummed block of the same file - instead of the top-level index: the store opens; of 2000 committed keys {absent} are reported absent and {wrong} return a wrong value ({errors} errors, {ok} correct)"
            ));
        }
        Ok(())
    })
}

fn c16_filter_block_unchecked(dir: PathBuf) -> ScenFut<'static> {
    Box::pin(async move {
        use surrealkv::verif::{verif_table_write, VerifEntry, VerifTableHandle};
        std::fs::create_dir_all(&dir).map_err(|e| e.to_string())?;
        let cfg = Cfg { bloom: true, block_size: 4096, ..base_cfg() };
        let opts = cfg.to_options(&dir);
        let entries: Vec<VerifEntry> = (0..24).map(|i| VerifEntry { user_key: format!("key{:03}", i).into_bytes(), seq: 100 + i as u64, kind: 2, ts: 0, value: format!("value-{i}").into_bytes() }).collect();
        let path = dir.join("t.sst");
        verif_table_write(&path, 3, &opts, 0, &entries).map_err(|e| e.to_string())?;
        let pristine = std::fs::read(&path).map_err(|e| e.to_string())?;
        let alt = dir.join("alt.sst");
        for at in 0..pristine.len() {
            let mut b = pristine.clone();
            b[at] ^= 0xff;
            std::fs::write(&alt, &b).map_err(|e| e.to_string())?;
            let res = std::panic::catch_unwind(std::panic::AssertUnwindSafe(|| -> Result<(), String> {
                let Ok(t) = VerifTableHandle::open(&alt, 3, &opts) else { return Ok(()) };
                for e in &entries {
                    match t.get(&e.user_key, u64::MAX >> 8) {
                        Err(_) => {}
                        Ok(Some(g)) if g == *e => {}
                        Ok(other) => return Err(format!("byte {} of a {}-byte table file altered: get({}) returns {} instead of the stored entry or an error", at, pristine.len(), String::from_utf8_lossy(&e.user_key), if other.is_some() { "another entry" } else { "nothing" })),
                    }
                }
                Ok(())
            }));
            match res {
                Ok(Ok(())) => {}
                Ok(Err(e)) => return Err(e),
                Err(_) => return Err(format!("byte {} of a {}-byte table file altered: reading it panicked: {}", at, pristine.len(), crate::panics::take_last())),
            }
        }
        Ok(())
    })
}

fn c15_failed_commit_record_stays_in_log(dir: PathBuf) -> ScenFut<'static> {
    Box::pin(async move {
        // a transaction that cannot fit any memtable: its record reaches the commit log, the
        // apply step fails, commit() returns an error
        let cfg = Cfg { max_memtable_size: 16 * 1024, ..base_cfg() };
        let t = cfg.open(&dir).map_err(|e| e.to_string())?;
        put(&t, &[(b"a", b"1")]).await?;
        let big = vec![0x42u8; 64 * 1024];
        let r = put(&t, &[(b"big", &big[..]), (b"a", b"overwritten-by-failed-commit")]).await;
        let live_a = get1(&t, b"a")?;
        let live_big = get1(&t, b"big")?;
        let after = put(&t, &[(b"b", b"2")]).await;
        close(t).await;
        if r.is_ok() {
            return Err("harness: the oversized transaction was accepted (scenario needs a failing commit)".into());
        }
        if live_a.as_deref() != Some(&b"1"[..]) || live_big.is_some() {
            return Err(format!("commit returned an error ({}), yet a reader begun afterwards sees its writes (a = {:?}, big present: {})", r.unwrap_err(), live_a.map(|v| String::from_utf8_lossy(&v).to_string()), live_big.is_some()));
        }
        let t = match cfg.open(&dir) {
            Ok(t) => t,
            Err(e) => return Err(format!("a commit failed in its apply step ({}); the store was closed; reopen fails: {e}", r.unwrap_err())),
        };
        let a = get1(&t, b"a")?;
        let big_now = get1(&t, b"big")?;
        let b = get1(&t, b"b")?;
        close(t).await;
        if a.as_deref() != Some(&b"1"[..]) || big_now.is_some() {
            return Err(format!(
                "commit() of a transaction returned an error ({}) after its record had reached the commit log; after close + reopen the failed transaction is there: a = {:?}, big present: {} (later commit b {} and is {} after reopen)",
                r.unwrap_err(),
                a.map(|v| String::from_utf8_lossy(&v).to_string()),
                big_now.is_some(),
                if after.is_ok() { "was acknowledged" } else { "failed" },
                if b.is_some() { "present" } else { "absent" }
            ));
        }
        if after.is_ok() && b.as_deref() != Some(&b"2"[..]) {
            return Err("a commit acknowledged after the failed one is missing after reopen".into());
        }
        Ok(())
    })
}

/// Two-entry transactions whose size walks across "just fits / just does not fit an empty
/// memtable": whatever commit() answers, the transaction is there entirely (answer Ok) or not
/// at all (answer Err) - for a reader begun afterwards and after close + reopen.
fn c15_sizes_around_a_memtable(dir: PathBuf) -> ScenFut<'static> {
    Box::pin(async move {
        let cap = 64 * 1024usize;
        let mut accepted = 0;
        let mut refused = 0;
        // coarse steps towards the boundary, single bytes across it (what fits depends on the
        // node overhead and on the two bytes the commit path adds to every value)
        // is a {30-byte, vlen-byte} transaction accepted? (separate probe stores; used to find
        // the boundary, which depends on node sizes the harness does not know)
        let mut first_refused = None;
        for vlen in (cap - 1500..cap + 120).step_by(25) {
            let d = dir.join("probe");
            let _ = std::fs::remove_dir_all(&d);
            let t = Cfg { max_memtable_size: cap, ..base_cfg() }.open(&d).map_err(|e| e.to_string())?;
            let big = vec![0x37u8; vlen];
            let r = put(&t, &[(b"a_small", b"first-entry-of-the-transaction"), (b"k_big", &big[..])]).await;
            close(t).await;
            if r.is_err() {
                first_refused = Some(vlen);
                break;
            }
        }
        let _ = std::fs::remove_dir_all(dir.join("probe"));
        let edge = first_refused.ok_or("harness: no transaction size up to the memtable size was refused")?;
        // coarse steps far from the boundary, single bytes across it (what fits depends on the
        // node overhead and on the bytes the commit path adds to every value)
        let lens: Vec<usize> = (cap - 1500..edge - 40).step_by(97).chain(edge - 40..edge + 12).chain((edge + 12..cap + 120).step_by(61)).collect();
        for (i, vlen) in lens.into_iter().enumerate() {
            let d = dir.join(format!("s{i}"));
            let cfg = Cfg { max_memtable_size: cap, ..base_cfg() };
            let t = cfg.open(&d).map_err(|e| e.to_string())?;
            put(&t, &[(b"base", b"0")]).await?;
            let big = vec![0x37u8; vlen];
            // begun before the big transaction: if that one fails, this one may write its keys
            let mut old = t.begin().map_err(|e| e.to_string())?;
            let r = put(&t, &[(b"a_small", b"first-entry-of-the-transaction"), (b"k_big", &big[..])]).await;
            let small = get1(&t, b"a_small")?;
            let bigv = get1(&t, b"k_big")?;
            let mut stale_committed = false;
            if let Err(e) = &r {
                old.set(b"a_small", b"written-by-the-older-transaction").map_err(|e| e.to_string())?;
                match old.commit().await {
                    Ok(()) => stale_committed = true,
                    Err(e2) => {
                        close(t).await;
                        return Err(format!("memtable of {cap} bytes, transaction {{a_small, k_big of {vlen} bytes}}: commit() returned an error ({e}); a transaction begun before it then wrote a_small and was refused: {e2} (no commit had succeeded in between)"));
                    }
                }
            } else {
                drop(old);
            }
            let after = put(&t, &[(b"later", b"x")]).await;
            close(t).await;
            let t = cfg.open(&d).map_err(|e| format!("reopen after a transaction of {vlen} value bytes (memtable {cap}): {e}"))?;
            let small2 = get1(&t, b"a_small")?;
            let big2 = get1(&t, b"k_big")?;
            let later2 = get1(&t, b"later")?;
            close(t).await;
            let _ = std::fs::remove_dir_all(&d);
            let whole = |s: &Option<Vec<u8>>, b: &Option<Vec<u8>>| s.as_deref() == Some(&b"first-entry-of-the-transaction"[..]) && b.as_deref() == Some(&big[..]);
            let none = |s: &Option<Vec<u8>>, b: &Option<Vec<u8>>| s.is_none() && b.is_none();
            match &r {
                Ok(()) => {
                    accepted += 1;
                    if !whole(&small, &bigv) || !whole(&small2, &big2) {
                        return Err(format!("memtable of {cap} bytes, transaction {{a_small, k_big of {vlen} bytes}}: commit() returned Ok, but a_small present: {}/{} (now/after reopen), k_big intact: {}/{}", small.is_some(), small2.is_some(), bigv.as_deref() == Some(&big[..]), big2.as_deref() == Some(&big[..])));
                    }
                }
                Err(e) => {
                    refused += 1;
                    if !none(&small, &bigv) {
                        return Err(format!("memtable of {cap} bytes, transaction {{a_small, k_big of {vlen} bytes}}: commit() returned an error ({e}), yet a reader begun afterwards sees part of it: a_small present: {}, k_big present: {}", small.is_some(), bigv.is_some()));
                    }
                    if big2.is_some() || (stale_committed && small2.as_deref() != Some(&b"written-by-the-older-transaction"[..])) {
                        return Err(format!("memtable of {cap} bytes, transaction {{a_small, k_big of {vlen} bytes}}: commit() returned an error ({e}), then an older transaction set a_small; after close + reopen a_small = {:?}, k_big present: {}", small2.map(|v| String::from_utf8_lossy(&v).to_string()), big2.is_some()));
                    }
                }
            }
            match after {
                Ok(()) if later2.as_deref() != Some(&b"x"[..]) => {
                    return Err(format!("commit acknowledged after a transaction of {vlen} value bytes ({}) is missing after reopen", if r.is_ok() { "accepted" } else { "refused" }));
                }
                Err(e) => return Err(format!("after a transaction of {vlen} value bytes ({}) the next small commit fails: {e}", if r.is_ok() { "accepted" } else { "refused" })),
                _ => {}
            }
        }
        if accepted == 0 || refused == 0 {
            return Err(format!("harness: the size walk did not cross the boundary (accepted {accepted}, refused {refused})"));
        }
        Ok(())
    })
}

/// Many keys x 3 versions, flushed and reopened, both back-ends: the version index spans many
/// leaf pages, so seeks land on every position of a leaf, also its first and last entry.
fn c10_wide_version_index(dir: PathBuf) -> ScenFut<'static> {
    Box::pin(async move {
        for index in [true, false] {
            let d = dir.join(if index { "index" } else { "lsm" });
            let cfg = Cfg { max_memtable_size: 4 << 20, ..ver_cfg(index) };
            let t = cfg.open(&d).map_err(|e| e.to_string())?;
            let n = 420usize;
            for ts in [10u64, 20, 30] {
                // several keys per transaction to keep the scenario short
                for chunk in (0..n).collect::<Vec<_>>().chunks(60) {
                    let mut tx = t.begin_with_mode(Mode::WriteOnly).map_err(|e| e.to_string())?;
                    for i in chunk {
                        tx.set_at(format!("key{:04}", i).as_bytes(), format!("key{:04}@{}", i, ts).as_bytes(), ts).map_err(|e| e.to_string())?;
                    }
                    tx.commit().await.map_err(|e| e.to_string())?;
                }
            }
            t.verif_flush().map_err(|e| e.to_string())?;
            close(t).await;
            let t = cfg.open(&d).map_err(|e| format!("reopen: {e}"))?;
            for i in 0..n {
                let k = format!("key{:04}", i).into_bytes();
                for (at, exp) in [(5u64, None), (10, Some(10u64)), (25, Some(20)), (99, Some(30))] {
                    let got = get_at(&t, &k, at).await?;
                    let want = exp.map(|e| format!("key{:04}@{}", i, e).into_bytes());
                    if got != want {
                        close(t).await;
                        return Err(format!(
                            "{} keys x versions at timestamps 10/20/30, flushed, reopened, version index {}: get_at(key{:04}, {}) = {:?}, expected {:?}",
                            n,
                            if index { "on" } else { "off" },
                            i,
                            at,
                            got.map(|v| String::from_utf8_lossy(&v).to_string()),
                            want.map(|v| String::from_utf8_lossy(&v).to_string())
                        ));
                    }
                }
                if i % 7 == 0 {
                    let mut hi = k.clone();
                    hi.push(0);
                    let h = hist_list(&t, &k, &hi, false, false, None)?;
                    let hb = hist_list(&t, &k, &hi, true, false, None)?;
                    let want: Vec<(Vec<u8>, u64)> = vec![(k.clone(), 30), (k.clone(), 20), (k.clone(), 10)];
                    let mut wb = want.clone();
                    wb.reverse();
                    if h != want || hb != wb {
                        close(t).await;
                        return Err(format!("version index {}: history of key{:04} lists {:?} forward / {:?} backward, expected timestamps 30, 20, 10", if index { "on" } else { "off" }, i, h.iter().map(|x| x.1).collect::<Vec<_>>(), hb.iter().map(|x| x.1).collect::<Vec<_>>()));
                    }
                }
            }
            // range history starting at every 13th key
            for i in (0..n).step_by(13) {
                let lo = format!("key{:04}", i).into_bytes();
                let h = hist_list(&t, &lo, b"key9999", false, false, None)?;
                if h.len() != (n - i) * 3 || h.first().map(|x| x.0.clone()) != Some(lo.clone()) {
                    close(t).await;
                    return Err(format!("version index {}: history from key{:04} to the end lists {} versions starting at {:?}, expected {} starting at that key", if index { "on" } else { "off" }, i, h.len(), h.first().map(|x| String::from_utf8_lossy(&x.0).to_string()), (n - i) * 3));
                }
            }
            close(t).await;
        }
        Ok(())
    })
}

/// The version index grows over several sessions: every session flushes a few hundred versions
/// (leaf splits, new pages), closes and reopens.
fn c07_version_index_grows_across_reopens(dir: PathBuf) -> ScenFut<'static> {
    Box::pin(async move {
        for index in [true, false] {
            let d = dir.join(if index { "index" } else { "lsm" });
            let cfg = Cfg { max_memtable_size: 4 << 20, ..ver_cfg(index) };
            let n = 150usize;
            for session in 0..4u64 {
                let t = cfg.open(&d).map_err(|e| format!("version index {}: open of session {session} fails: {e}", if index { "on" } else { "off" }))?;
                // two new versions of every key in this session
                for v in 0..2u64 {
                    let ts = 10 + session * 20 + v * 10;
                    for chunk in (0..n).collect::<Vec<_>>().chunks(50) {
                        let mut tx = t.begin_with_mode(Mode::WriteOnly).map_err(|e| e.to_string())?;
                        for i in chunk {
                            tx.set_at(format!("key{:04}", i).as_bytes(), format!("key{:04}@{}-{}", i, ts, "v".repeat(40)).as_bytes(), ts).map_err(|e| e.to_string())?;
                        }
                        tx.commit().await.map_err(|e| e.to_string())?;
                    }
                    t.verif_flush().map_err(|e| format!("flush in session {session}: {e}"))?;
                }
                // everything written so far, in this and in earlier sessions
                for i in (0..n).step_by(7) {
                    let k = format!("key{:04}", i).into_bytes();
                    for s2 in 0..=session {
                        for v in 0..2u64 {
                            let ts = 10 + s2 * 20 + v * 10;
                            let got = get_at(&t, &k, ts + 5).await.map_err(|e| format!("version index {}: session {session}: get_at(key{:04}, {}) fails: {e}", if index { "on" } else { "off" }, i, ts + 5))?;
                            let want = format!("key{:04}@{}-{}", i, ts, "v".repeat(40)).into_bytes();
                            if got.as_deref() != Some(&want[..]) {
                                close(t).await;
                                return Err(format!(
                                    "version index {}: {} keys get two flushed versions per session, with a close and reopen between sessions; in session {session}, get_at(key{:04}, {}) = {:?}, expected the version written at {} in session {s2}",
                                    if index { "on" } else { "off" },
                                    n,
                                    i,
                                    ts + 5,
                                    got.map(|v| String::from_utf8_lossy(&v[..v.len().min(16)]).to_string()),
                                    ts
                                ));
                            }
                        }
                    }
                }
                close(t).await;
            }
            let _ = std::fs::remove_dir_all(&d);
        }
        Ok(())
    })
}

fn c07_crash_during_wal_repair(dir: PathBuf) -> ScenFut<'static> {
    Box::pin(async move {
        let cfg = base_cfg();
        let t = cfg.open(&dir).map_err(|e| e.to_string())?;
        put(&t, &[(b"a", b"1")]).await?;
        put(&t, &[(b"b", b"2")]).await?;
        put(&t, &[(b"c", b"3")]).await?;
        close(t).await;
        let wal = dir.join("wal");
        let seg = std::fs::read_dir(&wal).map_err(|e| e.to_string())?.flatten().map(|e| e.path()).find(|p| p.extension().map(|x| x == "wal").unwrap_or(false)).ok_or("no segment")?;
        let mut bytes = std::fs::read(&seg).map_err(|e| e.to_string())?;
        let n = bytes.len();
        bytes[n - 2] ^= 0xff; // damage inside the last record: recovery will repair the segment
        std::fs::write(&seg, &bytes).map_err(|e| e.to_string())?;
        // what a repair interrupted by a crash leaves behind: its directory with a partial file
        let rt = wal.join("repair_temp");
        std::fs::create_dir_all(&rt).map_err(|e| e.to_string())?;
        // ... cut inside the payload of its second record (power loss while the repair wrote it)
        let pristine_ends: Vec<u64> = {
            let mut good = bytes.clone();
            good[n - 2] ^= 0xff;
            let tmp = dir.join("pristine.tmp");
            std::fs::write(&tmp, &good).map_err(|e| e.to_string())?;
            let ends = surrealkv::verif::verif_wal_read_segment(&tmp).map(|(r, _)| r.into_iter().map(|x| x.1).collect()).unwrap_or_default();
            let _ = std::fs::remove_file(&tmp);
            ends
        };
        let cut = pristine_ends.first().map(|e| *e as usize + 7 + 3).unwrap_or(n / 3).min(n - 1);
        std::fs::write(rt.join("00000000000000000000.wal"), &bytes[..cut]).map_err(|e| e.to_string())?;
        let t = match cfg.open(&dir) {
            Ok(t) => t,
            Err(e) => return Err(format!("three commits; the last record damaged; a repair interrupted by a crash left wal/repair_temp with a partial file; open fails: {e}")),
        };
        let a = get1(&t, b"a")?;
        let b = get1(&t, b"b")?;
        let r = put(&t, &[(b"d", b"4")]).await;
        close(t).await;
        if a.as_deref() != Some(&b"1"[..]) || b.as_deref() != Some(&b"2"[..]) {
            return Err(format!("after the second repair the commits before the damage are not all there (a present: {}, b present: {})", a.is_some(), b.is_some()));
        }
        r.map_err(|e| format!("commit after recovery failed: {e}"))?;
        let t = cfg.open(&dir).map_err(|e| format!("reopen after recovery + commit failed: {e}"))?;
        let d = get1(&t, b"d")?;
        close(t).await;
        if d.as_deref() != Some(&b"4"[..]) {
            return Err("the commit made after recovery is gone after another reopen".into());
        }
        Ok(())
    })
}

/// The flush task has looked at the queue for the last time and is about to go idle; a memtable
/// is rotated in exactly then and the task is woken the way the store does it.
fn c17_wakeup_lost_before_idle(dir: PathBuf) -> ScenFut<'static> {
    Box::pin(async move {
        let res = std::thread::spawn(move || -> Result<(), String> {
            let rt = tokio::runtime::Builder::new_multi_thread().worker_threads(4).enable_all().build().map_err(|e| e.to_string())?;
            rt.block_on(async move {
                surrealkv::verif::set_manual_background(false);
                let cfg = Cfg { memtable_stall: 2, ..base_cfg() };
                let t = std::sync::Arc::new(cfg.open(&dir).map_err(|e| e.to_string())?);
                let ctl = crate::e3::ctl();
                ctl.reset();
                let gate = ctl.arm_gate("task.flush.before_idle");
                put(&t, &[(b"a", b"1")]).await?;
                t.verif_rotate().map_err(|e| e.to_string())?;
                t.verif_wake_background_like_the_store();
                let g2 = gate.clone();
                if !tokio::task::spawn_blocking(move || g2.wait_parked(5000)).await.unwrap_or(false) {
                    gate.release();
                    ctl.reset();
                    surrealkv::verif::set_manual_background(true);
                    return Err("harness: the flush task never reached task.flush.before_idle".into());
                }
                // the task is parked after its last look at the queue: a new immutable memtable appears
                put(&t, &[(b"b", b"2")]).await?;
                t.verif_rotate().map_err(|e| e.to_string())?;
                t.verif_wake_background_like_the_store();
                gate.release();
                // bounded progress: the pending memtable must get flushed without any further wake-up
                let mut left = usize::MAX;
                for _ in 0..400 {
                    tokio::time::sleep(std::time::Duration::from_millis(10)).await;
                    left = t.verif_layout().map(|l| l.immutables).unwrap_or(usize::MAX);
                    if left == 0 {
                        break;
                    }
                }
                ctl.reset();
                surrealkv::verif::set_manual_background(true);
                if let Ok(t) = std::sync::Arc::try_unwrap(t) {
                    close(t).await;
                }
                if left != 0 {
                    return Err(format!(
                        "the flush task was at task.flush.before_idle (after its last look at the queue, still marked running) when a memtable was rotated in and the task was woken the way the store does it; 4 s later {} immutable memtable(s) are still unflushed and the task is idle: with a write-stall limit of {} the next writers wait forever",
                        left, 2
                    ));
                }
                Ok(())
            })
        })
        .join()
        .map_err(|_| "scenario thread panicked".to_string())?;
        res
    })
}

/// Eight concurrent writers, each committing values of a good half of a memtable under keys
/// of its own; the store's own background tasks are running.
fn c04_disjoint_writers_refused(dir: PathBuf) -> ScenFut<'static> {
    Box::pin(async move {
        let res = std::thread::spawn(move || -> Result<(), String> {
            let rt = tokio::runtime::Builder::new_multi_thread().worker_threads(8).enable_all().build().map_err(|e| e.to_string())?;
            surrealkv::verif::set_manual_background(false);
            let r = rt.block_on(async move {
                let cfg = Cfg { max_memtable_size: 64 * 1024, memtable_stall: 100_000, l0_stall: 100_000, l0_max_files: 4, level_count: 3, max_bytes_for_level: 1 << 22, ..base_cfg() };
                let t = std::sync::Arc::new(cfg.open(&dir).map_err(|e| e.to_string())?);
                let failed = std::sync::Arc::new(std::sync::Mutex::new(Vec::<(String, String)>::new()));
                let mut hs = vec![];
                for w in 0..8u8 {
                    let (t, failed) = (t.clone(), failed.clone());
                    hs.push(tokio::spawn(async move {
                        for i in 0..60u32 {
                            let key = format!("w{w}-{i:03}");
                            if let Err(e) = put(&t, &[(key.as_bytes(), &vec![w; 36 * 1024][..])]).await {
                                failed.lock().unwrap().push((key, e));
                            }
                        }
                    }));
                }
                for h in hs {
                    let _ = h.await;
                }
                let failed = failed.lock().unwrap().clone();
                if let Ok(t) = std::sync::Arc::try_unwrap(t) {
                    close(t).await;
                }
                if let Some((k, e)) = failed.first() {
                    return Err(format!(
                        "8 writers, each committing 36 KiB values under keys of its own (memtable 64 KiB, no key shared, no conflict possible): {} of 480 commits were refused, the first one ({k}) with: {e} - the apply step, which runs outside the commit lock, retried only once after rotating the memtable and found the fresh one filled by another committer",
                        failed.len()
                    ));
                }
                Ok(())
            });
            surrealkv::verif::set_manual_background(true);
            r
        })
        .join()
        .map_err(|_| "scenario thread panicked".to_string())?;
        res
    })
}

fn c04_rollback_forgets_earlier_committer(dir: PathBuf) -> ScenFut<'static> {
    Box::pin(async move {
        // the failing transaction writes k once, or several times (its batch then carries the
        // key more than once: writes before and after a savepoint), alone or next to other keys
        for shape in ["k once", "k before and after a savepoint", "k three times across two savepoints, and another key", "another key, then k before and after a savepoint"] {
            let cfg = Cfg { max_memtable_size: 16 * 1024, ..base_cfg() };
            let d = dir.join(shape.replace([' ', ','], "_"));
            let t = cfg.open(&d).map_err(|e| e.to_string())?;
            // T2 begins first (it will write k at the very end)
            let mut t2 = t.begin().map_err(|e| e.to_string())?;
            let seen = t2.get(&b"k"[..]).map_err(|e| e.to_string())?;
            // T1 commits k after T2 began
            put(&t, &[(b"k", b"v1")]).await?;
            // T3 begins after T1, writes k with a value that passes the conflict check but
            // cannot be applied (it does not fit a memtable): its commit fails after its keys
            // were entered in the conflict map
            let big = vec![0x33u8; 16_000];
            let mut t3 = t.begin().map_err(|e| e.to_string())?;
            let e = |e: surrealkv::Error| e.to_string();
            match shape {
                "k once" => t3.set(&b"k"[..], &big[..]).map_err(e)?,
                "k before and after a savepoint" => {
                    t3.set(&b"k"[..], &b"first"[..]).map_err(e)?;
                    t3.set_savepoint().map_err(e)?;
                    t3.set(&b"k"[..], &big[..]).map_err(e)?;
                }
                "k three times across two savepoints, and another key" => {
                    t3.set(&b"k"[..], &b"first"[..]).map_err(e)?;
                    t3.set_savepoint().map_err(e)?;
                    t3.set(&b"k"[..], &b"second"[..]).map_err(e)?;
                    t3.set(&b"other"[..], &b"o"[..]).map_err(e)?;
                    t3.set_savepoint().map_err(e)?;
                    t3.set(&b"k"[..], &big[..]).map_err(e)?;
                }
                _ => {
                    t3.set(&b"other"[..], &big[..]).map_err(e)?;
                    t3.set(&b"k"[..], &b"first"[..]).map_err(e)?;
                    t3.set_savepoint().map_err(e)?;
                    t3.set(&b"k"[..], &b"second"[..]).map_err(e)?;
                }
            }
            let r3 = t3.commit().await;
            drop(t3);
            // T2, which never saw T1's commit, now writes k
            t2.set(&b"k"[..], &b"v2"[..]).map_err(|e| e.to_string())?;
            let r2 = t2.commit().await;
            drop(t2);
            let fin = get1(&t, b"k")?;
            close(t).await;
            let _ = std::fs::remove_dir_all(&d);
            if r3.is_ok() {
                return Err("harness: the transaction that should fail after the conflict check was accepted".into());
            }
            match r2 {
                Err(surrealkv::Error::TransactionWriteConflict) | Err(surrealkv::Error::TransactionRetry) => {}
                Err(e) => return Err(format!("commit of the overlapping writer failed with an unexpected error: {e}")),
                Ok(()) => {
                    return Err(format!(
                        "T2 begins (reads k = {:?}); T1 commits k=v1; T3 (begun after T1) writes {} and its commit fails ({}), rolling back its conflict-map entries; T2 then writes k and commits successfully although T1 committed k after T2 began: T1's update is lost (k = {:?})",
                        seen.map(|v| String::from_utf8_lossy(&v).to_string()),
                        shape,
                        r3.unwrap_err(),
                        fin.map(|v| String::from_utf8_lossy(&v[..v.len().min(8)]).to_string())
                    ))
                }
            }
        }
        Ok(())
    })
}

/// A transaction begun before a restore commits after it, on a key that a transaction begun
/// after the restore has committed in the meantime.
fn c04_writer_begun_before_restore(dir: PathBuf) -> ScenFut<'static> {
    Box::pin(async move {
        let t = base_cfg().open(&dir).map_err(|e| e.to_string())?;
        let ck = dir.with_extension("ckpt");
        let _ = std::fs::remove_dir_all(&ck);
        put(&t, &[(b"counter", b"0")]).await?;
        t.create_checkpoint(&ck).map_err(|e| e.to_string())?;
        // the timeline that the restore discards: a few commits, so that sequence numbers go on
        for i in 0..6u8 {
            put(&t, &[(b"filler", &[b'0' + i][..])]).await?;
        }
        // T0 begins before the restore and reads the counter
        let mut t0 = t.begin().map_err(|e| e.to_string())?;
        let seen0 = t0.get(&b"counter"[..]).map_err(|e| e.to_string())?;
        t.restore_from_checkpoint(&ck).map_err(|e| format!("restore: {e}"))?;
        // T1 begins after the restore, increments the counter and commits
        let mut t1 = t.begin().map_err(|e| e.to_string())?;
        let seen1 = t1.get(&b"counter"[..]).map_err(|e| e.to_string())?;
        t1.set(&b"counter"[..], &b"1"[..]).map_err(|e| e.to_string())?;
        t1.commit().await.map_err(|e| format!("T1 (begun after the restore) was refused: {e}"))?;
        // T0 increments what it read and commits
        t0.set(&b"counter"[..], &b"1-from-t0"[..]).map_err(|e| e.to_string())?;
        let r0 = t0.commit().await;
        drop(t0);
        let fin = get1(&t, b"counter")?;
        close(t).await;
        let _ = std::fs::remove_dir_all(&ck);
        match r0 {
            Err(surrealkv::Error::TransactionWriteConflict) | Err(surrealkv::Error::TransactionRetry) => Ok(()),
            Err(e) => Err(format!("commit of the transaction begun before the restore failed with an unexpected error: {e}")),
            Ok(()) => Err(format!(
                "T0 begins and reads counter = {:?}; the store is restored to an earlier checkpoint; T1 begins, reads counter = {:?}, writes it and commits; T0 then writes counter and commits successfully: both overlapping writers of the key committed, T1's update is lost (counter = {:?}). T0's horizon lies above the restored sequence number, so neither the retry rule (horizon below the restored sequence number) nor the conflict check (T1's stamp is below T0's horizon) refuses it",
                seen0.map(|v| String::from_utf8_lossy(&v).to_string()),
                seen1.map(|v| String::from_utf8_lossy(&v).to_string()),
                fin.map(|v| String::from_utf8_lossy(&v).to_string())
            )),
        }
    })
}

fn c15_failed_apply_poisons_memtable(dir: PathBuf) -> ScenFut<'static> {
    Box::pin(async move {
        let cfg = Cfg { max_memtable_size: 16 * 1024, ..base_cfg() };
        let t = cfg.open(&dir).map_err(|e| e.to_string())?;
        // fits the size check (payload below the memtable size) but not the arena: the apply
        // step of an otherwise empty memtable fails
        let big = vec![0x44u8; 16_000];
        let r = put(&t, &[(b"big", &big[..])]).await;
        let mut later = vec![];
        for i in 0..3 {
            later.push(put(&t, &[(format!("k{i}").as_bytes(), b"v")]).await);
        }
        let seen = get1(&t, b"k2")?;
        close(t).await;
        if r.is_ok() {
            return Err("harness: the transaction that should fail in its apply step was accepted".into());
        }
        if let Some(Err(e)) = later.iter().find(|x| x.is_err()) {
            return Err(format!("a commit failed in its apply step ({}); every commit after it fails too: {} (the empty memtable with its used-up arena is never replaced)", r.unwrap_err(), e));
        }
        if seen.as_deref() != Some(&b"v"[..]) {
            return Err("a commit acknowledged after the failed one is not readable".into());
        }
        Ok(())
    })
}

/// One commit is held between its WAL write and its apply; behind it, commits that fail in their
/// apply step return at once - more of them than the commit queue has slots.
fn c17_failed_commits_fill_queue(dir: PathBuf) -> ScenFut<'static> {
    Box::pin(async move {
        let res = std::thread::spawn(move || -> Result<(), String> {
            let rt = tokio::runtime::Builder::new_multi_thread().worker_threads(4).enable_all().build().map_err(|e| e.to_string())?;
            rt.block_on(async move {
                let cfg = Cfg { max_memtable_size: 16 * 1024, ..base_cfg() };
                let t = std::sync::Arc::new(cfg.open(&dir).map_err(|e| e.to_string())?);
                put(&t, &[(b"a", b"1")]).await?;
                crate::panics::install();
                let _ = crate::panics::drain_all();
                let ctl = crate::e3::ctl();
                ctl.reset();
                let gate = ctl.arm_gate("commit.after_wal");
                let tp = t.clone();
                let held = tokio::spawn(async move { put(&tp, &[(b"held", b"x")]).await });
                let g2 = gate.clone();
                if !tokio::task::spawn_blocking(move || g2.wait_parked(5000)).await.unwrap_or(false) {
                    gate.release();
                    let _ = held.await;
                    ctl.reset();
                    return Err("harness: no commit reached commit.after_wal".into());
                }
                let big = vec![0x55u8; 16_000];
                let mut outcomes = vec![];
                for i in 0..12 {
                    let tf = t.clone();
                    let b = big.clone();
                    let h = tokio::spawn(async move { put(&tf, &[(format!("f{i}").as_bytes(), &b[..])]).await });
                    // each of them must return (with an error) while the first commit is still held
                    match tokio::time::timeout(std::time::Duration::from_millis(400), h).await {
                        Ok(Ok(r)) => outcomes.push(if r.is_ok() { "ok".to_string() } else { "error".to_string() }),
                        Ok(Err(e)) => outcomes.push(if e.is_panic() { "PANIC".to_string() } else { "cancelled".to_string() }),
                        Err(_) => {
                            outcomes.push("waiting".to_string());
                            break;
                        }
                    }
                }
                gate.release();
                let held_result = tokio::time::timeout(std::time::Duration::from_secs(10), held).await;
                ctl.reset();
                let panics = crate::panics::drain_all();
                let after = put(&t, &[(b"z", b"9")]).await;
                if let Ok(t) = std::sync::Arc::try_unwrap(t) {
                    close(t).await;
                }
                if !panics.is_empty() || outcomes.iter().any(|o| o == "PANIC") {
                    return Err(format!(
                        "one commit held between WAL write and apply; behind it commits that fail in their apply step return at once and leave their batches queued: outcomes {:?}; panics: {:?}",
                        outcomes,
                        panics.iter().take(2).collect::<Vec<_>>()
                    ));
                }
                match held_result {
                    Ok(Ok(Ok(()))) => {}
                    other => return Err(format!("the held commit did not complete normally after its release: {:?} (outcomes of the failing commits: {:?})", other.map(|r| r.map(|x| x.is_ok())), outcomes)),
                }
                after.map_err(|e| format!("a commit after the episode failed: {e}"))
            })
        })
        .join()
        .map_err(|_| "scenario thread panicked".to_string())?;
        res
    })
}

fn c17_cancelled_commits_overflow_queue(dir: PathBuf) -> ScenFut<'static> {
    Box::pin(async move {
        let res = std::thread::spawn(move || -> Result<(), String> {
            let rt = tokio::runtime::Builder::new_multi_thread().worker_threads(4).enable_all().build().map_err(|e| e.to_string())?;
            rt.block_on(async move {
                let t = std::sync::Arc::new(base_cfg().open(&dir).map_err(|e| e.to_string())?);
                put(&t, &[(b"a", b"1")]).await?;
                crate::panics::install();
                let _ = crate::panics::drain_all();
                let ctl = crate::e3::ctl();
                ctl.reset();
                let gate = ctl.arm_gate("commit.after_wal");
                let tp = t.clone();
                let held = tokio::spawn(async move { put(&tp, &[(b"held", b"x")]).await });
                let g2 = gate.clone();
                if !tokio::task::spawn_blocking(move || g2.wait_parked(5000)).await.unwrap_or(false) {
                    gate.release();
                    let _ = held.await;
                    ctl.reset();
                    return Err("harness: no commit reached commit.after_wal".into());
                }
                // callers that give up waiting: their commit() futures are dropped while the
                // batches sit in the queue behind the held one
                let mut dropped = 0usize;
                let mut outcomes = vec![];
                for i in 0..10 {
                    let tf = t.clone();
                    let k = format!("c{i}");
                    let mut h = tokio::spawn(async move { put(&tf, &[(k.as_bytes(), b"v")]).await });
                    match tokio::time::timeout(std::time::Duration::from_millis(60), &mut h).await {
                        Ok(Ok(r)) => outcomes.push(if r.is_ok() { "ok".to_string() } else { "error".to_string() }),
                        Ok(Err(e)) => {
                            outcomes.push(if e.is_panic() { "PANIC".to_string() } else { "cancelled".to_string() });
                            break;
                        }
                        Err(_) => {
                            // the caller gives up: the commit() future is dropped where it waits
                            h.abort();
                            match h.await {
                                Err(e) if e.is_panic() => {
                                    outcomes.push("PANIC".to_string());
                                    break;
                                }
                                _ => {
                                    dropped += 1;
                                    outcomes.push("dropped".to_string());
                                }
                            }
                        }
                    }
                }
                gate.release();
                let held_result = tokio::time::timeout(std::time::Duration::from_secs(10), held).await;
                ctl.reset();
                let panics = crate::panics::drain_all();
                let after = tokio::time::timeout(std::time::Duration::from_secs(10), put(&t, &[(b"z", b"9")])).await;
                if let Ok(t) = std::sync::Arc::try_unwrap(t) {
                    close(t).await;
                }
                if !panics.is_empty() || outcomes.iter().any(|o| o == "PANIC") {
                    return Err(format!(
                        "one commit held between WAL write and apply; behind it callers abandon their commit() calls after 60 ms: outcomes {:?}; panics: {:?}",
                        outcomes,
                        panics.iter().take(2).collect::<Vec<_>>()
                    ));
                }
                if dropped == 0 {
                    return Err("harness: no commit future was dropped while waiting".into());
                }
                match held_result {
                    Ok(Ok(Ok(()))) => {}
                    other => return Err(format!("the held commit did not complete normally after its release: {:?} (outcomes {:?})", other.map(|r| r.map(|x| x.is_ok())), outcomes)),
                }
                match after {
                    Ok(r) => r.map_err(|e| format!("a commit after the episode failed: {e}")),
                    Err(_) => Err(format!("a commit after the episode did not return within 10 s (outcomes {:?})", outcomes)),
                }
            })
        })
        .join()
        .map_err(|_| "scenario thread panicked".to_string())?;
        res
    })
}

pub fn all() -> Vec<Scenario> {
    vec![
        Scenario {
            id: "C10-reader-between-two-barriers",
            property: "C10",
            title: "a reader begun between two hard deletes of a key whose oldest version sits on a deeper level; then flush and compaction",
            run: c10_reader_between_two_barriers,
        },
        Scenario {
            id: "C10-older-timestamp-after-barrier",
            property: "C10",
            title: "version index on: a version with an older explicit timestamp written after a hard delete / replace, before and after flush",
            run: c10_older_timestamp_after_barrier,
        },
        Scenario {
            id: "C10-history-during-flush-out-of-order",
            property: "C10",
            title: "version index on, timestamps out of commit order: history listing between a flush's index update and its manifest switch",
            run: c10_history_during_flush_out_of_order,
        },
        Scenario {
            id: "C11-history-cursor-outlives-retention",
            property: "C11",
            title: "a version listed by an open history cursor leaves the retention window; compaction and value-log clean-up run under the cursor",
            run: c11_history_cursor_outlives_retention,
        },
        Scenario {
            id: "C10-barrier-committed-after-reader",
            property: "C10",
            title: "a replace / hard deletes committed while a reader is open, then flush and compaction: the reader's time-travel reads and history",
            run: c10_barrier_committed_after_reader,
        },
        Scenario {
            id: "C10-overwrite-across-savepoint",
            property: "C10",
            title: "a transaction overwrites its own pending write across a savepoint; get vs get_at afterwards",
            run: c10_overwrite_across_savepoint,
        },
        Scenario {
            id: "C07-oversized-first-record-after-memtable-size-reduced",
            property: "C07",
            title: "a transaction larger than the new memtable size is the first record of its commit-log segment",
            run: c07_oversized_first_record_after_memtable_size_reduced,
        },
        Scenario {
            id: "C17-cancelled-commits-overflow-queue",
            property: "C17",
            title: "callers abandon more commit() calls than the queue has slots behind one commit that is slow to apply",
            run: c17_cancelled_commits_overflow_queue,
        },
        Scenario {
            id: "C17-failed-commits-fill-queue",
            property: "C17",
            title: "more failing commits than queue slots behind one commit that is slow to apply",
            run: c17_failed_commits_fill_queue,
        },
        Scenario {
            id: "C15-failed-apply-poisons-memtable",
            property: "C15",
            title: "a commit fails in its apply step on an empty memtable, then small commits",
            run: c15_failed_apply_poisons_memtable,
        },
        Scenario {
            id: "C04-rollback-forgets-earlier-committer",
            property: "C04",
            title: "a failed commit rolls back its conflict-map entry for a key an earlier transaction had committed",
            run: c04_rollback_forgets_earlier_committer,
        },
        Scenario {
            id: "C17-wakeup-lost-before-idle",
            property: "C17",
            title: "a memtable is rotated in while the flush task is between its last look at the queue and going idle",
            run: c17_wakeup_lost_before_idle,
        },
        Scenario {
            id: "C07-crash-during-wal-repair",
            property: "C07",
            title: "damaged commit-log tail and the leftover directory of a repair that was interrupted by a crash",
            run: c07_crash_during_wal_repair,
        },
        Scenario {
            id: "C10-wide-version-index",
            property: "C10",
            title: "hundreds of keys x 3 versions, flushed and reopened, with and without the version index",
            run: c10_wide_version_index,
        },
        Scenario {
            id: "C15-oversize-transaction-logged-then-rejected",
            property: "C15",
            title: "transaction larger than a memtable: commit fails; then close + reopen",
            run: c15_failed_commit_record_stays_in_log,
        },
        Scenario {
            id: "C15-transaction-sizes-around-a-memtable",
            property: "C15",
            title: "two-entry transactions from just below to just above what an empty memtable takes",
            run: c15_sizes_around_a_memtable,
        },
        Scenario {
            id: "C02-commit-again-after-failure",
            property: "C02",
            title: "commit() called a second time on a transaction whose commit was refused",
            run: c02_commit_again_after_failure,
        },
        Scenario {
            id: "C04-writer-begun-before-restore",
            property: "C04",
            title: "a transaction begun before a restore and one begun after it write the same key",
            run: c04_writer_begun_before_restore,
        },
        Scenario {
            id: "C10-equal-timestamps",
            property: "C10",
            title: "two versions of one key stamped with the same timestamp, flushed (both back-ends)",
            run: c10_equal_timestamps,
        },
        Scenario {
            id: "C19-clone-dropped",
            property: "C19",
            title: "one of two clones of a store handle is dropped, then the directory is opened again",
            run: c19_clone_dropped,
        },
        Scenario {
            id: "C12-zeroed-block",
            property: "C12",
            title: "each 32 KiB block of a segment in turn reads as zeros",
            run: c12_zeroed_block,
        },
        Scenario {
            id: "C14-directory-reused-after-restore",
            property: "C14",
            title: "checkpoint directory written again after a restore to an older checkpoint (table ids and sizes repeat)",
            run: c14_directory_reused_after_restore,
        },
        Scenario {
            id: "C19-close-cancelled",
            property: "C19",
            title: "close() dropped at its first suspension point, then the directory is opened again",
            run: c19_close_cancelled,
        },
        Scenario {
            id: "C19-failed-open-keeps-lock",
            property: "C19",
            title: "an open fails after it took the directory lock; the directory is opened again in the same process",
            run: c19_failed_open_keeps_lock,
        },
        Scenario {
            id: "C19-dropped-outside-runtime",
            property: "C19",
            title: "the store handle is dropped on a thread outside the runtime it was opened in",
            run: c19_dropped_outside_runtime,
        },
        Scenario {
            id: "C07-version-index-grows-across-reopens",
            property: "C07",
            title: "versioned store (both back-ends): each of four sessions flushes 300 new versions, then close and reopen",
            run: c07_version_index_grows_across_reopens,
        },
        Scenario {
            id: "C02-commit-overlapping-close",
            property: "C02",
            title: "a commit past the shutdown check runs on while close() flushes and closes the commit log",
            run: c02_commit_overlapping_close,
        },
        Scenario {
            id: "C16-footer-handle-beyond-file",
            property: "C16",
            title: "offsets and sizes of the footer's block handles set beyond the end of the table file",
            run: c16_footer_handle_beyond_file,
        },
        Scenario {
            id: "C16-footer-redirected-to-valid-block",
            property: "C16",
            title: "the footer's index handle rewritten to name another valid block of the same table",
            run: c16_footer_redirected_to_valid_block,
        },
        Scenario {
            id: "C04-disjoint-writers-refused",
            property: "C04",
            title: "concurrent writers of disjoint keys with values of half a memtable",
            run: c04_disjoint_writers_refused,
        },
        Scenario {
            id: "C16-filter-block-unchecked",
            property: "C16",
            title: "every byte of a small table file altered in turn, then point lookups of all stored keys",
            run: c16_filter_block_unchecked,
        },
        Scenario {
            id: "C19-refused-open-truncates-lock",
            property: "C19",
            title: "second open of a directory held by a live store",
            run: c19_refused_open_truncates_lock,
        },
        Scenario {
            id: "C18-leaf-drained-behind-declined-redistribution",
            property: "C18",
            title: "a leaf whose rebalancing is declined (separator would not fit) is drained by deletes, then cursor walks",
            run: c18_leaf_drained_behind_declined_redistribution,
        },
        Scenario {
            id: "C18-separator-overflow-on-leaf-redistribution",
            property: "C18",
            title: "keys longer than the inline limit as parent separators while leaves redistribute",
            run: c18_separator_overflow,
        },
        Scenario {
            id: "C12-torn-tail-behind-compression-header",
            property: "C12",
            title: "compressed segment cut inside its first record, reopened and appended to",
            run: c12_torn_tail_behind_compression_header,
        },
        Scenario {
            id: "C17-cursor-view-vs-flush-install",
            property: "C17",
            title: "reader between the two locks of its cursor view while a flush sits between the two locks of its table installation",
            run: c17_cursor_view_vs_flush_install,
        },
        Scenario {
            id: "C17-checkpoints-fill-l0",
            property: "C17",
            title: "commits alternating with checkpoints, each of which flushes the memtable into L0 itself",
            run: c17_checkpoints_fill_l0,
        },
        Scenario {
            id: "C17-restore-into-full-l0",
            property: "C17",
            title: "restore of a checkpoint whose level 0 sits at the write-stall limit, then a commit",
            run: c17_restore_into_full_l0,
        },
        Scenario {
            id: "C17-stall-signal-at-yield-point",
            property: "C17",
            title: "the stall-cleared (or shutdown) signal lands between a stalled writer's check and its wait",
            run: c17_stall_signal_at_yield_point,
        },
        Scenario {
            id: "C01-compaction-paused-reader-begins",
            property: "C01",
            title: "compaction round parked at each of its yield points while a reader begins and its key is overwritten and flushed",
            run: c01_compaction_paused,
        },
        Scenario {
            id: "C12-damaged-first-header",
            property: "C12",
            title: "record-type byte of the first record header altered, open in repairing mode",
            run: c12_damaged_first_header,
        },
        Scenario {
            id: "C12-compression-record-unchecked",
            property: "C12",
            title: "payload bit of the compression-type record flipped in a compressed segment",
            run: c12_compression_record_unchecked,
        },
        Scenario {
            id: "C17-bottom-level-outranks-l0",
            property: "C17",
            title: "bottom level over its size target while L0 sits at the write-stall limit",
            run: c17_bottom_level_outranks_l0,
        },
        Scenario {
            id: "C17-one-compaction-round-per-wakeup",
            property: "C17",
            title: "level task woken once while L1 outranks an L0 that sits at the write-stall limit",
            run: c17_one_compaction_round_per_wakeup,
        },
        Scenario {
            id: "C05-compaction-of-unpublished-commit",
            property: "C05",
            title: "flush and compaction while a commit is applied but held back from publication by an earlier one",
            run: c05_compaction_of_unpublished_commit,
        },
        Scenario {
            id: "C05-l0-order-by-largest-seq",
            property: "C05",
            title: "two commits whose applies finish out of WAL order around a memtable rotation, then flush",
            run: c05_l0_order_by_largest_seq,
        },
        Scenario {
            id: "C01-begin-races-compaction",
            property: "C01",
            title: "begin held between loading its horizon and registering its snapshot while a compaction runs",
            run: c01_begin_races_compaction,
        },
        Scenario {
            id: "C14-stale-block-cache-after-restore",
            property: "C14",
            title: "restore, then a new table reuses the id of a cached table of the discarded timeline",
            run: c14_stale_block_cache_after_restore,
        },
        Scenario {
            id: "C14-checkpoint-independent-of-source",
            property: "C14",
            title: "source and a store opened on the checkpoint both commit and flush, in generated orders; a second checkpoint directory is watched for changes and restored at the end",
            run: c14_checkpoint_independent_of_source,
        },
        Scenario {
            id: "C14-checkpoint-into-existing-directory",
            property: "C14",
            title: "second create_checkpoint into the directory of an earlier checkpoint",
            run: c14_checkpoint_into_existing_directory,
        },
        Scenario {
            id: "C14-checkpoint-vs-compaction",
            property: "C14",
            title: "compaction rounds complete while create_checkpoint sits between copying the tables and copying the manifest",
            run: c14_checkpoint_vs_compaction,
        },
        Scenario {
            id: "C14-restore-with-commit-in-flight",
            property: "C14",
            title: "restore_from_checkpoint while a commit sits between its commit-log write and its apply",
            run: c14_restore_with_commit_in_flight,
        },
        Scenario {
            id: "C02-checkpoint-flush-vs-task-flush",
            property: "C02",
            title: "create_checkpoint and the flush task flush the same immutable memtable",
            run: c02_checkpoint_flush_vs_task_flush,
        },
        Scenario {
            id: "C14-restore-during-flush",
            property: "C14",
            title: "restore_from_checkpoint while a flush has written its table file and not yet installed it",
            run: c14_restore_during_flush,
        },
        Scenario {
            id: "C14-wal-cleanup-after-restore",
            property: "C14",
            title: "the commit-log clean-up scheduled by a flush runs after a restore to an older checkpoint",
            run: c14_wal_cleanup_after_restore,
        },
        Scenario {
            id: "C14-restore-shares-wal-with-checkpoint",
            property: "C14",
            title: "restore from a checkpoint directory that was opened as a database once, then commit",
            run: c14_restore_shares_wal_with_checkpoint,
        },
        Scenario {
            id: "C14-checkpoint-into-opened-directory",
            property: "C14",
            title: "second checkpoint into a directory whose first checkpoint was opened as a database once",
            run: c14_checkpoint_into_opened_directory,
        },
        Scenario {
            id: "C14-cursor-across-restore-refills-cache",
            property: "C14",
            title: "a cursor opened before a restore is drained after it, then the new timeline reuses the table id",
            run: c14_cursor_across_restore_refills_cache,
        },
        Scenario {
            id: "C14-vlog-writer-after-restore",
            property: "C14",
            title: "value written after restore with the value log on, then reopen",
            run: c14_vlog_writer_after_restore,
        },
        Scenario {
            id: "C14-version-index-not-restored",
            property: "C14",
            title: "restore with the version index enabled",
            run: c14_version_index_not_restored,
        },
        Scenario {
            id: "C10-open-reader-makes-compaction-drop-history",
            property: "C10",
            title: "versioning with unlimited retention: compaction while a reader is open",
            run: c10_open_reader_makes_compaction_drop_history,
        },
        Scenario {
            id: "C10-retention-drops-replace-barrier",
            property: "C10",
            title: "finite retention: a replace expires above older versions on a deeper level",
            run: c10_retention_drops_replace_barrier,
        },
        Scenario {
            id: "C10-ts-range-out-of-order-memtable",
            property: "C10",
            title: "history with a timestamp range over unflushed versions written out of timestamp order",
            run: c10_ts_range_out_of_order_memtable,
        },
        Scenario {
            id: "C10-compaction-resurrects-erased-version",
            property: "C10",
            title: "compaction of set / hard delete / set with versioning on",
            run: c10_compaction_resurrects_erased_version,
        },
        Scenario {
            id: "C10-compaction-drops-version-above-replace",
            property: "C10",
            title: "compaction of replace / set / set with versioning on",
            run: c10_compaction_drops_version_above_replace,
        },
        Scenario {
            id: "C10-ts-range-lists-erased-version",
            property: "C10",
            title: "history with a timestamp range below a hard delete",
            run: c10_ts_range_lists_erased_version,
        },
        Scenario {
            id: "C10-backward-history-stops-at-hidden-key",
            property: "C10",
            title: "complete backward history traversal across a key without retained versions",
            run: c10_backward_history_stops_at_hidden_key,
        },
        Scenario {
            id: "C09-inverted-bounds-deep-level",
            property: "C09",
            title: "cursor with inverted bounds over tables on a level >= 1",
            run: c09_inverted_bounds_deep_level,
        },
        Scenario {
            id: "C03-batch-torn-by-rotation",
            property: "C03",
            title: "multi-key transaction whose apply step meets a full memtable, old memtable flushed, WAL tail lost",
            run: c03_batch_torn_by_rotation,
        },
        Scenario {
            id: "C02-rotation-straddling-commit",
            property: "C02",
            title: "the commit that triggers a memtable rotation, after the old memtable is flushed",
            run: c02_rotation_straddling_commit,
        },
        Scenario {
            id: "C07-wal-segment-split-on-replay",
            property: "C07",
            title: "recovery of a WAL segment that does not fit one memtable, then close + reopen",
            run: c07_wal_segment_split_on_replay,
        },
        Scenario {
            id: "C07-vlog-torn-header",
            property: "C07",
            title: "reopen with a value-log file shorter than its header (torn by power loss)",
            run: c07_vlog_torn_header,
        },
        Scenario {
            id: "C02-commit-after-wal-repair",
            property: "C02",
            title: "commit in the session after a WAL repair, then reopen",
            run: c02_commit_after_wal_repair,
        },
        Scenario {
            id: "C02-commit-after-torn-header",
            property: "C02",
            title: "commit in the session after recovery from a torn record header, then reopen",
            run: c02_commit_after_torn_header,
        },
        Scenario {
            id: "C09-overlay-direction-switch",
            property: "C09",
            title: "direction reversal of a cursor that merges pending writes with the snapshot",
            run: c09_overlay_direction_switch,
        },
        Scenario {
            id: "C01-shared-start-reader-dropped",
            property: "C01",
            title: "two readers share a start point, one is dropped, compaction runs",
            run: c01_shared_start_reader_dropped,
        },
        Scenario {
            id: "C01-cursor-unregisters-snapshot",
            property: "C01",
            title: "a reader opens a range cursor, then compaction runs",
            run: c01_cursor_unregisters_snapshot,
        },
        Scenario {
            id: "C01-bottom-level-delete-under-reader",
            property: "C01",
            title: "hard delete compacted to the bottom level while an older reader is open",
            run: c01_bottom_level_delete_under_reader,
        },
        Scenario {
            id: "C07-last-sequence-after-tombstone-compaction",
            property: "C07",
            title: "reopen after compaction discarded the newest sequence number",
            run: c07_last_sequence_after_tombstone_compaction,
        },
        Scenario {
            id: "C07-l1-key-disjoint-tables",
            property: "C07",
            title: "reopen with key-disjoint L1 tables whose sequence ranges are not key-ordered",
            run: c07_l1_key_disjoint_tables,
        },
        Scenario {
            id: "C09-memtable-seek-last-after-upper",
            property: "C09",
            title: "memtable cursor: seek_last after a forward pass crossed the upper bound",
            run: c09_memtable_seek_last_after_upper,
        },
        Scenario { id: "C09-unbounded-cursor", property: "C09", title: "cursor with both bounds absent", run: c09_unbounded_cursor },
        Scenario { id: "C09-lower-only-cursor", property: "C09", title: "cursor with only a lower bound", run: c09_lower_only_cursor },
        Scenario { id: "C09-inverted-bounds", property: "C09", title: "cursor with inverted bounds", run: c09_inverted_bounds },
    ]
}

const SCENARIO_WATCHDOG_S: u64 = 150;

/// None: the watchdog fired.
fn run_with_watchdog(s: &Scenario, dir: PathBuf) -> Option<Result<(), String>> {
    let (tx, rx) = std::sync::mpsc::channel();
    let f = s.run;
    let spawned = std::thread::Builder::new().name(format!("scen-{}", s.id)).stack_size(32 << 20).spawn(move || {
        let rt = tokio::runtime::Builder::new_current_thread().enable_all().build().unwrap();
        let res = rt.block_on(f(dir));
        drop(rt);
        let _ = tx.send(res);
    });
    if let Err(e) = spawned {
        return Some(Err(format!("harness: cannot spawn the scenario thread: {e}")));
    }
    match rx.recv_timeout(std::time::Duration::from_secs(SCENARIO_WATCHDOG_S)) {
        Ok(r) => Some(r),
        Err(std::sync::mpsc::RecvTimeoutError::Timeout) => None,
        Err(std::sync::mpsc::RecvTimeoutError::Disconnected) => {
            let p = crate::panics::drain_all();
            Some(Err(format!("the scenario's thread panicked: {}", p.join(" | "))))
        }
    }
}

/// Runs the directed scenarios of one property. Open findings that still fail are printed
/// as KNOWN-FINDING; anything else that fails is a VIOLATION. Returns ids of the scenarios
/// that failed and are open (generators use them as masks).
pub fn run_for(run: &mut Run, property: &str) -> Vec<String> {
    surrealkv::verif::set_manual_background(true);
    let findings = load_findings();
    let mut open_failed = vec![];
    let mut results = vec![];
    crate::panics::install();
    let only = std::env::var("VERIF_SCEN_ONLY").ok();
    for s in all().into_iter().filter(|s| s.property == property) {
        if only.as_deref().is_some_and(|o| o != s.id) {
            continue;
        }
        let dir = e1::scratch_root().join(format!("scen-{}", s.id));
        // Every scenario is a bounded workload of milliseconds to a few seconds. It runs on a
        // thread of its own under a generous wall-clock watchdog; if the watchdog fires the
        // scenario is run a second time (a loaded machine), and only a second firing counts.
        let mut res = None;
        for attempt in 0..2 {
            let d = if attempt == 0 { dir.clone() } else { dir.with_extension("again") };
            let _ = std::fs::remove_dir_all(&d);
            res = run_with_watchdog(&s, d.clone());
            if res.is_some() {
                let _ = std::fs::remove_dir_all(&d);
                break;
            }
        }
        let Some(res) = res else {
            let what = format!("directed scenario {} ({}) did not finish within {} s, twice: a call into the store never returned", s.id, s.title, SCENARIO_WATCHDOG_S);
            results.push(json!({"scenario": s.id, "title": s.title, "holds": false, "detail": what}));
            run.cov("directed_scenarios", json!(results));
            // termination is what C15 ("keeps accepting transactions"), C16 ("never hangs") and
            // C17 ("every commit returns") state; for the other properties a hang decides nothing
            if matches!(property, "C15" | "C16" | "C17") {
                run.violation(&what, json!({"engine": "scenario", "scenario": s.id, "hang": true}));
            } else {
                run.inconclusive(&what);
                println!("INCONCLUSIVE property={} {}", property, what);
            }
            run.abort_now(results.len() as u64, "aborted: a directed scenario hung inside the store; threads stuck in the store cannot be taken back, nothing further was run");
        };
        results.push(json!({"scenario": s.id, "title": s.title, "holds": res.is_ok(), "detail": res.clone().err()}));
        if let Err(what) = res {
            if finding_open(&findings, s.id) {
                run.known_finding(s.id, &what);
                open_failed.push(s.id.to_string());
            } else {
                run.violation(&format!("directed scenario {}: {}", s.id, what), json!({"engine": "scenario", "scenario": s.id}));
            }
        }
    }
    // scenarios kept as recorded E1 histories (harness/scenarios/<id>.json)
    if let Ok(rd) = std::fs::read_dir("/verif/harness/scenarios") {
        let mut files: Vec<_> = rd.flatten().map(|e| e.path()).filter(|p| p.extension().map(|x| x == "json").unwrap_or(false)).collect();
        files.sort();
        for f in files {
            let Ok(b) = std::fs::read(&f) else { continue };
            let Ok(j) = serde_json::from_slice::<serde_json::Value>(&b) else { continue };
            if j["property"].as_str() != Some(property) {
                continue;
            }
            let id = j["id"].as_str().unwrap_or("?").to_string();
            let title = j["title"].as_str().unwrap_or("").to_string();
            let v = crate::campaign::replay_e1(&j);
            results.push(json!({"scenario": id, "title": title, "holds": v.is_none(), "detail": v.as_ref().map(|v| v.what.clone())}));
            if let Some(v) = v {
                let what = format!("{}: [{}] step {}: {}", title, v.class, v.step, v.what);
                if finding_open(&findings, &id) {
                    run.known_finding(&id, &what);
                    open_failed.push(id);
                } else {
                    run.violation(&format!("directed scenario {}: {}", id, what), json!({"engine": "scenario-file", "scenario": id, "file": f}));
                }
            }
        }
    }
    run.cov("directed_scenarios", json!(results));
    open_failed
}
