//! Directed scenarios: fixed, minimal, deterministic histories, one per defect that the
//! monitors found on the unchanged tree (see DESIGN.md section 2.9 and known_findings.json).
//! A scenario returns Err(description) when the real code still shows the behaviour.
//! An *open* finding whose scenario fails is reported as KNOWN-FINDING; a *fixed* one is a
//! regression monitor and reports VIOLATION if the behaviour ever returns.

use crate::cfg::Cfg;
use crate::e1;
use crate::evidence::{finding_open, load_findings, Run};
use serde_json::json;
use std::future::Future;
use std::path::PathBuf;
use std::pin::Pin;
use surrealkv::{LSMIterator, Mode, ReadOptions, Tree};

pub type ScenFut<'a> = Pin<Box<dyn Future<Output = Result<(), String>> + 'a>>;

pub struct Scenario {
    pub id: &'static str,
    pub property: &'static str,
    pub title: &'static str,
    pub run: fn(PathBuf) -> ScenFut<'static>,
}

pub fn base_cfg() -> Cfg {
    Cfg { flush_on_close: false, ..Cfg::default() }
}

pub async fn put(t: &Tree, kvs: &[(&[u8], &[u8])]) -> Result<(), String> {
    // write-only: registers no snapshot, so it cannot disturb the snapshot registry
    let mut tx = t.begin_with_mode(Mode::WriteOnly).map_err(|e| e.to_string())?;
    for (k, v) in kvs {
        tx.set(*k, *v).map_err(|e| e.to_string())?;
    }
    tx.commit().await.map_err(|e| format!("commit: {e}"))
}

pub async fn del(t: &Tree, k: &[u8]) -> Result<(), String> {
    let mut tx = t.begin_with_mode(Mode::WriteOnly).map_err(|e| e.to_string())?;
    tx.delete(k).map_err(|e| e.to_string())?;
    tx.commit().await.map_err(|e| format!("commit: {e}"))
}

pub async fn close(t: Tree) {
    let _ = t.close().await;
    drop(t);
    for _ in 0..4 {
        tokio::task::yield_now().await;
    }
}

pub fn collect_fwd(it: &mut dyn LSMIterator) -> Result<Vec<Vec<u8>>, String> {
    let mut out = vec![];
    let mut ok = it.seek_first().map_err(|e| e.to_string())?;
    while ok {
        out.push(it.key().user_key().to_vec());
        ok = it.next().map_err(|e| e.to_string())?;
    }
    Ok(out)
}

pub fn collect_bwd(it: &mut dyn LSMIterator) -> Result<Vec<Vec<u8>>, String> {
    let mut out = vec![];
    let mut ok = it.seek_last().map_err(|e| e.to_string())?;
    while ok {
        out.push(it.key().user_key().to_vec());
        ok = it.prev().map_err(|e| e.to_string())?;
    }
    out.reverse();
    Ok(out)
}

// ------------------------------------------------------------------------------------------

fn c09_memtable_seek_last_after_upper(dir: PathBuf) -> ScenFut<'static> {
    Box::pin(async move {
        let t = base_cfg().open(&dir).map_err(|e| e.to_string())?;
        put(&t, &[(b"a", b"1"), (b"z", b"2")]).await?;
        let r = {
            let tx = t.begin_with_mode(Mode::ReadOnly).map_err(|e| e.to_string())?;
            let mut it = tx.range(&b"a"[..], &b"b"[..]).map_err(|e| e.to_string())?;
            let f = collect_fwd(&mut it)?;
            let b = collect_bwd(&mut it)?;
            if f != vec![b"a".to_vec()] {
                Err(format!("forward scan of [a,b) over {{a,z}} returned {:?}", f))
            } else if b != vec![b"a".to_vec()] {
                Err(format!(
                    "cursor over [a,b) on {{a,z}} in the memtable: after a forward pass ran past the upper bound, seek_last yields {:?} instead of [a]",
                    b
                ))
            } else {
                Ok(())
            }
        };
        close(t).await;
        r
    })
}

fn c09_unbounded_cursor(dir: PathBuf) -> ScenFut<'static> {
    Box::pin(async move {
        let t = base_cfg().open(&dir).map_err(|e| e.to_string())?;
        put(&t, &[(b"a", b"1"), (b"b", b"2"), (b"c", b"3")]).await?;
        let r = {
            let tx = t.begin_with_mode(Mode::ReadOnly).map_err(|e| e.to_string())?;
            let res = std::panic::catch_unwind(std::panic::AssertUnwindSafe(|| -> Result<Vec<Vec<u8>>, String> {
                let ro = ReadOptions::new(); // both bounds absent
                let mut it = tx.range_with_options(&ro).map_err(|e| e.to_string())?;
                collect_fwd(&mut it)
            }));
            match res {
                Err(_) => Err("range_with_options with both bounds absent panicked".to_string()),
                Ok(Err(e)) => Err(format!("range_with_options with both bounds absent failed: {e}")),
                Ok(Ok(v)) if v.len() != 3 => Err(format!("cursor with both bounds absent lists {} of 3 live keys", v.len())),
                Ok(Ok(_)) => Ok(()),
            }
        };
        close(t).await;
        r
    })
}

fn c09_lower_only_cursor(dir: PathBuf) -> ScenFut<'static> {
    Box::pin(async move {
        let t = base_cfg().open(&dir).map_err(|e| e.to_string())?;
        put(&t, &[(b"a", b"1"), (b"b", b"2"), (b"c", b"3")]).await?;
        let r = {
            let tx = t.begin_with_mode(Mode::ReadOnly).map_err(|e| e.to_string())?;
            let res = std::panic::catch_unwind(std::panic::AssertUnwindSafe(|| -> Result<Vec<Vec<u8>>, String> {
                let mut ro = ReadOptions::new();
                ro.set_iterate_lower_bound(Some(b"b".to_vec()));
                let mut it = tx.range_with_options(&ro).map_err(|e| e.to_string())?;
                collect_fwd(&mut it)
            }));
            match res {
                Err(_) => Err("range_with_options with only a lower bound panicked".to_string()),
                Ok(Err(e)) => Err(format!("range_with_options with only a lower bound failed: {e}")),
                Ok(Ok(v)) if v != vec![b"b".to_vec(), b"c".to_vec()] => {
                    Err(format!("cursor with only lower bound b lists {:?} instead of [b, c]", v))
                }
                Ok(Ok(_)) => Ok(()),
            }
        };
        close(t).await;
        r
    })
}

fn c09_inverted_bounds(dir: PathBuf) -> ScenFut<'static> {
    Box::pin(async move {
        let t = base_cfg().open(&dir).map_err(|e| e.to_string())?;
        put(&t, &[(b"a", b"1"), (b"b", b"2"), (b"c", b"3")]).await?;
        let r = {
            let mut tx = t.begin().map_err(|e| e.to_string())?;
            tx.set(&b"bb"[..], &b"x"[..]).map_err(|e| e.to_string())?;
            let res = std::panic::catch_unwind(std::panic::AssertUnwindSafe(|| -> Result<Vec<Vec<u8>>, String> {
                let mut it = tx.range(&b"c"[..], &b"a"[..]).map_err(|e| e.to_string())?;
                collect_fwd(&mut it)
            }));
            match res {
                Err(_) => Err("range(c, a) (inverted bounds) panicked instead of yielding an empty cursor".to_string()),
                Ok(Err(e)) => Err(format!("range(c, a) failed: {e}")),
                Ok(Ok(v)) if !v.is_empty() => Err(format!("range(c, a) lists {:?}", v)),
                Ok(Ok(_)) => Ok(()),
            }
        };
        close(t).await;
        r
    })
}

fn c07_last_sequence_after_tombstone_compaction(dir: PathBuf) -> ScenFut<'static> {
    Box::pin(async move {
        let cfg = Cfg { level_count: 2, l0_max_files: 1, max_bytes_for_level: 512, ..base_cfg() };
        let t = cfg.open(&dir).map_err(|e| e.to_string())?;
        put(&t, &[(b"k", b"v")]).await?;
        t.verif_flush().map_err(|e| e.to_string())?;
        del(&t, b"k").await?;
        t.verif_flush().map_err(|e| e.to_string())?;
        for _ in 0..4 {
            t.verif_compact_once().map_err(|e| e.to_string())?;
        }
        close(t).await;
        match cfg.open(&dir) {
            Ok(t) => {
                close(t).await;
                Ok(())
            }
            Err(e) => Err(format!("set k; flush; delete k; flush; compact to the bottom level; close; reopen fails: {e}")),
        }
    })
}

fn c07_l1_key_disjoint_tables(dir: PathBuf) -> ScenFut<'static> {
    Box::pin(async move {
        let cfg = Cfg { level_count: 5, l0_max_files: 1, max_bytes_for_level: 1 << 20, ..base_cfg() };
        let t = cfg.open(&dir).map_err(|e| e.to_string())?;
        // first table on L1 holds key m, second (newer) holds key b: key order != age order
        put(&t, &[(b"m", b"1")]).await?;
        t.verif_flush().map_err(|e| e.to_string())?;
        t.verif_compact_once().map_err(|e| e.to_string())?;
        put(&t, &[(b"b", b"2")]).await?;
        t.verif_flush().map_err(|e| e.to_string())?;
        t.verif_compact_once().map_err(|e| e.to_string())?;
        let lay = t.verif_layout().map_err(|e| e.to_string())?;
        let l1 = lay.tables.iter().filter(|x| x.level == 1).count();
        close(t).await;
        match cfg.open(&dir) {
            Ok(t) => {
                close(t).await;
                Ok(())
            }
            Err(e) => Err(format!("two key-disjoint tables on L1 ({} tables there) written newest-key-first; close; reopen fails: {e}", l1)),
        }
    })
}

async fn compact_all(t: &Tree) -> Result<(), String> {
    for _ in 0..8 {
        if !t.verif_compact_once().map_err(|e| e.to_string())? {
            break;
        }
    }
    Ok(())
}

fn c01_cfg() -> Cfg {
    Cfg { level_count: 2, l0_max_files: 1, max_bytes_for_level: 512, ..base_cfg() }
}

fn c01_shared_start_reader_dropped(dir: PathBuf) -> ScenFut<'static> {
    Box::pin(async move {
        let t = c01_cfg().open(&dir).map_err(|e| e.to_string())?;
        put(&t, &[(b"k", b"v1")]).await?;
        t.verif_flush().map_err(|e| e.to_string())?;
        let r1 = t.begin_with_mode(Mode::ReadOnly).map_err(|e| e.to_string())?;
        let r2 = t.begin_with_mode(Mode::ReadOnly).map_err(|e| e.to_string())?;
        drop(r2);
        put(&t, &[(b"k", b"v2")]).await?;
        t.verif_flush().map_err(|e| e.to_string())?;
        let snaps = t.verif_snapshot_seqs();
        compact_all(&t).await?;
        let got = r1.get(&b"k"[..]).map_err(|e| e.to_string())?;
        drop(r1);
        close(t).await;
        if got.as_deref() == Some(&b"v1"[..]) {
            Ok(())
        } else {
            Err(format!("two readers share a start point, one is dropped, k is overwritten, flush+compaction: the surviving reader's get(k) = {:?} instead of v1 (snapshot registry before compaction: {:?})", got.map(|v| String::from_utf8_lossy(&v).to_string()), snaps))
        }
    })
}

fn c01_cursor_unregisters_snapshot(dir: PathBuf) -> ScenFut<'static> {
    Box::pin(async move {
        let t = c01_cfg().open(&dir).map_err(|e| e.to_string())?;
        put(&t, &[(b"k", b"v1")]).await?;
        t.verif_flush().map_err(|e| e.to_string())?;
        let r1 = t.begin_with_mode(Mode::ReadOnly).map_err(|e| e.to_string())?;
        {
            let mut it = r1.range(&b"a"[..], &b"z"[..]).map_err(|e| e.to_string())?;
            let _ = it.seek_first();
        }
        let snaps = t.verif_snapshot_seqs();
        put(&t, &[(b"k", b"v2")]).await?;
        t.verif_flush().map_err(|e| e.to_string())?;
        compact_all(&t).await?;
        let got = r1.get(&b"k"[..]).map_err(|e| e.to_string())?;
        drop(r1);
        close(t).await;
        if got.as_deref() == Some(&b"v1"[..]) {
            Ok(())
        } else {
            Err(format!("a reader opens and drops a range cursor, k is overwritten, flush+compaction: the reader's get(k) = {:?} instead of v1 (snapshot registry after the cursor was dropped: {:?})", got.map(|v| String::from_utf8_lossy(&v).to_string()), snaps))
        }
    })
}

fn c01_bottom_level_delete_under_reader(dir: PathBuf) -> ScenFut<'static> {
    Box::pin(async move {
        let t = c01_cfg().open(&dir).map_err(|e| e.to_string())?;
        put(&t, &[(b"k", b"v1")]).await?;
        t.verif_flush().map_err(|e| e.to_string())?;
        let r1 = t.begin_with_mode(Mode::ReadOnly).map_err(|e| e.to_string())?;
        del(&t, b"k").await?;
        t.verif_flush().map_err(|e| e.to_string())?;
        let snaps = t.verif_snapshot_seqs();
        compact_all(&t).await?;
        let got = r1.get(&b"k"[..]).map_err(|e| e.to_string())?;
        // a transaction begun after the delete must keep seeing the key as deleted
        let fresh = t.begin_with_mode(Mode::ReadOnly).map_err(|e| e.to_string())?;
        let got_fresh = fresh.get(&b"k"[..]).map_err(|e| e.to_string())?;
        drop(fresh);
        drop(r1);
        close(t).await;
        if got.as_deref() != Some(&b"v1"[..]) {
            return Err(format!("a reader is open, k is hard-deleted, flush + compaction to the bottom level: the reader's get(k) = {:?} instead of v1 (snapshot registry: {:?})", got.map(|v| String::from_utf8_lossy(&v).to_string()), snaps));
        }
        if got_fresh.is_some() {
            return Err("after delete + bottom-level compaction under an open older reader, a new transaction sees the deleted key again".into());
        }
        Ok(())
    })
}

fn c09_overlay_direction_switch(dir: PathBuf) -> ScenFut<'static> {
    Box::pin(async move {
        let t = base_cfg().open(&dir).map_err(|e| e.to_string())?;
        put(&t, &[(b"k", b"1"), (b"m", b"2")]).await?;
        let r = (|| -> Result<(), String> {
            // committed {k, m}, pending {z}: live list [k, m, z]
            let mut tx = t.begin().map_err(|e| e.to_string())?;
            tx.set(&b"z"[..], &b"p"[..]).map_err(|e| e.to_string())?;
            let mut it = tx.range(&b"a"[..], &b"zz"[..]).map_err(|e| e.to_string())?;
            it.seek(b"z").map_err(|e| e.to_string())?;
            if !it.valid() || it.key().user_key() != b"z" {
                return Err("seek(z) does not land on the pending key z".into());
            }
            let ok = it.prev().map_err(|e| e.to_string())?;
            if !ok || !it.valid() || it.key().user_key() != b"m" {
                return Err(format!(
                    "cursor over committed {{k,m}} + pending {{z}}: seek(z) then prev is {} instead of m",
                    if it.valid() { String::from_utf8_lossy(it.key().user_key()).to_string() } else { "invalid".into() }
                ));
            }
            drop(it);
            // only pending keys {b, d}: seek(b) then prev must run off the front
            let mut tx2 = t.begin().map_err(|e| e.to_string())?;
            tx2.set(&b"b"[..], &b"p"[..]).map_err(|e| e.to_string())?;
            tx2.set(&b"d"[..], &b"p"[..]).map_err(|e| e.to_string())?;
            let mut it = tx2.range(&b"a"[..], &b"e"[..]).map_err(|e| e.to_string())?;
            it.seek(b"b").map_err(|e| e.to_string())?;
            let ok = it.prev().map_err(|e| e.to_string())?;
            if ok || it.valid() {
                return Err(format!(
                    "cursor over pending {{b,d}} in [a,e): seek(b) then prev lands on {} instead of running off the front",
                    String::from_utf8_lossy(it.key().user_key())
                ));
            }
            it.seek_last().map_err(|e| e.to_string())?;
            let ok = it.next().map_err(|e| e.to_string())?;
            if ok || it.valid() {
                return Err(format!(
                    "cursor over pending {{b,d}} in [a,e): seek_last then next lands on {} instead of running off the end",
                    String::from_utf8_lossy(it.key().user_key())
                ));
            }
            Ok(())
        })();
        close(t).await;
        r
    })
}

pub fn all() -> Vec<Scenario> {
    vec![
        Scenario {
            id: "C09-overlay-direction-switch",
            property: "C09",
            title: "direction reversal of a cursor that merges pending writes with the snapshot",
            run: c09_overlay_direction_switch,
        },
        Scenario {
            id: "C01-shared-start-reader-dropped",
            property: "C01",
            title: "two readers share a start point, one is dropped, compaction runs",
            run: c01_shared_start_reader_dropped,
        },
        Scenario {
            id: "C01-cursor-unregisters-snapshot",
            property: "C01",
            title: "a reader opens a range cursor, then compaction runs",
            run: c01_cursor_unregisters_snapshot,
        },
        Scenario {
            id: "C01-bottom-level-delete-under-reader",
            property: "C01",
            title: "hard delete compacted to the bottom level while an older reader is open",
            run: c01_bottom_level_delete_under_reader,
        },
        Scenario {
            id: "C07-last-sequence-after-tombstone-compaction",
            property: "C07",
            title: "reopen after compaction discarded the newest sequence number",
            run: c07_last_sequence_after_tombstone_compaction,
        },
        Scenario {
            id: "C07-l1-key-disjoint-tables",
            property: "C07",
            title: "reopen with key-disjoint L1 tables whose sequence ranges are not key-ordered",
            run: c07_l1_key_disjoint_tables,
        },
        Scenario {
            id: "C09-memtable-seek-last-after-upper",
            property: "C09",
            title: "memtable cursor: seek_last after a forward pass crossed the upper bound",
            run: c09_memtable_seek_last_after_upper,
        },
        Scenario { id: "C09-unbounded-cursor", property: "C09", title: "cursor with both bounds absent", run: c09_unbounded_cursor },
        Scenario { id: "C09-lower-only-cursor", property: "C09", title: "cursor with only a lower bound", run: c09_lower_only_cursor },
        Scenario { id: "C09-inverted-bounds", property: "C09", title: "cursor with inverted bounds", run: c09_inverted_bounds },
    ]
}

/// Runs the directed scenarios of one property. Open findings that still fail are printed
/// as KNOWN-FINDING; anything else that fails is a VIOLATION. Returns ids of the scenarios
/// that failed and are open (generators use them as masks).
pub fn run_for(run: &mut Run, property: &str) -> Vec<String> {
    surrealkv::verif::set_manual_background(true);
    let findings = load_findings();
    let mut open_failed = vec![];
    let mut results = vec![];
    let prev_hook = std::panic::take_hook();
    std::panic::set_hook(Box::new(|_| {}));
    for s in all().into_iter().filter(|s| s.property == property) {
        let dir = e1::scratch_root().join(format!("scen-{}", s.id));
        let _ = std::fs::remove_dir_all(&dir);
        let rt = tokio::runtime::Builder::new_current_thread().enable_all().build().unwrap();
        let res = rt.block_on((s.run)(dir.clone()));
        drop(rt);
        let _ = std::fs::remove_dir_all(&dir);
        results.push(json!({"scenario": s.id, "title": s.title, "holds": res.is_ok(), "detail": res.clone().err()}));
        if let Err(what) = res {
            if finding_open(&findings, s.id) {
                run.known_finding(s.id, &what);
                open_failed.push(s.id.to_string());
            } else {
                run.violation(&format!("directed scenario {}: {}", s.id, what), json!({"engine": "scenario", "scenario": s.id}));
            }
        }
    }
    std::panic::set_hook(prev_hook);
    run.cov("directed_scenarios", json!(results));
    open_failed
}
