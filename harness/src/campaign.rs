//! Runs many E1 histories in parallel and aggregates what the monitors observed.

use crate::cfg::{Cfg, VerMode, VlogMode};
use crate::e1::{self, ExecOpts, GenParams, Generator, Stats, Step, Violation};
use crate::evidence::Run;
use crate::rng::Rng;
use serde_json::{json, Value as J};
use std::collections::BTreeSet;
use std::sync::atomic::{AtomicUsize, Ordering};
use std::sync::Mutex;

pub fn threads() -> usize {
    std::env::var("VERIF_THREADS").ok().and_then(|s| s.parse().ok()).unwrap_or_else(|| {
        std::thread::available_parallelism().map(|n| n.get()).unwrap_or(8).min(16)
    })
}

/// Generic parallel map over indices.
pub fn par_for<F: Fn(usize) + Sync>(n: usize, f: F) {
    let next = AtomicUsize::new(0);
    let t = threads().min(n.max(1));
    std::thread::scope(|s| {
        for _ in 0..t {
            s.spawn(|| loop {
                let i = next.fetch_add(1, Ordering::SeqCst);
                if i >= n {
                    break;
                }
                f(i);
            });
        }
    });
}

#[derive(Clone)]
pub struct Campaign {
    pub histories: usize,
    /// placement schedules / option sets per logical history
    pub variants: usize,
    pub gen: GenParams,
    pub ver: VerMode,
    pub vlog: VlogMode,
    pub exec: ExecOpts,
    /// fixed tweaks applied to every generated option set
    pub tweak: fn(&mut Cfg, &mut Rng),
    /// a history is non-trivial for this property when this holds
    pub nontrivial: fn(&Stats) -> bool,
    pub minimise_budget: usize,
}

pub struct Failure {
    pub cfg: Cfg,
    pub keys: Vec<Vec<u8>>,
    pub steps: Vec<Step>,
    pub violation: Violation,
    pub seed: u64,
}

pub struct Outcome {
    pub stats: Stats,
    pub evaluations: u64,
    pub distinct: BTreeSet<String>,
    pub failures: Vec<Failure>,
    pub samples: Vec<J>,
    pub cfg_sigs: BTreeSet<String>,
}

/// Strip placement steps and weave in new ones.
pub fn reweave(base: &[Step], r: &mut Rng, p: &GenParams) -> Vec<Step> {
    let mut out = Vec::new();
    for s in base {
        match s {
            Step::Rotate | Step::FlushOne | Step::Flush | Step::Compact { .. } | Step::Reopen => continue,
            _ => {}
        }
        out.push(s.clone());
        if r.below(100) < p.placement_pct {
            let y = r.below(100);
            out.push(if y < 18 {
                Step::Rotate
            } else if y < 30 {
                Step::FlushOne
            } else if y < 55 {
                Step::Flush
            } else if y < 92 || !p.reopen {
                Step::Compact { rounds: r.range(1, 4) as u8 }
            } else {
                Step::Reopen
            });
        }
    }
    out
}

pub fn run_campaign(c: &Campaign, seed: u64, tag: &str) -> Outcome {
    let root = e1::scratch_root().join(tag);
    let _ = std::fs::create_dir_all(&root);
    let total = c.histories * c.variants;
    let claimed = AtomicUsize::new(0);
    let agg = Mutex::new(Outcome {
        stats: Stats::default(),
        evaluations: 0,
        distinct: BTreeSet::new(),
        failures: vec![],
        samples: vec![],
        cfg_sigs: BTreeSet::new(),
    });
    par_for(total, |i| {
        let h = i / c.variants;
        let v = i % c.variants;
        // logical history depends on (seed, h) only
        let hseed = seed.wrapping_mul(0x9E37_79B9).wrapping_add(h as u64 * 7919 + 1);
        let mut hr = Rng::new(hseed);
        let mut cfg0 = Cfg::random(&mut hr.fork(1), c.ver, c.vlog);
        (c.tweak)(&mut cfg0, &mut hr);
        let (keys, base) = {
            let mut gr = hr.fork(2);
            let mut g = Generator::new(&mut gr, c.gen.clone(), &cfg0, hseed);
            let st = g.generate();
            (g.keys.clone(), st)
        };
        // variant: different option set and placement schedule, same logical history
        let (cfg, steps) = if v == 0 {
            (cfg0, base)
        } else {
            let mut vr = Rng::new(hseed ^ (v as u64).wrapping_mul(0xABCD_EF01_2345));
            let mut cf = Cfg::random(&mut vr.fork(1), c.ver, c.vlog);
            // logical-history-relevant dimensions stay those of the base config
            cf.versioning = cfg0.versioning;
            cf.retention = cfg0.retention;
            cf.vlog = cfg0.vlog || cf.versioning;
            if cf.versioning {
                cf.vlog_threshold = 0;
            }
            cf.max_memtable_size = cf.max_memtable_size.max(cfg0.max_memtable_size);
            (c.tweak)(&mut cf, &mut vr);
            cf.versioning = cfg0.versioning;
            cf.retention = cfg0.retention;
            if c.ver == VerMode::On {
                // twin back-ends: the variants of one logical history alternate the version index
                cf.index = if v % 2 == 1 { !cfg0.index } else { cfg0.index };
            } else if c.ver == VerMode::OnIndex {
                cf.index = true;
            }
            let st = reweave(&base, &mut vr.fork(3), &c.gen);
            (cf, st)
        };
        let dir = root.join(format!("h{}", i));
        let (stats, viol) = e1::run_history(&cfg, &keys, &steps, &c.exec, &dir, hseed);
        let mut a = agg.lock().unwrap();
        a.evaluations += 1;
        a.stats.merge(&stats);
        a.cfg_sigs.insert(cfg.sig());
        if (c.nontrivial)(&stats) {
            let shape: Vec<String> = stats.shapes.iter().cloned().collect();
            a.distinct.insert(format!("{}|{}", cfg.sig(), shape.join(";")));
        }
        if a.samples.len() < 3 && viol.is_none() && (c.nontrivial)(&stats) {
            a.samples.push(json!({
                "history": h, "variant": v, "options": cfg.to_json(),
                "steps": steps.iter().map(|s| s.short()).collect::<Vec<_>>(),
                "shapes_seen": stats.shapes.iter().cloned().collect::<Vec<_>>(),
            }));
        }
        if let Some(violation) = viol {
            if claimed.fetch_add(1, Ordering::SeqCst) < 6 {
                drop(a);
                // minimise outside the lock
                let mut st = steps.clone();
                st.truncate(violation.step + 1);
                let st = if c.minimise_budget > 0 {
                    e1::minimise(&cfg, &keys, &st, &c.exec, &dir, hseed, &violation.class, c.minimise_budget)
                } else {
                    st
                };
                let (_, v2) = e1::run_history(&cfg, &keys, &st, &c.exec, &dir, hseed);
                let violation = v2.unwrap_or(violation);
                let mut a = agg.lock().unwrap();
                a.failures.push(Failure { cfg, keys, steps: st, violation, seed: hseed });
            }
        }
    });
    let _ = std::fs::remove_dir_all(&root);
    agg.into_inner().unwrap()
}

pub fn failure_replay(f: &Failure, exec: &ExecOpts) -> J {
    json!({
        "engine": "e1",
        "options": f.cfg.to_json(),
        "keys": f.keys.iter().map(|k| k.iter().map(|b| format!("{:02x}", b)).collect::<String>()).collect::<Vec<_>>(),
        "steps": f.steps.iter().map(|s| s.to_json()).collect::<Vec<_>>(),
        "steps_short": f.steps.iter().map(|s| s.short()).collect::<Vec<_>>(),
        "seed": f.seed,
        "exec": {"fresh_battery": exec.fresh_battery, "versioned": exec.versioned, "vlog_invariant": exec.vlog_invariant,
                 "readers_after_placement": exec.readers_after_placement, "verify_checkpoint": exec.verify_checkpoint,
                 "reopen_mutate": exec.reopen_mutate},
        "violation": {"step": f.violation.step, "class": f.violation.class, "what": f.violation.what},
    })
}

pub fn report_failures(run: &mut Run, out: &Outcome, exec: &ExecOpts) {
    for f in &out.failures {
        let what = format!("[{}] step {}: {}", f.violation.class, f.violation.step, f.violation.what);
        run.violation(&what, failure_replay(f, exec));
    }
}

pub fn stats_json(s: &Stats) -> J {
    json!({
        "steps": s.steps, "commits": s.commits, "fresh_reads": s.reads, "reader_reads": s.reader_reads,
        "reader_reads_after_placement": s.reader_reads_after_placement, "versioned_batteries_through_open_readers": s.reader_versioned_batteries, "cursor_ops": s.cursor_ops,
        "cursor_ops_after_placement": s.cursor_ops_after_placement, "placements": s.placements,
        "compactions_that_changed_tables": s.compactions_changed, "reopens": s.reopens, "restores": s.restores,
        "checkpoints": s.checkpoints, "twin_readers_sharing_start": s.twin_readers,
        "distinct_shapes": s.shapes.len(), "flags": s.flags.iter().cloned().collect::<Vec<_>>(),
        "history_checks": s.hist_checks, "get_at_checks": s.getat_checks, "vlog_invariant_checks": s.vlog_invariant_checks,
    })
}

/// Re-execute an E1 replay file. Returns the violation (if it reproduces).
pub fn replay_e1(j: &J) -> Option<Violation> {
    let r = &j["replay"];
    let cfg = Cfg::from_json(&r["options"]);
    let keys: Vec<Vec<u8>> = r["keys"]
        .as_array()
        .map(|a| a.iter().map(|k| {
            let s = k.as_str().unwrap_or("");
            (0..s.len() / 2).map(|i| u8::from_str_radix(&s[2 * i..2 * i + 2], 16).unwrap_or(0)).collect()
        }).collect())
        .unwrap_or_default();
    let steps: Vec<Step> = r["steps"].as_array().map(|a| a.iter().filter_map(Step::from_json).collect()).unwrap_or_default();
    let e = &r["exec"];
    let exec = ExecOpts {
        fresh_battery: e["fresh_battery"].as_bool().unwrap_or(true),
        versioned: e["versioned"].as_bool().unwrap_or(false),
        vlog_invariant: e["vlog_invariant"].as_bool().unwrap_or(false),
        readers_after_placement: e["readers_after_placement"].as_bool().unwrap_or(true),
        verify_checkpoint: e["verify_checkpoint"].as_bool().unwrap_or(false),
        reopen_mutate: e["reopen_mutate"].as_bool().unwrap_or(false),
    };
    let dir = e1::scratch_root().join("replay");
    let (_, v) = e1::run_history(&cfg, &keys, &steps, &exec, &dir, r["seed"].as_u64().unwrap_or(0));
    let _ = std::fs::remove_dir_all(e1::scratch_root());
    v
}
