//! Engine E2: recorded I/O trace of a real run -> synthesised crash images (process crash,
//! power loss) -> each image opened and checked by the real code in verifier subprocesses.
//! Also drives fault injection through the same shim.

use crate::cfg::Cfg;
use crate::model::{hex, Kind, Model};
use crate::rng::Rng;
use crate::trace::{self, FsState, Loss, Op, Rec};
use serde_json::{json, Value as J};
use std::collections::{BTreeMap, BTreeSet};
use std::io::Write;
use std::path::{Path, PathBuf};
use std::process::{Command, Stdio};
use surrealkv::{Durability, LSMIterator, Mode, Tree};

pub const SHIM: &str = "/verif/shim/iotrace.so";
pub const MARKER_FD: i32 = -7777;
pub const MARK_PREFIX: &[u8] = b"\x00m/";

pub fn mark(s: &str) {
    unsafe {
        libc::write(MARKER_FD, s.as_ptr() as *const libc::c_void, s.len());
    }
}

fn hexenc(b: &[u8]) -> String {
    b.iter().map(|x| format!("{:02x}", x)).collect()
}
fn hexdec(s: &str) -> Vec<u8> {
    (0..s.len() / 2).map(|i| u8::from_str_radix(&s[2 * i..2 * i + 2], 16).unwrap_or(0)).collect()
}

// ---------------------------------------------------------------------------------------
// worker: runs a seeded workload against a real store while the shim records every file op
// ---------------------------------------------------------------------------------------

#[derive(Clone, Debug)]
pub struct Workload {
    pub txns: usize,
    pub committers: usize,
    pub nkeys: usize,
    pub max_value: usize,
    pub immediate_pct: u64,
    pub sync_every: usize, // flush_wal(true) roughly every n txns (0 = never)
    pub close_at_end: bool,
    pub delete_pct: u64,
    pub first_txn: u64,
    /// transaction sizes: probability (percent) of a multi-key batch sized ~ arena/3
    pub big_batch_pct: u64,
    /// >0: deterministic mode - background tasks off, the worker flushes (and runs
    /// compaction rounds) itself after every n-th transaction
    pub manual_flush_every: usize,
    /// probability (percent) that, at the yield point between a commit's WAL write and its
    /// memtable apply, the memtable is rotated (what a concurrent committer or the rotation path
    /// can do at that instant)
    pub hook_rotate_pct: u64,
    /// manual mode only: probability that the oldest immutable memtable is flushed at the yield
    /// point after a commit was published
    pub hook_flush_pct: u64,
    /// single committer only: a transaction begun before a commit that then fails (not with a
    /// conflict) becomes the next transaction and also writes one of the failed one's keys; no
    /// commit succeeded in between, so it must not be refused with a write conflict
    pub stale_writer_after_failure: bool,
}

impl Workload {
    pub fn to_json(&self) -> J {
        json!({"txns": self.txns, "committers": self.committers, "nkeys": self.nkeys, "max_value": self.max_value,
               "immediate_pct": self.immediate_pct, "sync_every": self.sync_every, "close_at_end": self.close_at_end,
               "delete_pct": self.delete_pct, "first_txn": self.first_txn, "big_batch_pct": self.big_batch_pct,
               "manual_flush_every": self.manual_flush_every, "hook_rotate_pct": self.hook_rotate_pct, "hook_flush_pct": self.hook_flush_pct,
               "stale_writer_after_failure": self.stale_writer_after_failure})
    }
    pub fn from_json(j: &J) -> Workload {
        let u = |k: &str| j[k].as_u64().unwrap_or(0);
        Workload {
            txns: u("txns") as usize,
            committers: u("committers").max(1) as usize,
            nkeys: u("nkeys").max(1) as usize,
            max_value: u("max_value") as usize,
            immediate_pct: u("immediate_pct"),
            sync_every: u("sync_every") as usize,
            close_at_end: j["close_at_end"].as_bool().unwrap_or(true),
            delete_pct: u("delete_pct"),
            first_txn: u("first_txn").max(1),
            big_batch_pct: u("big_batch_pct"),
            manual_flush_every: u("manual_flush_every") as usize,
            hook_rotate_pct: u("hook_rotate_pct"),
            hook_flush_pct: u("hook_flush_pct"),
            stale_writer_after_failure: j["stale_writer_after_failure"].as_bool().unwrap_or(false),
        }
    }
}

pub fn wkey(i: usize) -> Vec<u8> {
    format!("k{:03}", i).into_bytes()
}
pub fn marker_key(txn: u64) -> Vec<u8> {
    let mut k = MARK_PREFIX.to_vec();
    k.extend_from_slice(format!("{:08}", txn).as_bytes());
    k
}

#[derive(Clone, Debug)]
pub struct TxnRec {
    pub id: u64,
    pub ops: Vec<(Kind, Vec<u8>, Vec<u8>)>,
    pub immediate: bool,
    pub ok: bool,
    pub err: String,
    pub first_seq: u64,
}

impl TxnRec {
    pub fn to_json(&self) -> J {
        json!({"id": self.id, "immediate": self.immediate, "ok": self.ok, "err": self.err, "first_seq": self.first_seq,
            "ops": self.ops.iter().map(|(k, key, v)| json!([k.name(), hexenc(key), hexenc(v)])).collect::<Vec<_>>()})
    }
    pub fn from_json(j: &J) -> TxnRec {
        TxnRec {
            id: j["id"].as_u64().unwrap_or(0),
            immediate: j["immediate"].as_bool().unwrap_or(false),
            ok: j["ok"].as_bool().unwrap_or(false),
            err: j["err"].as_str().unwrap_or("").to_string(),
            first_seq: j["first_seq"].as_u64().unwrap_or(0),
            ops: j["ops"]
                .as_array()
                .map(|a| {
                    a.iter()
                        .map(|o| {
                            let k = match o[0].as_str().unwrap_or("set") {
                                "set" => Kind::Set,
                                "del" => Kind::Delete,
                                "sdel" => Kind::SoftDelete,
                                _ => Kind::Replace,
                            };
                            (k, hexdec(o[1].as_str().unwrap_or("")), hexdec(o[2].as_str().unwrap_or("")))
                        })
                        .collect()
                })
                .unwrap_or_default(),
        }
    }
}

pub fn gen_txn(r: &mut Rng, w: &Workload, cfg: &Cfg, id: u64, seed: u64) -> (Vec<(Kind, Vec<u8>, Vec<u8>)>, bool) {
    let mut ops = vec![(Kind::Set, marker_key(id), crate::model::mk_value(seed, id, 0, 12))];
    let n = if r.below(100) < w.big_batch_pct {
        // a batch whose size is a good part of a memtable, so that it straddles a rotation
        let per = 60usize;
        ((cfg.max_memtable_size / 4) / per).clamp(4, 40)
    } else {
        match r.below(10) {
            0..=4 => 1,
            5..=7 => r.range(2, 3) as usize,
            _ => r.range(4, 6) as usize,
        }
    };
    let mut used = BTreeSet::new();
    for i in 0..n {
        let k = wkey(r.usize(w.nkeys));
        if !used.insert(k.clone()) {
            continue;
        }
        if r.below(100) < w.delete_pct {
            ops.push((Kind::Delete, k, vec![]));
        } else {
            let len = match r.below(20) {
                0 => 0,
                1 => 1,
                2 | 3 => r.range(12, w.max_value.max(13) as u64) as usize,
                _ => r.range(12, 48.min(w.max_value.max(13)) as u64) as usize,
            };
            ops.push((Kind::Set, k, crate::model::mk_value(seed, id, i as u32 + 1, len)));
        }
    }
    (ops, r.below(100) < w.immediate_pct)
}

/// Entry point of `vharness e2-worker`.
/// serialises the worker's own flush / compaction calls (manual background mode)
static MAINT: std::sync::Mutex<()> = std::sync::Mutex::new(());

pub fn worker_main(args: &[String]) -> i32 {
    // args: <dir> <seed> <cfg json file> <workload json file> <out json>
    let dir = PathBuf::from(&args[0]);
    let seed: u64 = args[1].parse().unwrap_or(1);
    let cfg = Cfg::from_json(&serde_json::from_slice(&std::fs::read(&args[2]).unwrap()).unwrap());
    let w = Workload::from_json(&serde_json::from_slice(&std::fs::read(&args[3]).unwrap()).unwrap());
    let out = PathBuf::from(&args[4]);
    crate::panics::install();
    if w.manual_flush_every > 0 {
        surrealkv::verif::set_manual_background(true);
    }
    let rt = tokio::runtime::Builder::new_multi_thread().worker_threads(4).enable_all().build().unwrap();
    let res = rt.block_on(async move {
        mark("P open.begin");
        let tree = match cfg.open(&dir) {
            Ok(t) => t,
            Err(e) => {
                mark("P open.failed");
                return json!({"open_error": e.to_string()});
            }
        };
        mark("P open.end");
        let tree = std::sync::Arc::new(tree);
        if w.hook_rotate_pct > 0 || w.hook_flush_pct > 0 {
            thread_local! { static IN: std::cell::Cell<bool> = const { std::cell::Cell::new(false) }; }
            let t = tree.clone();
            let state = std::sync::atomic::AtomicU64::new(seed | 1);
            let (rp, fp, manual) = (w.hook_rotate_pct, w.hook_flush_pct, w.manual_flush_every > 0);
            let (mem_stall, l0_stall) = (cfg.memtable_stall, cfg.l0_stall.max(cfg.l0_max_files));
            surrealkv::verif::set_point_hook(Some(std::sync::Arc::new(move |name: &'static str| {
                if name != "commit.after_wal" && name != "commit.after_publish" {
                    return;
                }
                if IN.with(|f| f.replace(true)) {
                    return;
                }
                let mut x = state.load(std::sync::atomic::Ordering::Relaxed);
                x ^= x << 13;
                x ^= x >> 7;
                x ^= x << 17;
                state.store(x, std::sync::atomic::Ordering::Relaxed);
                // in manual mode nothing else flushes or compacts: never let the injected
                // rotations / flushes push the store into a write stall it cannot leave
                let relieve = |t: &Tree| {
                    if let Ok(l) = t.verif_layout() {
                        if l.immutables + 2 >= mem_stall {
                            let _ = t.verif_flush_one();
                        }
                        if l.tables.iter().filter(|x| x.level == 0).count() + 2 >= l0_stall {
                            for _ in 0..3 {
                                let _ = t.verif_compact_once();
                            }
                        }
                    }
                };
                if name == "commit.after_wal" && x % 100 < rp {
                    mark("P hook.rotate");
                    if manual {
                        if let Ok(_one) = MAINT.try_lock() {
                            relieve(&t);
                        }
                    }
                    let _ = t.verif_rotate();
                    if !manual {
                        t.verif_wake_background();
                    }
                } else if name == "commit.after_publish" && manual && (x >> 8) % 100 < fp {
                    if let Ok(_one) = MAINT.try_lock() {
                        mark("P hook.flush_one");
                        let _ = t.verif_flush_one();
                        relieve(&t);
                    }
                }
                IN.with(|f| f.set(false));
            })));
        }
        let per = (w.txns + w.committers - 1) / w.committers;
        let bg_failed = std::sync::Arc::new(std::sync::atomic::AtomicBool::new(false));
        let mut handles = vec![];
        for c in 0..w.committers {
            let tree = tree.clone();
            let w = w.clone();
            let cfg = cfg.clone();
            let bg_failed = bg_failed.clone();
            handles.push(tokio::spawn(async move {
                let mut r = Rng::new(seed ^ (c as u64 + 1).wrapping_mul(0x51ED_270B));
                let mut recs = vec![];
                let stale_probe = w.stale_writer_after_failure && w.committers == 1;
                // (transaction begun before the previous commit, a data key of that commit) when
                // that commit failed
                let mut stale: Option<(surrealkv::Transaction, Vec<u8>)> = None;
                for i in 0..per {
                    let id = w.first_txn + (c * per + i) as u64;
                    let (mut ops, immediate) = gen_txn(&mut r, &w, &cfg, id, seed);
                    let mode = if r.chance(1, 3) { Mode::WriteOnly } else { Mode::ReadWrite };
                    let mut stale_key = None;
                    let begun = match stale.take() {
                        Some((t, k)) => {
                            if !ops.iter().any(|o| o.1 == k) {
                                ops.push((Kind::Set, k.clone(), crate::model::mk_value(seed, id, 99, 14)));
                            }
                            stale_key = Some(k);
                            Ok(t)
                        }
                        None => tree.begin_with_mode(mode),
                    };
                    let mut t = match begun {
                        Ok(t) => t,
                        Err(e) => {
                            recs.push(TxnRec { id, ops, immediate, ok: false, err: format!("begin: {e}"), first_seq: 0 });
                            continue;
                        }
                    };
                    let spare = if stale_probe { tree.begin_with_mode(Mode::ReadWrite).ok() } else { None };
                    if immediate {
                        t.set_durability(Durability::Immediate);
                    }
                    for (k, key, v) in &ops {
                        let _ = match k {
                            Kind::Delete => t.delete(key),
                            _ => t.set(key, v),
                        };
                    }
                    mark(&format!("B {}", id));
                    let res = t.commit().await;
                    match &res {
                        Ok(()) => mark(&format!("A {} {}", id, if immediate { "I" } else { "E" })),
                        Err(e) => mark(&format!("E {} {}", id, e)),
                    }
                    drop(t);
                    let mut err_text = res.as_ref().err().map(|e| e.to_string()).unwrap_or_default();
                    if let (Some(k), Err(surrealkv::Error::TransactionWriteConflict)) = (&stale_key, &res) {
                        // begun before a commit that failed, nothing committed since
                        err_text.push_str(&format!(" [SPURIOUS-CONFLICT on {}]", String::from_utf8_lossy(k)));
                    }
                    if let (Some(sp), Err(e)) = (spare, &res) {
                        if !matches!(e, surrealkv::Error::TransactionWriteConflict | surrealkv::Error::TransactionRetry) {
                            if let Some(o) = ops.iter().find(|o| !o.1.starts_with(MARK_PREFIX)) {
                                stale = Some((sp, o.1.clone()));
                            }
                        }
                    }
                    if res.is_err() {
                        // C15: a fresh reader right after the failed commit must not see its marker key
                        if let Ok(rd) = tree.begin_with_mode(Mode::ReadOnly) {
                            if let Ok(Some(_)) = rd.get(&marker_key(id)) {
                                err_text.push_str(" [VISIBLE-AFTER-ERROR]");
                            }
                        }
                    }
                    recs.push(TxnRec { id, ops, immediate, ok: res.is_ok(), err: err_text, first_seq: 0 });
                    if w.sync_every > 0 && r.below(w.sync_every as u64) == 0 {
                        mark("Y"); // sync invoked
                        if tree.flush_wal(true).is_ok() {
                            mark("S");
                        }
                    }
                    if w.manual_flush_every > 0 && (i + 1) % w.manual_flush_every == 0 && !bg_failed.load(std::sync::atomic::Ordering::SeqCst) {
                        {
                        // the store has ONE flush task and ONE compaction task: never two at once
                        let _one = MAINT.lock().unwrap_or_else(|e| e.into_inner());
                        mark("P flush.begin");
                        // like the background tasks: after a failure (sticky background error)
                        // no further flush / compaction is attempted
                        let mut failed = tree.verif_flush().is_err();
                        for _ in 0..3 {
                            if failed {
                                break;
                            }
                            failed = tree.verif_compact_once().is_err();
                        }
                        if failed {
                            mark("P background.failed");
                            bg_failed.store(true, std::sync::atomic::Ordering::SeqCst);
                        }
                        mark("P flush.end");
                        }
                        // let the detached WAL clean-up run
                        tokio::time::sleep(std::time::Duration::from_millis(2)).await;
                    }
                    if r.chance(1, 6) {
                        tokio::task::yield_now().await;
                    }
                }
                recs
            }));
        }
        // Manual mode, several committers: they can all end up waiting in the write stall (the
        // memtable of a commit that found its arena full is rotated by the store itself), and in
        // manual mode only committers flush. What the store's background flush task would do
        // then is done here, and only then: a stall condition exists and nobody is flushing.
        let relief_stop = std::sync::Arc::new(std::sync::atomic::AtomicBool::new(false));
        let relief = if w.manual_flush_every > 0 && w.committers > 1 {
            let (t, stop, bg_failed) = (tree.clone(), relief_stop.clone(), bg_failed.clone());
            let (mem_stall, l0_stall) = (cfg.memtable_stall, cfg.l0_stall.max(cfg.l0_max_files));
            let h = tokio::runtime::Handle::current();
            Some(std::thread::spawn(move || {
                let _g = h.enter();
                while !stop.load(std::sync::atomic::Ordering::SeqCst) {
                    std::thread::sleep(std::time::Duration::from_millis(40));
                    if bg_failed.load(std::sync::atomic::Ordering::SeqCst) {
                        continue;
                    }
                    let Ok(l) = t.verif_layout() else { continue };
                    let l0 = l.tables.iter().filter(|x| x.level == 0).count();
                    if l.immutables < mem_stall && l0 < l0_stall {
                        continue;
                    }
                    if let Ok(_one) = MAINT.try_lock() {
                        mark("P relief.flush");
                        let mut failed = l.immutables > 0 && t.verif_flush_one().is_err();
                        for _ in 0..3 {
                            if failed {
                                break;
                            }
                            failed = t.verif_compact_once().is_err();
                        }
                        if failed {
                            mark("P background.failed");
                            bg_failed.store(true, std::sync::atomic::Ordering::SeqCst);
                        }
                    }
                }
            }))
        } else {
            None
        };
        let mut recs: Vec<TxnRec> = vec![];
        for h in handles {
            if let Ok(r) = h.await {
                recs.extend(r);
            }
        }
        relief_stop.store(true, std::sync::atomic::Ordering::SeqCst);
        if let Some(r) = relief {
            let _ = r.join();
        }
        // commit order at the public boundary: sequence numbers of the marker keys
        let mut seqs: BTreeMap<u64, u64> = BTreeMap::new();
        let mut scan_ok = false;
        if let Ok(tx) = tree.begin_with_mode(Mode::ReadOnly) {
            let mut hi = MARK_PREFIX.to_vec();
            *hi.last_mut().unwrap() += 1;
            if let Ok(mut it) = tx.range(MARK_PREFIX, &hi[..]) {
                scan_ok = true;
                let mut ok = match it.seek_first() {
                    Ok(b) => b,
                    Err(_) => {
                        scan_ok = false;
                        false
                    }
                };
                while ok {
                    let k = it.key();
                    let id: u64 = String::from_utf8_lossy(&k.user_key()[MARK_PREFIX.len()..]).parse().unwrap_or(0);
                    seqs.insert(id, k.seq_num());
                    ok = match it.next() {
                        Ok(b) => b,
                        Err(_) => {
                            scan_ok = false;
                            false
                        }
                    };
                }
            }
        }
        for r in recs.iter_mut() {
            r.first_seq = *seqs.get(&r.id).unwrap_or(&0);
        }
        let vis = tree.verif_visible_seq();
        let mut close_err = None;
        if w.close_at_end {
            mark("P close.begin");
            if let Err(e) = tree.close().await {
                close_err = Some(e.to_string());
            }
            mark("P close.end");
        }
        json!({"txns": recs.iter().map(|r| r.to_json()).collect::<Vec<_>>(), "visible_seq": vis, "close_error": close_err, "marker_scan_ok": scan_ok,
               "panics": crate::panics::drain_all()})
    });
    let _ = std::fs::write(&out, serde_json::to_vec(&res).unwrap_or_default());
    // do not run destructors of the runtime (a killed process would not either)
    std::process::exit(0);
}

// ---------------------------------------------------------------------------------------
// traces, image plans
// ---------------------------------------------------------------------------------------

pub struct TraceRun {
    pub dir: PathBuf, // where the worker ran (kept for nothing; images are rebuilt from the trace)
    pub root: String,
    pub recs: Vec<Rec>,
    pub txns: Vec<TxnRec>, // in commit order (ok ones with seq), failed ones kept separately
    pub failed: Vec<TxnRec>,
    pub cfg: Cfg,
    pub seed: u64,
    pub worker_out: J,
    pub base: FsState, // state before the trace (empty for generation 1)
    pub base_model: Vec<TxnRec>,
}

pub fn run_worker(scratch: &Path, name: &str, cfg: &Cfg, w: &Workload, seed: u64, fault: Option<&str>, base_dir: Option<&Path>) -> Result<TraceRun, String> {
    let dir = scratch.join(format!("{}-db", name));
    let _ = std::fs::remove_dir_all(&dir);
    if let Some(b) = base_dir {
        crate::e1::copy_dir(b, &dir).map_err(|e| e.to_string())?;
    } else {
        std::fs::create_dir_all(&dir).map_err(|e| e.to_string())?;
    }
    let base = if base_dir.is_some() { FsState::from_dir(&dir) } else { FsState::new() };
    let tracef = scratch.join(format!("{}.trace", name));
    let _ = std::fs::remove_file(&tracef);
    let cfgf = scratch.join(format!("{}.cfg.json", name));
    let wf = scratch.join(format!("{}.wl.json", name));
    let outf = scratch.join(format!("{}.out.json", name));
    let _ = std::fs::remove_file(&outf);
    std::fs::write(&cfgf, serde_json::to_vec(&cfg.to_json()).unwrap()).map_err(|e| e.to_string())?;
    std::fs::write(&wf, serde_json::to_vec(&w.to_json()).unwrap()).map_err(|e| e.to_string())?;
    let exe = std::env::current_exe().map_err(|e| e.to_string())?;
    let mut cmd = Command::new(exe);
    cmd.arg("e2-worker").arg(&dir).arg(seed.to_string()).arg(&cfgf).arg(&wf).arg(&outf);
    cmd.env("LD_PRELOAD", SHIM).env("VERIF_ROOT", &dir).env("VERIF_TRACE", &tracef);
    if let Some(f) = fault {
        cmd.env("VERIF_FAULT", f);
    } else {
        cmd.env_remove("VERIF_FAULT");
    }
    cmd.stdout(Stdio::null()).stderr(Stdio::piped());
    let mut child = cmd.spawn().map_err(|e| e.to_string())?;
    // generous wall-clock watchdog; its firing is inconclusive, never a violation
    let start = std::time::Instant::now();
    let status = loop {
        match child.try_wait() {
            Ok(Some(s)) => break Some(s),
            Ok(None) => {
                if start.elapsed().as_secs() > 120 {
                    let _ = child.kill();
                    let _ = child.wait();
                    break None;
                }
                std::thread::sleep(std::time::Duration::from_millis(5));
            }
            Err(e) => return Err(e.to_string()),
        }
    };
    if status.is_none() {
        return Err("WATCHDOG: traced worker did not finish within 120 s".into());
    }
    let recs = trace::parse(&std::fs::read(&tracef).unwrap_or_default());
    let worker_out: J = std::fs::read(&outf).ok().and_then(|b| serde_json::from_slice(&b).ok()).unwrap_or(J::Null);
    if worker_out.is_null() {
        return Err(format!("worker produced no output (status {:?})", status));
    }
    let mut all: Vec<TxnRec> = worker_out["txns"].as_array().map(|a| a.iter().map(TxnRec::from_json).collect()).unwrap_or_default();
    let failed: Vec<TxnRec> = all.iter().filter(|t| !t.ok).cloned().collect();
    all.retain(|t| t.ok);
    all.sort_by_key(|t| t.first_seq);
    let root = trace::root_string(&dir);
    let _ = std::fs::remove_file(&cfgf);
    let _ = std::fs::remove_file(&wf);
    Ok(TraceRun { dir, root, recs, txns: all, failed, cfg: cfg.clone(), seed, worker_out, base, base_model: vec![] })
}

#[derive(Clone, Debug)]
pub struct ImagePlan {
    /// apply trace records [0..=upto]
    pub upto: usize,
    /// durable-set reference position: last record index for which this image is the disk state
    pub ref_pos: usize,
    pub loss: Loss,
}

fn changes_fs(r: &Rec) -> bool {
    match r.op {
        Op::Write | Op::Pwrite | Op::Trunc | Op::Rename | Op::Unlink | Op::Link => r.res >= 0,
        Op::Fsync => r.res >= 0 && r.flags == 0,
        Op::Open => r.res >= 0 && (r.flags & (trace::O_CREAT | trace::O_TRUNC)) != 0,
        Op::Mkdir | Op::Rmdir => r.res >= 0,
        _ => false,
    }
}

/// Enumerate the crash images of a trace. `dense` = all cut kinds, otherwise a seeded subset
/// of the mixed cuts ("none" and "all" are always enumerated at every boundary).
pub fn plan_images(t: &TraceRun, r: &mut Rng, dense: bool, stride: usize) -> Vec<ImagePlan> {
    let mut plans = Vec::new();
    let mut st = t.base.clone();
    let n = t.recs.len();
    let change_idx: Vec<usize> = (0..n).filter(|i| changes_fs(&t.recs[*i])).collect();
    let mut next_change = change_idx.iter().peekable();
    let mut applied = 0usize;
    let mut count = 0usize;
    while let Some(&i) = next_change.next() {
        while applied <= i {
            st.apply(&t.root, &t.recs[applied]);
            applied += 1;
        }
        let ref_pos = next_change.peek().map(|j| **j - 1).unwrap_or(n - 1);
        count += 1;
        if stride > 1 && count % stride != 0 && i + 1 != n {
            continue;
        }
        // a write that is not followed by any marker/ack before the next change and does not
        // itself complete anything still gets an image: cheap enough
        plans.push(ImagePlan { upto: i, ref_pos, loss: Loss::Process });
        let dirty = st.dirty_files();
        if !dirty.is_empty() || st.inodes.iter().any(|x| x.synced.is_none() && !x.data.is_empty()) {
            plans.push(ImagePlan { upto: i, ref_pos, loss: Loss::PowerNone });
        }
        for (file, nw, first_len) in dirty {
            if file == "LOCK" || file.ends_with("/LOCK") {
                continue;
            }
            let is_log = file.ends_with(".wal") || file.ends_with(".vlog");
            let base = file.rsplit('/').next().unwrap_or(&file).to_string();
            let fname = format!("/{}", base);
            if is_log {
                // cuts at later write boundaries
                let ks: Vec<usize> = if dense { (1..=nw).collect() } else { (1..=nw).filter(|_| r.chance(1, 3)).take(2).collect() };
                for k in ks {
                    plans.push(ImagePlan { upto: i, ref_pos, loss: Loss::PowerCut { file: fname.clone(), writes: k, torn: 0 } });
                }
                // cuts that leave the file ending exactly on a 32 KiB block boundary (the leading
                // fragments of a record that spans blocks, without its end)
                if file.ends_with(".wal") {
                    let cuts = st.block_boundary_cuts(&file, 32 * 1024);
                    let cuts: Vec<(usize, usize)> = if dense { cuts } else { cuts.into_iter().filter(|_| r.chance(1, 2)).take(2).collect() };
                    for (k, tcut) in cuts {
                        plans.push(ImagePlan { upto: i, ref_pos, loss: Loss::PowerCut { file: fname.clone(), writes: k, torn: tcut } });
                    }
                }
                // torn cuts inside the first unsynced write: partial record headers
                let mut torn: Vec<usize> = if dense { (1..=8).collect() } else { vec![r.range(1, 8) as usize] };
                if first_len > 9 {
                    torn.push(r.range(9, first_len as u64 - 1) as usize);
                }
                for tcut in torn {
                    if tcut < first_len {
                        plans.push(ImagePlan { upto: i, ref_pos, loss: Loss::PowerCut { file: fname.clone(), writes: 0, torn: tcut } });
                    }
                }
            }
            if dense || r.chance(1, 4) {
                plans.push(ImagePlan { upto: i, ref_pos, loss: Loss::PowerKeepOnly { file: fname.clone() } });
                plans.push(ImagePlan { upto: i, ref_pos, loss: Loss::PowerLoseOnly { file: fname.clone() } });
            }
        }
    }
    plans
}

/// Position of ack / durability for every committed transaction.
pub struct Acks {
    /// txn id -> trace index of its ACK marker
    pub ack: BTreeMap<u64, usize>,
    /// txn id -> trace index from which the txn is guaranteed power-durable
    pub durable: BTreeMap<u64, usize>,
    pub begun: BTreeMap<u64, usize>,
}

pub fn acks(recs: &[Rec]) -> Acks {
    let mut ack = BTreeMap::new();
    let mut durable = BTreeMap::new();
    let mut begun = BTreeMap::new();
    // a sync covers a commit only if the sync was *invoked* after the ack was observed
    let mut pending: Vec<u64> = vec![]; // acked, eventual, not yet covered
    let mut sync_cover: Vec<Vec<u64>> = vec![]; // stack of snapshots taken at "Y"
    for (i, r) in recs.iter().enumerate() {
        if r.op != Op::Mark {
            continue;
        }
        let s = String::from_utf8_lossy(&r.data).to_string();
        let mut it = s.split(' ');
        match it.next() {
            Some("B") => {
                if let Some(id) = it.next().and_then(|x| x.parse().ok()) {
                    begun.insert(id, i);
                }
            }
            Some("A") => {
                if let Some(id) = it.next().and_then(|x| x.parse::<u64>().ok()) {
                    ack.insert(id, i);
                    if it.next() == Some("I") {
                        durable.insert(id, i);
                    } else {
                        pending.push(id);
                    }
                }
            }
            Some("Y") => sync_cover.push(pending.clone()),
            Some("S") => {
                // with several committers Y/S pairs of different tasks may interleave; the oldest
                // outstanding snapshot is a subset of every later one, so it is safe to use
                if !sync_cover.is_empty() {
                    let cov = sync_cover.remove(0);
                    for id in cov {
                        durable.entry(id).or_insert(i);
                    }
                    pending.retain(|id| !durable.contains_key(id));
                }
            }
            _ => {}
        }
    }
    Acks { ack, durable, begun }
}

// ---------------------------------------------------------------------------------------
// verification of one image by the real code
// ---------------------------------------------------------------------------------------

#[derive(Clone, Debug, Default)]
pub struct ImgResult {
    pub idx: usize,
    pub open_ok: bool,
    pub prefix: Option<usize>,
    pub required: usize,
    pub nontrivial: bool,
    pub problems: Vec<(String, String)>, // (class, what)
    pub recovered_txns: usize,
    pub repaired: bool,
    pub probe_done: bool,
    pub sig: String,
}

pub fn prefix_states(txns: &[TxnRec]) -> Vec<BTreeMap<Vec<u8>, Vec<u8>>> {
    let mut states = Vec::with_capacity(txns.len() + 1);
    let mut cur: BTreeMap<Vec<u8>, Vec<u8>> = BTreeMap::new();
    states.push(cur.clone());
    for t in txns {
        for (k, key, v) in &t.ops {
            match k {
                Kind::Delete | Kind::SoftDelete => {
                    cur.remove(key);
                }
                _ => {
                    cur.insert(key.clone(), v.clone());
                }
            }
        }
        states.push(cur.clone());
    }
    states
}

pub fn scan_all(tree: &Tree) -> Result<BTreeMap<Vec<u8>, Vec<u8>>, String> {
    let tx = tree.begin_with_mode(Mode::ReadOnly).map_err(|e| format!("begin: {e}"))?;
    let mut out = BTreeMap::new();
    let mut it = tx.range(&b"\x00"[..], &b"\xff\xff\xff\xff"[..]).map_err(|e| format!("range: {e}"))?;
    let mut ok = it.seek_first().map_err(|e| format!("seek_first: {e}"))?;
    while ok {
        let k = it.key().user_key().to_vec();
        let v = it.value().map_err(|e| format!("value of {}: {e}", hex(&k)))?;
        out.insert(k, v);
        ok = it.next().map_err(|e| format!("next: {e}"))?;
    }
    Ok(out)
}

fn describe_diff(rec: &BTreeMap<Vec<u8>, Vec<u8>>, st: &BTreeMap<Vec<u8>, Vec<u8>>) -> String {
    let mut d = vec![];
    let tag = |v: &Vec<u8>| if v.len() >= 8 { format!("txn{}", u64::from_be_bytes(v[..8].try_into().unwrap())) } else { format!("len{}", v.len()) };
    for (k, v) in rec {
        match st.get(k) {
            None => d.push(format!("{} present({}) but absent in prefix", hex(k), tag(v))),
            Some(w) if w != v => d.push(format!("{} has {} but prefix has {}", hex(k), tag(v), tag(w))),
            _ => {}
        }
    }
    for (k, w) in st {
        if !rec.contains_key(k) {
            d.push(format!("{} missing (prefix has {})", hex(k), tag(w)));
        }
    }
    d.truncate(6);
    d.join("; ")
}

pub struct VerifyCtx<'a> {
    pub cfg: &'a Cfg,
    pub txns: &'a [TxnRec],
    pub states: &'a [BTreeMap<Vec<u8>, Vec<u8>>],
    pub acks: &'a Acks,
    pub failed_ids: BTreeSet<u64>,
    pub failed_recs: &'a [TxnRec],
    pub base_required: usize,
}

/// Open the image with the real code and check it. `probe`: also do the commit-after-recovery
/// checks (C07 / C02 later-session clause).
pub async fn verify_image(ctx: &VerifyCtx<'_>, img: &Path, plan: &ImagePlan, idx: usize, probe: bool) -> ImgResult {
    let mut res = ImgResult { idx, ..Default::default() };
    let power = plan.loss != Loss::Process;
    // required prefix length
    let mut required = 0usize;
    for (i, t) in ctx.txns.iter().enumerate() {
        let pos = if power { ctx.acks.durable.get(&t.id) } else { ctx.acks.ack.get(&t.id) };
        if let Some(p) = pos {
            if *p <= plan.ref_pos {
                required = required.max(i + 1);
            }
        }
    }
    let required = required.max(ctx.base_required);
    res.required = required;
    res.nontrivial = required > 0;
    let had_repair_dir = img.join("wal").join("repair_temp").exists();
    let tree = match ctx.cfg.open(img) {
        Ok(t) => t,
        Err(e) => {
            res.problems.push(("open".into(), format!("open of the crash image failed: {e}")));
            return res;
        }
    };
    res.open_ok = true;
    let _ = had_repair_dir;
    let rec = match scan_all(&tree) {
        Ok(r) => r,
        Err(e) => {
            let class = if e.contains("VLog") { "vlog_read" } else { "read" };
            res.problems.push((class.into(), format!("scan of the recovered store failed: {e}")));
            close_tree(tree).await;
            return res;
        }
    };
    // point gets must agree with the scan
    if let Ok(tx) = tree.begin_with_mode(Mode::ReadOnly) {
        let mut keys: BTreeSet<Vec<u8>> = rec.keys().cloned().collect();
        if let Some(last) = ctx.states.last() {
            keys.extend(last.keys().cloned());
        }
        for k in keys {
            match tx.get(&k) {
                Ok(v) => {
                    if v.as_ref() != rec.get(&k) {
                        res.problems.push(("read".into(), format!("after recovery get({}) disagrees with the scan", hex(&k))));
                        break;
                    }
                }
                Err(e) => {
                    res.problems.push(("read".into(), format!("after recovery get({}) failed: {e}", hex(&k))));
                    break;
                }
            }
        }
    }
    res.recovered_txns = rec.keys().filter(|k| k.starts_with(MARK_PREFIX)).count();
    // C03: some prefix of the commit order
    let mut matched = None;
    for n in (0..ctx.states.len()).rev() {
        if ctx.states[n] == rec {
            matched = Some(n);
            break;
        }
    }
    res.prefix = matched;
    match matched {
        None => {
            // closest prefix by marker count for the witness
            let n = res.recovered_txns.min(ctx.states.len() - 1);
            let present: Vec<u64> = rec.keys().filter(|k| k.starts_with(MARK_PREFIX)).map(|k| String::from_utf8_lossy(&k[MARK_PREFIX.len()..]).parse().unwrap_or(0)).collect();
            // commit-order view: first absent transaction and what follows it
            let mut view = vec![];
            if let Some(first_absent) = ctx.txns.iter().position(|t| !rec.contains_key(&marker_key(t.id))) {
                for (i, t) in ctx.txns.iter().enumerate().skip(first_absent).take(8) {
                    view.push(format!("#{}:txn{}(seq{}){}", i, t.id, t.first_seq, if rec.contains_key(&marker_key(t.id)) { "+" } else { "-" }));
                }
            }
            res.problems.push((
                "prefix".into(),
                format!(
                    "recovered state is not the result of any prefix of the commit order; in commit order from the first absent transaction (+present -absent): [{}]; {} transaction markers present: {:?}{}; against the prefix of that length: {}",
                    view.join(" "),
                    present.len(),
                    &present[..present.len().min(12)],
                    if present.len() > 12 { "..." } else { "" },
                    describe_diff(&rec, &ctx.states[n])
                ),
            ));
            // is it the commit order with failed transactions replayed at their place?
            if !ctx.failed_recs.is_empty() {
                let mut all: Vec<TxnRec> = ctx.txns.to_vec();
                all.extend(ctx.failed_recs.iter().cloned());
                all.sort_by_key(|t| t.id);
                if prefix_states(&all).iter().any(|s| *s == rec) {
                    res.problems.push(("explained_by_failed_replay".into(), "the state equals a prefix of the issue order with the failed transactions applied".into()));
                }
            }
            // still evaluate durability per transaction marker
            for (i, t) in ctx.txns.iter().enumerate().take(required) {
                if !rec.contains_key(&marker_key(t.id)) {
                    res.problems.push(("durability".into(), format!("acknowledged transaction {} (#{} in commit order) is missing after recovery", t.id, i)));
                    break;
                }
            }
        }
        Some(n) => {
            if n < required {
                let t = &ctx.txns[required - 1];
                res.problems.push((
                    "durability".into(),
                    format!(
                        "recovered exactly the first {} transactions, but transaction {} (#{} in commit order, {}) had been acknowledged{} before the crash point",
                        n,
                        t.id,
                        required - 1,
                        if t.immediate { "Immediate" } else { "Eventual" },
                        if power { " as durable" } else { "" }
                    ),
                ));
            }
        }
    }
    // C10 crash clause: with versioning on, the history of every key after recovery lists each
    // version of the recovered prefix exactly once, newest first (the workloads of these traces
    // only set values, so every version is retained)
    if ctx.cfg.versioning {
        if let Some(n) = matched {
            let mut exp: BTreeMap<Vec<u8>, Vec<Vec<u8>>> = BTreeMap::new();
            for t in ctx.txns.iter().take(n) {
                for (k, key, v) in &t.ops {
                    if *k == Kind::Set {
                        exp.entry(key.clone()).or_default().insert(0, v.clone());
                    }
                }
            }
            let got: Result<BTreeMap<Vec<u8>, Vec<Vec<u8>>>, String> = (|| {
                let tx = tree.begin_with_mode(Mode::ReadOnly).map_err(|e| e.to_string())?;
                let o = surrealkv::HistoryOptions::new().with_tombstones(false);
                let mut it = tx.history_with_options(&b"\x00"[..], &b"\xff\xff\xff\xff"[..], &o).map_err(|e| e.to_string())?;
                let mut m: BTreeMap<Vec<u8>, Vec<Vec<u8>>> = BTreeMap::new();
                let mut ok = it.seek_first().map_err(|e| e.to_string())?;
                while ok && it.valid() {
                    let k = it.key().user_key().to_vec();
                    let v = it.value().map_err(|e| format!("value of {}: {e}", hex(&k)))?;
                    m.entry(k).or_default().push(v);
                    ok = it.next().map_err(|e| e.to_string())?;
                }
                Ok(m)
            })();
            match got {
                Err(e) => res.problems.push(("history_after_crash".into(), format!("history of the recovered store failed: {e}"))),
                Ok(m) => {
                    if m != exp {
                        let bad = exp.iter().find(|(k, v)| m.get(*k) != Some(v)).map(|(k, v)| (k.clone(), v.len(), m.get(k).map(|x| x.len())));
                        let extra = m.keys().find(|k| !exp.contains_key(*k)).cloned();
                        res.problems.push((
                            "history_after_crash".into(),
                            format!(
                                "the recovered state is the first {} transactions, but the version history differs: {}",
                                n,
                                match (bad, extra) {
                                    (Some((k, e, g)), _) => format!("key {} has {} versions in the committed prefix, the history lists {:?}", hex(&k), e, g),
                                    (None, Some(k)) => format!("the history lists key {} which the prefix never wrote", hex(&k)),
                                    _ => "?".into(),
                                }
                            ),
                        ));
                    }
                }
            }
        }
    }
    for id in &ctx.failed_ids {
        if rec.contains_key(&marker_key(*id)) {
            res.problems.push(("failed_visible".into(), format!("transaction {} whose commit returned an error is present after recovery", id)));
        }
    }
    res.sig = format!("{:?}|r{}|p{:?}", std::mem::discriminant(&plan.loss), required.min(3), matched.map(|m| (m as i64 - required as i64).clamp(-2, 2)));
    if probe && res.problems.is_empty() {
        res.probe_done = true;
        // commit after recovery: ordered after everything recovered, readable, survives reopen
        let pk = b"\x00probe".to_vec();
        let okey = rec.keys().find(|k| !k.starts_with(b"\x00")).cloned();
        let pv = format!("probe-{}", idx).into_bytes();
        let r: Result<(), String> = async {
            let mut tx = tree.begin().map_err(|e| e.to_string())?;
            tx.set_durability(Durability::Immediate);
            tx.set(&pk, &pv).map_err(|e| e.to_string())?;
            if let Some(k) = &okey {
                tx.set(k, &pv).map_err(|e| e.to_string())?;
            }
            tx.commit().await.map_err(|e| format!("commit after recovery failed: {e}"))?;
            Ok(())
        }
        .await;
        if let Err(e) = r {
            res.problems.push(("probe".into(), e));
        } else {
            let check = |t: &Tree, when: &str| -> Option<String> {
                let tx = t.begin_with_mode(Mode::ReadOnly).ok()?;
                if tx.get(&pk).ok().flatten().as_deref() != Some(&pv[..]) {
                    return Some(format!("probe key written after recovery is not readable {when}"));
                }
                if let Some(k) = &okey {
                    let g = tx.get(k).ok().flatten();
                    if g.as_deref() != Some(&pv[..]) {
                        return Some(format!("key {} overwritten after recovery shows an older value {when} (shadowed by recovered data)", hex(k)));
                    }
                }
                None
            };
            if let Some(p) = check(&tree, "immediately") {
                res.problems.push(("probe".into(), p));
            }
            close_tree(tree).await;
            match ctx.cfg.open(img) {
                Err(e) => res.problems.push(("open".into(), format!("second open after recovery + commit failed: {e}"))),
                Ok(t2) => {
                    if let Some(p) = check(&t2, "after another reopen") {
                        // acknowledged (immediate durability) in the session after the crash,
                        // gone after a clean close + reopen: also a durability failure (C02,
                        // "commits made in any later session")
                        res.problems.push(("later_session".into(), format!("commit acknowledged with immediate durability in the session after recovery: {p}")));
                        res.problems.push(("probe".into(), p));
                    }
                    // everything else unchanged
                    if let Ok(rec2) = scan_all(&t2) {
                        let mut exp = rec.clone();
                        exp.insert(pk.clone(), pv.clone());
                        if let Some(k) = &okey {
                            exp.insert(k.clone(), pv.clone());
                        }
                        if rec2 != exp {
                            res.problems.push(("reopen_differs".into(), format!("contents after a second open differ from the first recovery: {}", describe_diff(&rec2, &exp))));
                        }
                    }
                    close_tree(t2).await;
                }
            }
            return res;
        }
    }
    close_tree(tree).await;
    res
}

pub async fn close_tree(t: Tree) {
    let _ = t.close().await;
    drop(t);
    for _ in 0..4 {
        tokio::task::yield_now().await;
    }
}

// ---------------------------------------------------------------------------------------
// job files + verifier subprocess pool
// ---------------------------------------------------------------------------------------

pub fn loss_json(l: &Loss) -> J {
    match l {
        Loss::Process => json!({"k": "process"}),
        Loss::PowerNone => json!({"k": "power_none"}),
        Loss::PowerCut { file, writes, torn } => json!({"k": "power_cut", "file": file, "writes": writes, "torn": torn}),
        Loss::PowerKeepOnly { file } => json!({"k": "power_keep_only", "file": file}),
        Loss::PowerLoseOnly { file } => json!({"k": "power_lose_only", "file": file}),
    }
}
pub fn loss_from(j: &J) -> Loss {
    let f = j["file"].as_str().unwrap_or("").to_string();
    match j["k"].as_str().unwrap_or("process") {
        "power_none" => Loss::PowerNone,
        "power_cut" => Loss::PowerCut { file: f, writes: j["writes"].as_u64().unwrap_or(0) as usize, torn: j["torn"].as_u64().unwrap_or(0) as usize },
        "power_keep_only" => Loss::PowerKeepOnly { file: f },
        "power_lose_only" => Loss::PowerLoseOnly { file: f },
        _ => Loss::Process,
    }
}

pub struct Job {
    pub trace_file: PathBuf,
    pub root: String,
    pub cfg: Cfg,
    pub txns: Vec<TxnRec>,
    pub failed: Vec<u64>,
    /// C15, single-committer traces only: the failed transactions with their operations, so
    /// that a non-prefix state can be recognised as "commit order with the failed ones replayed"
    pub failed_recs: Vec<TxnRec>,
    /// second generation: the first `base_required` transactions of `txns` were recovered by the
    /// run that produced the base image; they are on disk and must survive every later crash
    pub base_required: usize,
    pub plans: Vec<ImagePlan>,
    pub probe_every: usize,
    pub base_dir: Option<PathBuf>,
    /// where pristine copies of images with problems are kept (for replay)
    pub keep_dir: Option<PathBuf>,
}

impl Job {
    pub fn to_json(&self) -> J {
        json!({
            "trace_file": self.trace_file, "root": self.root, "cfg": self.cfg.to_json(),
            "txns": self.txns.iter().map(|t| t.to_json()).collect::<Vec<_>>(),
            "failed": self.failed,
            "failed_recs": self.failed_recs.iter().map(|t| t.to_json()).collect::<Vec<_>>(),
            "base_required": self.base_required,
            "plans": self.plans.iter().map(|p| json!({"upto": p.upto, "ref_pos": p.ref_pos, "loss": loss_json(&p.loss)})).collect::<Vec<_>>(),
            "probe_every": self.probe_every,
            "base_dir": self.base_dir,
            "keep_dir": self.keep_dir,
        })
    }
    pub fn from_json(j: &J) -> Job {
        Job {
            trace_file: PathBuf::from(j["trace_file"].as_str().unwrap_or("")),
            root: j["root"].as_str().unwrap_or("").to_string(),
            cfg: Cfg::from_json(&j["cfg"]),
            txns: j["txns"].as_array().map(|a| a.iter().map(TxnRec::from_json).collect()).unwrap_or_default(),
            failed: j["failed"].as_array().map(|a| a.iter().filter_map(|x| x.as_u64()).collect()).unwrap_or_default(),
            failed_recs: j["failed_recs"].as_array().map(|a| a.iter().map(TxnRec::from_json).collect()).unwrap_or_default(),
            base_required: j["base_required"].as_u64().unwrap_or(0) as usize,
            plans: j["plans"]
                .as_array()
                .map(|a| {
                    a.iter()
                        .map(|p| ImagePlan { upto: p["upto"].as_u64().unwrap_or(0) as usize, ref_pos: p["ref_pos"].as_u64().unwrap_or(0) as usize, loss: loss_from(&p["loss"]) })
                        .collect()
                })
                .unwrap_or_default(),
            probe_every: j["probe_every"].as_u64().unwrap_or(0) as usize,
            base_dir: j["base_dir"].as_str().map(PathBuf::from),
            keep_dir: j["keep_dir"].as_str().map(PathBuf::from),
        }
    }
}

/// Entry point of `vharness e2-verify <jobfile> <k> <n> [only_idx]`: verifies the images whose
/// index is congruent to k mod n and prints one JSON line per image.
pub fn verify_main(args: &[String]) -> i32 {
    let job = Job::from_json(&serde_json::from_slice(&std::fs::read(&args[0]).unwrap()).unwrap());
    let k: usize = args[1].parse().unwrap_or(0);
    let n: usize = args[2].parse().unwrap_or(1);
    let only: Option<usize> = args.get(3).and_then(|s| s.parse().ok());
    crate::panics::install();
    // background tasks stay in their production (automatic) mode: a recovered store may
    // legitimately need a flush or a compaction before it accepts the probe commit
    let recs = trace::parse(&std::fs::read(&job.trace_file).unwrap_or_default());
    let ak = acks(&recs);
    let states = prefix_states(&job.txns);
    let ctx = VerifyCtx { cfg: &job.cfg, txns: &job.txns, states: &states, acks: &ak, failed_ids: job.failed.iter().cloned().collect(), failed_recs: &job.failed_recs, base_required: job.base_required };
    let scratch = crate::e1::scratch_root().join(format!("v{}", k));
    let _ = std::fs::create_dir_all(&scratch);
    let img = scratch.join("img");
    let base = job.base_dir.as_ref().map(|d| FsState::from_dir(d)).unwrap_or_default();
    let mut st = base.clone();
    let mut applied = 0usize;
    let stdout = std::io::stdout();
    let rt = tokio::runtime::Builder::new_current_thread().enable_all().build().unwrap();
    for (idx, plan) in job.plans.iter().enumerate() {
        if idx % n != k {
            continue;
        }
        if let Some(o) = only {
            if o != idx {
                continue;
            }
        }
        if plan.upto + 1 < applied {
            st = base.clone();
            applied = 0;
        }
        while applied <= plan.upto && applied < recs.len() {
            st.apply(&job.root, &recs[applied]);
            applied += 1;
        }
        {
            let mut o = stdout.lock();
            let _ = writeln!(o, "START {}", idx);
            let _ = o.flush();
        }
        if let Err(e) = st.write_image(&img, &plan.loss) {
            let mut o = stdout.lock();
            let _ = writeln!(o, "{}", json!({"idx": idx, "harness_error": e.to_string()}));
            continue;
        }
        let probe = job.probe_every > 0 && idx % job.probe_every == 0;
        let r = std::panic::catch_unwind(std::panic::AssertUnwindSafe(|| rt.block_on(verify_image(&ctx, &img, plan, idx, probe))));
        let has_problem = match &r {
            Ok(r) => !r.problems.is_empty(),
            Err(_) => true,
        };
        let mut kept = J::Null;
        if has_problem {
            if let Some(kd) = &job.keep_dir {
                let d = kd.join(format!("img-{}", idx));
                if st.write_image(&d, &plan.loss).is_ok() {
                    kept = json!(d);
                }
            }
        }
        let line = match r {
            Ok(r) => json!({"idx": idx, "kept": kept, "open_ok": r.open_ok, "prefix": r.prefix, "required": r.required, "nontrivial": r.nontrivial,
                "problems": r.problems.iter().map(|(c, w)| json!([c, w])).collect::<Vec<_>>(), "recovered": r.recovered_txns,
                "probe": r.probe_done, "sig": r.sig}),
            Err(_) => json!({"idx": idx, "kept": kept, "open_ok": false, "nontrivial": true,
                "problems": [["panic", format!("the store panicked while recovering / reading the crash image: {}", crate::panics::take_last())]]}),
        };
        let mut o = stdout.lock();
        let _ = writeln!(o, "{}", line);
        let _ = o.flush();
    }
    let _ = std::fs::remove_dir_all(&scratch);
    let _ = std::fs::remove_dir(crate::e1::scratch_root());
    0
}

pub struct PoolOutcome {
    pub results: Vec<J>,
    pub crashed: Vec<(usize, String)>,
    pub inconclusive: Vec<String>,
}

pub fn run_pool(jobfile: &Path, nimages: usize, nproc: usize) -> PoolOutcome {
    let exe = std::env::current_exe().unwrap();
    let mut children = vec![];
    let nproc = nproc.min(nimages.max(1));
    for k in 0..nproc {
        let mut c = Command::new(&exe);
        c.arg("e2-verify").arg(jobfile).arg(k.to_string()).arg(nproc.to_string());
        c.env_remove("LD_PRELOAD").env_remove("VERIF_FAULT");
        c.stdout(Stdio::piped()).stderr(Stdio::null());
        children.push(c.spawn().expect("spawn verifier"));
    }
    let mut out = PoolOutcome { results: vec![], crashed: vec![], inconclusive: vec![] };
    let mut retry: Vec<usize> = vec![];
    // drain every child's stdout concurrently; generous wall-clock watchdog whose firing is
    // inconclusive (never a violation)
    let deadline = std::time::Instant::now() + std::time::Duration::from_secs(90 + (nimages as u64) / 20);
    let mut readers = vec![];
    for mut ch in children {
        let mut so = ch.stdout.take().unwrap();
        let h = std::thread::spawn(move || {
            let mut buf = Vec::new();
            let _ = std::io::Read::read_to_end(&mut so, &mut buf);
            buf
        });
        readers.push((ch, h));
    }
    let mut outputs = vec![];
    for (mut ch, h) in readers {
        let status = loop {
            match ch.try_wait() {
                Ok(Some(s)) => break Some(s),
                Ok(None) => {
                    if std::time::Instant::now() > deadline {
                        let _ = ch.kill();
                        let _ = ch.wait();
                        break None;
                    }
                    std::thread::sleep(std::time::Duration::from_millis(3));
                }
                Err(_) => break None,
            }
        };
        let buf = h.join().unwrap_or_default();
        outputs.push((status, buf));
    }
    for (status, buf) in outputs {
        struct O {
            stdout: Vec<u8>,
            ok: bool,
            watchdog: bool,
            desc: String,
        }
        let o = O { stdout: buf, ok: status.map(|s| s.success()).unwrap_or(false), watchdog: status.is_none(), desc: format!("{:?}", status) };
        let text = String::from_utf8_lossy(&o.stdout);
        let mut last_start: Option<usize> = None;
        for line in text.lines() {
            if let Some(s) = line.strip_prefix("START ") {
                last_start = s.trim().parse().ok();
            } else if let Ok(j) = serde_json::from_str::<J>(line) {
                if j["harness_error"].is_string() {
                    out.inconclusive.push(format!("image {}: {}", j["idx"], j["harness_error"]));
                } else {
                    out.results.push(j);
                }
                last_start = None;
            }
        }
        if o.watchdog {
            out.inconclusive.push(format!("WATCHDOG: a verifier process made no progress within the wall-clock budget (while on image {:?}); killed, remaining images of its shard not checked", last_start));
        } else if !o.ok {
            if let Some(i) = last_start {
                retry.push(i);
            } else {
                out.inconclusive.push(format!("a verifier process ended with {} outside any image", o.desc));
            }
        }
    }
    // a dying verifier is attributed to the image it was processing and re-run alone before it counts
    for i in retry {
        let mut c = Command::new(&exe);
        c.arg("e2-verify").arg(jobfile).arg("0").arg("1").arg(i.to_string());
        c.env_remove("LD_PRELOAD").env_remove("VERIF_FAULT");
        c.stdout(Stdio::piped()).stderr(Stdio::null());
        match c.output() {
            Ok(o) if o.status.success() => {
                for line in String::from_utf8_lossy(&o.stdout).lines() {
                    if !line.starts_with("START") {
                        if let Ok(j) = serde_json::from_str::<J>(line) {
                            out.results.push(j);
                        }
                    }
                }
                out.inconclusive.push(format!("image {}: verifier died in the pool but not when re-run alone", i));
            }
            Ok(o) => out.crashed.push((i, format!("{:?}", o.status))),
            Err(e) => out.inconclusive.push(format!("image {}: cannot re-run verifier: {e}", i)),
        }
    }
    out
}

pub fn model_of(txns: &[TxnRec]) -> Model {
    let mut m = Model::new();
    for t in txns {
        let ops: Vec<_> = t.ops.iter().map(|(k, key, v)| (*k, key.clone(), v.clone(), 0u64)).collect();
        m.apply(t.id, t.first_seq, &ops);
    }
    m
}
