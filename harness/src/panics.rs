//! Process-wide panic hook: records the message + location of panics instead of printing
//! them, so that a panic inside the store becomes a violation with a witness.

use std::cell::RefCell;
use std::sync::atomic::{AtomicU64, Ordering};
use std::sync::{Mutex, Once};

thread_local! {
    static LAST: RefCell<Option<String>> = const { RefCell::new(None) };
}
static ALL: Mutex<Vec<String>> = Mutex::new(Vec::new());
pub static COUNT: AtomicU64 = AtomicU64::new(0);
static ONCE: Once = Once::new();

pub fn install() {
    ONCE.call_once(|| {
        std::panic::set_hook(Box::new(|info| {
            let loc = info.location().map(|l| format!("{}:{}", l.file(), l.line())).unwrap_or_default();
            let msg = if let Some(s) = info.payload().downcast_ref::<&str>() {
                s.to_string()
            } else if let Some(s) = info.payload().downcast_ref::<String>() {
                s.clone()
            } else {
                "<non-string payload>".to_string()
            };
            let thread = std::thread::current().name().unwrap_or("?").to_string();
            let full = format!("'{}' at {} (thread {})", msg.chars().take(400).collect::<String>(), loc, thread);
            COUNT.fetch_add(1, Ordering::SeqCst);
            LAST.with(|l| *l.borrow_mut() = Some(full.clone()));
            if let Ok(mut a) = ALL.lock() {
                if a.len() < 64 {
                    a.push(full);
                }
            }
        }));
    });
}

pub fn take_last() -> String {
    LAST.with(|l| l.borrow_mut().take()).unwrap_or_else(|| "<no message recorded>".into())
}

/// All panics recorded so far in this process (any thread), drained.
pub fn drain_all() -> Vec<String> {
    ALL.lock().map(|mut a| std::mem::take(&mut *a)).unwrap_or_default()
}
