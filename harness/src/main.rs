#![allow(dead_code)]
//! vharness: runtime monitors for surrealkv properties C01..C19.
//! usage: vharness <Cxx> [--tier quick|thorough] [--seed N] [--replay FILE]

mod campaign;
mod cfg;
mod e1;
mod e2;
mod e3;
mod trace;
mod evidence;
mod matrix;
mod model;
mod panics;
mod props;
mod rng;
mod scenarios;

use evidence::Tier;

pub struct Args {
    pub prop: String,
    pub tier: Tier,
    pub seed: u64,
    pub replay: Option<String>,
    pub rest: Vec<String>,
}

fn main() {
    let argv: Vec<String> = std::env::args().collect();
    if argv.len() < 2 {
        eprintln!("usage: vharness <Cxx> [--tier quick|thorough] [--seed N] [--replay FILE]");
        std::process::exit(64);
    }
    let mut a = Args {
        prop: argv[1].clone(),
        tier: match std::env::var("VERIF_TIER").as_deref() {
            Ok("thorough") => Tier::Thorough,
            _ => Tier::Quick,
        },
        seed: std::env::var("VERIF_SEED").ok().and_then(|s| s.parse().ok()).unwrap_or(1),
        replay: None,
        rest: vec![],
    };
    let mut i = 2;
    while i < argv.len() {
        match argv[i].as_str() {
            "--tier" => {
                i += 1;
                a.tier = if argv.get(i).map(|s| s.as_str()) == Some("thorough") { Tier::Thorough } else { Tier::Quick };
            }
            "--seed" => {
                i += 1;
                a.seed = argv.get(i).and_then(|s| s.parse().ok()).unwrap_or(1);
            }
            "--replay" => {
                i += 1;
                a.replay = argv.get(i).cloned();
            }
            x => a.rest.push(x.to_string()),
        }
        i += 1;
    }
    // internal modes
    match a.prop.as_str() {
        "e2-worker" => std::process::exit(e2::worker_main(&argv[2..])),
        "e2-verify" => std::process::exit(e2::verify_main(&argv[2..])),
        "e3-shard" => std::process::exit(props::conc::shard_main(&argv[2..])),
        "e3-debug" => std::process::exit(props::conc::debug_main(&argv[2..])),
        "c18-shard" => std::process::exit(props::c18::shard_main(&argv[2..])),
        "c16-shard" => std::process::exit(props::c16::shard_main(&argv[2..])),
        "matrix" => std::process::exit(matrix::main_json()),
        "c19-child" => std::process::exit(props::c19::child_main(&argv[2..])),
        "scenarios" => {
            // debug: run the directed scenarios of one property and print their verdicts
            let mut run = evidence::Run::new(&argv[2], Tier::Quick, 1, "exploration");
            let open = scenarios::run_for(&mut run, &argv[2]);
            println!("{}", serde_json::to_string_pretty(&run.coverage["directed_scenarios"]).unwrap_or_default());
            println!("open known findings failing: {:?}", open);
            let _ = std::fs::remove_dir_all(e1::scratch_root());
            std::process::exit(0);
        }
        "dbg-race" => {
            // debug: acknowledged key must be readable by a transaction begun afterwards, while a
            // thread rotates the memtable and the background task flushes
            let dir = e1::scratch_root().join("race");
            let _ = std::fs::remove_dir_all(&dir);
            let manual = argv.get(2).map(|s| s == "manual").unwrap_or(false);
            surrealkv::verif::set_manual_background(manual);
            let cfg = cfg::Cfg { flush_on_close: false, max_memtable_size: 64 * 1024, memtable_stall: 4, l0_max_files: 2, l0_stall: 8, ..Default::default() };
            let rt = tokio::runtime::Builder::new_multi_thread().worker_threads(8).enable_all().build().unwrap();
            rt.block_on(async {
                let t = std::sync::Arc::new(cfg.open(&dir).unwrap());
                let stop = std::sync::Arc::new(std::sync::atomic::AtomicBool::new(false));
                let t2 = t.clone();
                let s2 = stop.clone();
                let rot = tokio::task::spawn_blocking(move || {
                    let mut n = 0u64;
                    while !s2.load(std::sync::atomic::Ordering::SeqCst) {
                        let _ = t2.verif_rotate();
                        if manual {
                            let _ = t2.verif_flush_one();
                            let _ = t2.verif_compact_once();
                        } else {
                            t2.verif_wake_background();
                        }
                        n += 1;
                        std::thread::sleep(std::time::Duration::from_micros(300));
                    }
                    n
                });
                let mut misses = 0;
                for i in 0..20000u64 {
                    let k = format!("k{}", i % 7).into_bytes();
                    let v = i.to_be_bytes().to_vec();
                    let mut tx = t.begin().unwrap();
                    tx.set(&k, &v).unwrap();
                    tx.commit().await.unwrap();
                    drop(tx);
                    let rd = t.begin_with_mode(surrealkv::Mode::ReadOnly).unwrap();
                    let got = rd.get(&k).unwrap();
                    if got.as_deref() != Some(&v[..]) {
                        misses += 1;
                        if misses < 5 {
                            println!("MISS at i={} horizon {} got {:?} layout {:?}", i, rd.verif_start_seq(), got.map(|g| u64::from_be_bytes(g[..8].try_into().unwrap())), t.verif_layout().map(|l| (l.immutables, l.tables.len())));
                        }
                    }
                }
                stop.store(true, std::sync::atomic::Ordering::SeqCst);
                let n = rot.await.unwrap();
                println!("rotations {} misses {}", n, misses);
                let _ = t.close().await;
            });
            std::process::exit(0);
        }
        "dbg-open" => {
            // debug: open a directory with default options, commit a probe, close, reopen
            let dir = std::path::PathBuf::from(&argv[2]);
            let cfg = if argv.len() > 3 {
                cfg::Cfg::from_json(&serde_json::from_slice(&std::fs::read(&argv[3]).unwrap()).unwrap())
            } else {
                cfg::Cfg { flush_on_close: false, ..Default::default() }
            };
            let rt = tokio::runtime::Builder::new_current_thread().enable_all().build().unwrap();
            rt.block_on(async {
                for round in 0..2 {
                    match cfg.open(&dir) {
                        Err(e) => {
                            println!("open {} failed: {}", round, e);
                            return;
                        }
                        Ok(t) => {
                            println!("open {} ok, visible seq {} layout {:?}", round, t.verif_visible_seq(), t.verif_layout().map(|l| (l.tables.iter().map(|t| (t.level, t.id, t.smallest_seq, t.largest_seq)).collect::<Vec<_>>(), l.log_number, l.last_sequence, l.active_wal)));
                            if let Ok(m) = e2::scan_all(&t) {
                                let s: Vec<String> = m.iter().map(|(k, v)| format!("{}={}", model::hex(k), if v.len() >= 8 { u64::from_be_bytes(v[..8].try_into().unwrap()).to_string() } else { format!("l{}", v.len()) })).collect();
                                println!("  scan: {}", s.join(" "));
                            }
                            let mut tx = t.begin().unwrap();
                            tx.set_durability(surrealkv::Durability::Immediate);
                            tx.set(&b"probe"[..], &b"x"[..]).unwrap();
                            println!("commit: {:?}", tx.commit().await.map_err(|e| e.to_string()));
                            drop(tx);
                            e2::close_tree(t).await;
                        }
                    }
                }
            });
            std::process::exit(0);
        }
        _ => {}
    }
    let code = props::dispatch(&a);
    if std::env::var_os("VERIF_KEEP").is_none() {
        let _ = std::fs::remove_dir_all(e1::scratch_root());
    }
    std::process::exit(code);
}
