#![allow(dead_code)]
//! vharness: runtime monitors for surrealkv properties C01..C19.
//! usage: vharness <Cxx> [--tier quick|thorough] [--seed N] [--replay FILE]

mod campaign;
mod cfg;
mod e1;
mod evidence;
mod model;
mod props;
mod rng;
mod scenarios;

use evidence::Tier;

pub struct Args {
    pub prop: String,
    pub tier: Tier,
    pub seed: u64,
    pub replay: Option<String>,
    pub rest: Vec<String>,
}

fn main() {
    let argv: Vec<String> = std::env::args().collect();
    if argv.len() < 2 {
        eprintln!("usage: vharness <Cxx> [--tier quick|thorough] [--seed N] [--replay FILE]");
        std::process::exit(64);
    }
    let mut a = Args {
        prop: argv[1].clone(),
        tier: match std::env::var("VERIF_TIER").as_deref() {
            Ok("thorough") => Tier::Thorough,
            _ => Tier::Quick,
        },
        seed: std::env::var("VERIF_SEED").ok().and_then(|s| s.parse().ok()).unwrap_or(1),
        replay: None,
        rest: vec![],
    };
    let mut i = 2;
    while i < argv.len() {
        match argv[i].as_str() {
            "--tier" => {
                i += 1;
                a.tier = if argv.get(i).map(|s| s.as_str()) == Some("thorough") { Tier::Thorough } else { Tier::Quick };
            }
            "--seed" => {
                i += 1;
                a.seed = argv.get(i).and_then(|s| s.parse().ok()).unwrap_or(1);
            }
            "--replay" => {
                i += 1;
                a.replay = argv.get(i).cloned();
            }
            x => a.rest.push(x.to_string()),
        }
        i += 1;
    }
    // single-driver engines decide when flushes and compactions happen
    let code = props::dispatch(&a);
    let _ = std::fs::remove_dir_all(e1::scratch_root());
    std::process::exit(code);
}
