#![allow(dead_code)]
//! vharness: runtime monitors for surrealkv properties C01..C19.
//! usage: vharness <Cxx> [--tier quick|thorough] [--seed N] [--replay FILE]

mod campaign;
mod cfg;
mod e1;
mod e2;
mod trace;
mod evidence;
mod model;
mod panics;
mod props;
mod rng;
mod scenarios;

use evidence::Tier;

pub struct Args {
    pub prop: String,
    pub tier: Tier,
    pub seed: u64,
    pub replay: Option<String>,
    pub rest: Vec<String>,
}

fn main() {
    let argv: Vec<String> = std::env::args().collect();
    if argv.len() < 2 {
        eprintln!("usage: vharness <Cxx> [--tier quick|thorough] [--seed N] [--replay FILE]");
        std::process::exit(64);
    }
    let mut a = Args {
        prop: argv[1].clone(),
        tier: match std::env::var("VERIF_TIER").as_deref() {
            Ok("thorough") => Tier::Thorough,
            _ => Tier::Quick,
        },
        seed: std::env::var("VERIF_SEED").ok().and_then(|s| s.parse().ok()).unwrap_or(1),
        replay: None,
        rest: vec![],
    };
    let mut i = 2;
    while i < argv.len() {
        match argv[i].as_str() {
            "--tier" => {
                i += 1;
                a.tier = if argv.get(i).map(|s| s.as_str()) == Some("thorough") { Tier::Thorough } else { Tier::Quick };
            }
            "--seed" => {
                i += 1;
                a.seed = argv.get(i).and_then(|s| s.parse().ok()).unwrap_or(1);
            }
            "--replay" => {
                i += 1;
                a.replay = argv.get(i).cloned();
            }
            x => a.rest.push(x.to_string()),
        }
        i += 1;
    }
    // internal modes
    match a.prop.as_str() {
        "e2-worker" => std::process::exit(e2::worker_main(&argv[2..])),
        "e2-verify" => std::process::exit(e2::verify_main(&argv[2..])),
        "dbg-open" => {
            // debug: open a directory with default options, commit a probe, close, reopen
            let dir = std::path::PathBuf::from(&argv[2]);
            let cfg = if argv.len() > 3 {
                cfg::Cfg::from_json(&serde_json::from_slice(&std::fs::read(&argv[3]).unwrap()).unwrap())
            } else {
                cfg::Cfg { flush_on_close: false, ..Default::default() }
            };
            let rt = tokio::runtime::Builder::new_current_thread().enable_all().build().unwrap();
            rt.block_on(async {
                for round in 0..2 {
                    match cfg.open(&dir) {
                        Err(e) => {
                            println!("open {} failed: {}", round, e);
                            return;
                        }
                        Ok(t) => {
                            println!("open {} ok, visible seq {} layout {:?}", round, t.verif_visible_seq(), t.verif_layout().map(|l| (l.tables.iter().map(|t| (t.level, t.id, t.smallest_seq, t.largest_seq)).collect::<Vec<_>>(), l.log_number, l.last_sequence, l.active_wal)));
                            if let Ok(m) = e2::scan_all(&t) {
                                let s: Vec<String> = m.iter().map(|(k, v)| format!("{}={}", model::hex(k), if v.len() >= 8 { u64::from_be_bytes(v[..8].try_into().unwrap()).to_string() } else { format!("l{}", v.len()) })).collect();
                                println!("  scan: {}", s.join(" "));
                            }
                            let mut tx = t.begin().unwrap();
                            tx.set_durability(surrealkv::Durability::Immediate);
                            tx.set(&b"probe"[..], &b"x"[..]).unwrap();
                            println!("commit: {:?}", tx.commit().await.map_err(|e| e.to_string()));
                            drop(tx);
                            e2::close_tree(t).await;
                        }
                    }
                }
            });
            std::process::exit(0);
        }
        _ => {}
    }
    let code = props::dispatch(&a);
    let _ = std::fs::remove_dir_all(e1::scratch_root());
    std::process::exit(code);
}
