//! Parser for the I/O trace written by shim/iotrace.so, an in-memory model of the traced
//! directory tree, and the crash-image builder (process crash / power loss).

use std::collections::{BTreeMap, BTreeSet, HashMap};
use std::path::{Path, PathBuf};

#[derive(Clone, Copy, Debug, PartialEq, Eq)]
pub enum Op {
    Open = 1,
    Write,
    Pwrite,
    Trunc,
    Fsync,
    Rename,
    Unlink,
    Mkdir,
    Rmdir,
    Close,
    Dup,
    Link,
    Copy,
    Mark,
    Fault,
}

#[derive(Clone, Debug)]
pub struct Rec {
    pub op: Op,
    pub tid: u32,
    pub fd: i32,
    pub fd2: i32,
    pub off: i64,
    pub len: i64,
    pub res: i64,
    pub err: i32,
    pub flags: u32,
    pub ino: u64,
    pub path: String,
    pub path2: String,
    pub data: Vec<u8>,
}

pub fn parse(bytes: &[u8]) -> Vec<Rec> {
    let mut out = Vec::new();
    let mut p = 0usize;
    while p + 4 <= bytes.len() {
        let body = u32::from_le_bytes(bytes[p..p + 4].try_into().unwrap()) as usize;
        p += 4;
        if p + body > bytes.len() || body < 61 {
            break; // torn final record (worker was killed)
        }
        let b = &bytes[p..p + body];
        p += body;
        let mut q = 0usize;
        macro_rules! rd {
            ($t:ty) => {{
                let n = std::mem::size_of::<$t>();
                let v = <$t>::from_le_bytes(b[q..q + n].try_into().unwrap());
                q += n;
                v
            }};
        }
        let op = rd!(u8);
        let tid = rd!(u32);
        let fd = rd!(i32);
        let fd2 = rd!(i32);
        let off = rd!(i64);
        let len = rd!(i64);
        let res = rd!(i64);
        let err = rd!(i32);
        let flags = rd!(u32);
        let ino = rd!(u64);
        let pl = rd!(u16) as usize;
        let p2l = rd!(u16) as usize;
        let dl = rd!(u32) as usize;
        if q + pl + p2l + dl > b.len() {
            break;
        }
        let path = String::from_utf8_lossy(&b[q..q + pl]).to_string();
        q += pl;
        let path2 = String::from_utf8_lossy(&b[q..q + p2l]).to_string();
        q += p2l;
        let data = b[q..q + dl].to_vec();
        let op = match op {
            1 => Op::Open,
            2 => Op::Write,
            3 => Op::Pwrite,
            4 => Op::Trunc,
            5 => Op::Fsync,
            6 => Op::Rename,
            7 => Op::Unlink,
            8 => Op::Mkdir,
            9 => Op::Rmdir,
            10 => Op::Close,
            11 => Op::Dup,
            12 => Op::Link,
            13 => Op::Copy,
            14 => Op::Mark,
            15 => Op::Fault,
            _ => continue,
        };
        out.push(Rec { op, tid, fd, fd2, off, len, res, err, flags, ino, path, path2, data });
    }
    out
}

pub const O_TRUNC: u32 = 0o1000;
pub const O_CREAT: u32 = 0o100;
pub const O_DIRECTORY: u32 = 0o200000;

#[derive(Clone, Debug, Default)]
pub struct Inode {
    pub data: Vec<u8>,
    /// content as of the last completed fsync of this file (None = never synced)
    pub synced: Option<Vec<u8>>,
    /// writes since the last fsync: (offset, bytes); truncation = (len, empty, true)
    pub unsynced: Vec<(u64, Vec<u8>, bool)>,
}

/// State of the traced directory tree after applying a prefix of the trace.
#[derive(Clone, Debug, Default)]
pub struct FsState {
    pub inodes: Vec<Inode>,
    pub ns: BTreeMap<String, usize>, // relative path -> inode
    pub dirs: BTreeSet<String>,
    pub fds: HashMap<i32, usize>,
}

impl FsState {
    pub fn new() -> Self {
        Self::default()
    }

    /// Seed the model with an existing directory (for second-generation traces).
    pub fn from_dir(root: &Path) -> FsState {
        let mut s = FsState::new();
        fn walk(s: &mut FsState, root: &Path, dir: &Path) {
            if let Ok(rd) = std::fs::read_dir(dir) {
                for e in rd.flatten() {
                    let p = e.path();
                    let rel = p.strip_prefix(root).unwrap().to_string_lossy().to_string();
                    if p.is_dir() {
                        s.dirs.insert(rel);
                        walk(s, root, &p);
                    } else if let Ok(d) = std::fs::read(&p) {
                        s.inodes.push(Inode { data: d.clone(), synced: Some(d), unsynced: vec![] });
                        s.ns.insert(rel, s.inodes.len() - 1);
                    }
                }
            }
        }
        walk(&mut s, root, root);
        s
    }

    fn rel(root: &str, p: &str) -> Option<String> {
        if p == root {
            return Some(String::new());
        }
        p.strip_prefix(root).and_then(|r| r.strip_prefix('/')).map(|s| s.to_string())
    }

    /// Apply one completed trace record.
    pub fn apply(&mut self, root: &str, r: &Rec) {
        match r.op {
            Op::Open => {
                if r.res < 0 {
                    return;
                }
                let Some(rel) = Self::rel(root, &r.path) else { return };
                if r.flags & O_DIRECTORY != 0 || self.dirs.contains(&rel) || rel.is_empty() {
                    return;
                }
                let id = match self.ns.get(&rel) {
                    Some(id) => *id,
                    None => {
                        self.inodes.push(Inode::default());
                        let id = self.inodes.len() - 1;
                        self.ns.insert(rel, id);
                        id
                    }
                };
                if r.flags & O_TRUNC != 0 && !self.inodes[id].data.is_empty() {
                    self.inodes[id].data.clear();
                    self.inodes[id].unsynced.push((0, vec![], true));
                }
                self.fds.insert(r.fd, id);
            }
            Op::Write | Op::Pwrite => {
                if r.res <= 0 {
                    return;
                }
                let Some(&id) = self.fds.get(&r.fd) else { return };
                let off = r.off.max(0) as usize;
                let ino = &mut self.inodes[id];
                let end = off + r.data.len();
                if ino.data.len() < end {
                    ino.data.resize(end, 0);
                }
                ino.data[off..end].copy_from_slice(&r.data);
                ino.unsynced.push((off as u64, r.data.clone(), false));
            }
            Op::Trunc => {
                if r.res < 0 {
                    return;
                }
                if let Some(&id) = self.fds.get(&r.fd) {
                    let ino = &mut self.inodes[id];
                    ino.data.resize(r.len.max(0) as usize, 0);
                    ino.unsynced.push((r.len.max(0) as u64, vec![], true));
                }
            }
            Op::Fsync => {
                if r.res < 0 {
                    return;
                }
                if let Some(&id) = self.fds.get(&r.fd) {
                    let ino = &mut self.inodes[id];
                    ino.synced = Some(ino.data.clone());
                    ino.unsynced.clear();
                }
            }
            Op::Rename => {
                if r.res < 0 {
                    return;
                }
                let (Some(a), Some(b)) = (Self::rel(root, &r.path), Self::rel(root, &r.path2)) else { return };
                if self.dirs.contains(&a) {
                    // directory rename: move the subtree
                    let pre = format!("{}/", a);
                    let moved: Vec<(String, usize)> =
                        self.ns.iter().filter(|(k, _)| k.starts_with(&pre)).map(|(k, v)| (k.clone(), *v)).collect();
                    for (k, v) in moved {
                        self.ns.remove(&k);
                        self.ns.insert(format!("{}/{}", b, &k[pre.len()..]), v);
                    }
                    let md: Vec<String> = self.dirs.iter().filter(|d| *d == &a || d.starts_with(&pre)).cloned().collect();
                    for d in md {
                        self.dirs.remove(&d);
                        let nd = if d == a { b.clone() } else { format!("{}/{}", b, &d[pre.len()..]) };
                        self.dirs.insert(nd);
                    }
                } else if let Some(id) = self.ns.remove(&a) {
                    self.ns.insert(b, id);
                }
            }
            Op::Unlink => {
                if r.res < 0 {
                    return;
                }
                if let Some(a) = Self::rel(root, &r.path) {
                    self.ns.remove(&a);
                }
            }
            Op::Mkdir => {
                if r.res < 0 {
                    return;
                }
                if let Some(a) = Self::rel(root, &r.path) {
                    self.dirs.insert(a);
                }
            }
            Op::Rmdir => {
                if r.res < 0 {
                    return;
                }
                if let Some(a) = Self::rel(root, &r.path) {
                    self.dirs.remove(&a);
                }
            }
            Op::Close => {
                self.fds.remove(&r.fd);
            }
            Op::Dup => {
                if let Some(&id) = self.fds.get(&r.fd) {
                    self.fds.insert(r.fd2, id);
                }
            }
            Op::Link => {
                if r.res < 0 {
                    return;
                }
                let (Some(a), Some(b)) = (Self::rel(root, &r.path), Self::rel(root, &r.path2)) else { return };
                if let Some(&id) = self.ns.get(&a) {
                    self.ns.insert(b, id);
                }
            }
            Op::Copy | Op::Mark | Op::Fault => {}
        }
    }
}

/// How the unsynced part of each file is treated in a power-loss image.
#[derive(Clone, Debug, PartialEq)]
pub enum Loss {
    /// process crash: every completed write is kept
    Process,
    /// power loss, worst case: only fsynced content survives
    PowerNone,
    /// power loss: for the file whose path ends with `file`, keep the first `writes` unsynced
    /// writes completely and `torn` bytes of the next one; every other file loses its
    /// unsynced data
    PowerCut { file: String, writes: usize, torn: usize },
    /// power loss where the named file keeps everything and all others lose unsynced data
    PowerKeepOnly { file: String },
    /// power loss where the named file loses its unsynced data and all others keep theirs
    PowerLoseOnly { file: String },
}

fn replay_unsynced(base: &[u8], w: &[(u64, Vec<u8>, bool)], upto: usize, torn: usize) -> Vec<u8> {
    let mut d = base.to_vec();
    for (i, (off, bytes, is_trunc)) in w.iter().enumerate() {
        if i > upto {
            break;
        }
        let take = if i == upto { torn.min(bytes.len()) } else { bytes.len() };
        if *is_trunc {
            if i < upto {
                d.resize(*off as usize, 0);
            }
            continue;
        }
        if take == 0 {
            continue;
        }
        let off = *off as usize;
        let end = off + take;
        if d.len() < end {
            d.resize(end, 0);
        }
        d[off..end].copy_from_slice(&bytes[..take]);
    }
    d
}

impl FsState {
    pub fn content(&self, rel: &str, id: usize, loss: &Loss) -> Vec<u8> {
        let ino = &self.inodes[id];
        let synced: &[u8] = ino.synced.as_deref().unwrap_or(&[]);
        match loss {
            Loss::Process => ino.data.clone(),
            Loss::PowerNone => synced.to_vec(),
            Loss::PowerCut { file, writes, torn } => {
                if rel.ends_with(file.as_str()) {
                    replay_unsynced(synced, &ino.unsynced, *writes, *torn)
                } else {
                    synced.to_vec()
                }
            }
            Loss::PowerKeepOnly { file } => {
                if rel.ends_with(file.as_str()) {
                    ino.data.clone()
                } else {
                    synced.to_vec()
                }
            }
            Loss::PowerLoseOnly { file } => {
                if rel.ends_with(file.as_str()) {
                    synced.to_vec()
                } else {
                    ino.data.clone()
                }
            }
        }
    }

    /// Materialise the image into `dst`.
    pub fn write_image(&self, dst: &Path, loss: &Loss) -> std::io::Result<()> {
        let _ = std::fs::remove_dir_all(dst);
        std::fs::create_dir_all(dst)?;
        for d in &self.dirs {
            std::fs::create_dir_all(dst.join(d))?;
        }
        for (rel, id) in &self.ns {
            if rel == "LOCK" {
                continue;
            }
            let p = dst.join(rel);
            if let Some(par) = p.parent() {
                std::fs::create_dir_all(par)?;
            }
            std::fs::write(&p, self.content(rel, *id, loss))?;
        }
        Ok(())
    }

    /// Files that currently hold unsynced data: (relative path, number of unsynced writes,
    /// length of first unsynced write).
    pub fn dirty_files(&self) -> Vec<(String, usize, usize)> {
        let mut v = Vec::new();
        for (rel, id) in &self.ns {
            let ino = &self.inodes[*id];
            if !ino.unsynced.is_empty() && ino.synced.as_deref().map(|s| s != ino.data.as_slice()).unwrap_or(!ino.data.is_empty()) {
                v.push((rel.clone(), ino.unsynced.len(), ino.unsynced[0].1.len()));
            }
        }
        v
    }
}

impl FsState {
    /// For a dirty file: the (complete writes kept, bytes of the next write kept) pairs whose
    /// resulting file length is a multiple of `block` (cuts that land exactly on a block boundary).
    pub fn block_boundary_cuts(&self, rel: &str, block: u64) -> Vec<(usize, usize)> {
        let mut out = vec![];
        if let Some(id) = self.ns.get(rel) {
            let ino = &self.inodes[*id];
            for (j, (off, data, is_trunc)) in ino.unsynced.iter().enumerate() {
                if *is_trunc || data.is_empty() {
                    continue;
                }
                let end = *off + data.len() as u64;
                let mut b = (*off / block + 1) * block;
                while b < end {
                    out.push((j, (b - *off) as usize));
                    b += block;
                }
            }
        }
        out
    }
}

pub fn root_string(p: &Path) -> String {
    std::fs::canonicalize(p).unwrap_or_else(|_| PathBuf::from(p)).to_string_lossy().to_string()
}
