//! Engine E1: placement-fuzzed differential monitor, single driver thread.
//!
//! A seeded generator emits a logical history (transactions, long-lived readers, cursors)
//! interleaved with physical placement operations that must not change any answer
//! (rotate / flush / compaction rounds / clean reopen / checkpoint+restore). After every
//! step a query battery is run through a fresh transaction and through every still-open
//! reader and compared with the reference model at that reader's horizon.

use crate::cfg::Cfg;
use crate::model::{hex, HistOpts, Kind, Model, WriteOp};
use crate::rng::Rng;
use serde_json::{json, Value as J};
use std::collections::{BTreeMap, BTreeSet};
use std::path::{Path, PathBuf};
use std::sync::atomic::{AtomicU64, Ordering};
use std::sync::Arc;
use surrealkv::{Durability, HistoryOptions, LSMIterator, Mode, ReadOptions, Transaction, Tree};

// ---------------------------------------------------------------------------
// manual clock (H4)
// ---------------------------------------------------------------------------

#[derive(Debug)]
pub struct ManualClock(pub AtomicU64);
impl surrealkv::verif::LogicalClock for ManualClock {
    fn now(&self) -> u64 {
        self.0.load(Ordering::SeqCst)
    }
}

// ---------------------------------------------------------------------------
// steps
// ---------------------------------------------------------------------------

#[derive(Clone, Debug, PartialEq)]
pub enum CurOp {
    SeekFirst,
    SeekLast,
    Seek(Vec<u8>),
    Next,
    Prev,
}

#[derive(Clone, Debug)]
pub enum Step {
    /// `clock`: absolute value the logical clock is raised to before the commit (so that
    /// removing other steps while minimising never changes this commit's timestamp)
    Commit { txn: u64, ops: Vec<WriteOp>, write_only: bool, immediate: bool, clock: u64 },
    BeginReader { rid: usize, pending: Vec<WriteOp> },
    DropReader { rid: usize },
    OpenCursor { rid: usize, lo: Option<Vec<u8>>, hi: Option<Vec<u8>> },
    Cursor { rid: usize, op: CurOp },
    DropCursor { rid: usize },
    /// read through an open reader (get of every key + scans)
    ReaderBattery { rid: usize },
    Rotate,
    FlushOne,
    Flush,
    Compact { rounds: u8 },
    Reopen,
    Checkpoint,
    Restore,
    /// raise the logical clock to an absolute value
    SetClock { to: u64 },
}

fn kind_from(s: &str) -> Kind {
    match s {
        "set" => Kind::Set,
        "del" => Kind::Delete,
        "sdel" => Kind::SoftDelete,
        _ => Kind::Replace,
    }
}
fn hexenc(b: &[u8]) -> String {
    b.iter().map(|x| format!("{:02x}", x)).collect()
}
fn hexdec(s: &str) -> Vec<u8> {
    (0..s.len() / 2).map(|i| u8::from_str_radix(&s[2 * i..2 * i + 2], 16).unwrap_or(0)).collect()
}
fn wop_json(w: &WriteOp) -> J {
    json!({"k": w.kind.name(), "key": hexenc(&w.key), "val": hexenc(&w.value), "ts": w.ts})
}
fn wop_from(j: &J) -> WriteOp {
    WriteOp {
        kind: kind_from(j["k"].as_str().unwrap_or("set")),
        key: hexdec(j["key"].as_str().unwrap_or("")),
        value: hexdec(j["val"].as_str().unwrap_or("")),
        ts: j["ts"].as_u64(),
    }
}
fn optkey(k: &Option<Vec<u8>>) -> J {
    match k {
        Some(k) => J::String(hexenc(k)),
        None => J::Null,
    }
}
fn optkey_from(j: &J) -> Option<Vec<u8>> {
    j.as_str().map(hexdec)
}

impl Step {
    pub fn to_json(&self) -> J {
        match self {
            Step::Commit { txn, ops, write_only, immediate, clock } => {
                json!({"op":"commit","txn":txn,"ops":ops.iter().map(wop_json).collect::<Vec<_>>(),"write_only":write_only,"immediate":immediate,"clock":clock})
            }
            Step::BeginReader { rid, pending } => {
                json!({"op":"begin_reader","rid":rid,"pending":pending.iter().map(wop_json).collect::<Vec<_>>()})
            }
            Step::DropReader { rid } => json!({"op":"drop_reader","rid":rid}),
            Step::OpenCursor { rid, lo, hi } => json!({"op":"open_cursor","rid":rid,"lo":optkey(lo),"hi":optkey(hi)}),
            Step::Cursor { rid, op } => {
                let (n, k) = match op {
                    CurOp::SeekFirst => ("seek_first", None),
                    CurOp::SeekLast => ("seek_last", None),
                    CurOp::Seek(k) => ("seek", Some(k.clone())),
                    CurOp::Next => ("next", None),
                    CurOp::Prev => ("prev", None),
                };
                json!({"op":"cursor","rid":rid,"cop":n,"key":optkey(&k)})
            }
            Step::DropCursor { rid } => json!({"op":"drop_cursor","rid":rid}),
            Step::ReaderBattery { rid } => json!({"op":"reader_battery","rid":rid}),
            Step::Rotate => json!({"op":"rotate"}),
            Step::FlushOne => json!({"op":"flush_one"}),
            Step::Flush => json!({"op":"flush"}),
            Step::Compact { rounds } => json!({"op":"compact","rounds":rounds}),
            Step::Reopen => json!({"op":"reopen"}),
            Step::Checkpoint => json!({"op":"checkpoint"}),
            Step::Restore => json!({"op":"restore"}),
            Step::SetClock { to } => json!({"op":"set_clock","to":to}),
        }
    }
    pub fn from_json(j: &J) -> Option<Step> {
        let rid = j["rid"].as_u64().unwrap_or(0) as usize;
        Some(match j["op"].as_str()? {
            "commit" => Step::Commit {
                txn: j["txn"].as_u64()?,
                ops: j["ops"].as_array()?.iter().map(wop_from).collect(),
                write_only: j["write_only"].as_bool().unwrap_or(false),
                immediate: j["immediate"].as_bool().unwrap_or(false),
                clock: j["clock"].as_u64().unwrap_or(0),
            },
            "begin_reader" => Step::BeginReader { rid, pending: j["pending"].as_array()?.iter().map(wop_from).collect() },
            "drop_reader" => Step::DropReader { rid },
            "open_cursor" => Step::OpenCursor { rid, lo: optkey_from(&j["lo"]), hi: optkey_from(&j["hi"]) },
            "cursor" => Step::Cursor {
                rid,
                op: match j["cop"].as_str()? {
                    "seek_first" => CurOp::SeekFirst,
                    "seek_last" => CurOp::SeekLast,
                    "seek" => CurOp::Seek(optkey_from(&j["key"])?),
                    "next" => CurOp::Next,
                    _ => CurOp::Prev,
                },
            },
            "drop_cursor" => Step::DropCursor { rid },
            "reader_battery" => Step::ReaderBattery { rid },
            "rotate" => Step::Rotate,
            "flush_one" => Step::FlushOne,
            "flush" => Step::Flush,
            "compact" => Step::Compact { rounds: j["rounds"].as_u64().unwrap_or(1) as u8 },
            "reopen" => Step::Reopen,
            "checkpoint" => Step::Checkpoint,
            "restore" => Step::Restore,
            "set_clock" => Step::SetClock { to: j["to"].as_u64().unwrap_or(0) },
            _ => return None,
        })
    }
    pub fn short(&self) -> String {
        match self {
            Step::Commit { txn, ops, .. } => format!(
                "commit#{}[{}]",
                txn,
                ops.iter().map(|w| format!("{}:{}", w.kind.name(), hex(&w.key))).collect::<Vec<_>>().join(",")
            ),
            Step::BeginReader { rid, pending } => format!("begin_reader{}(+{}pending)", rid, pending.len()),
            Step::DropReader { rid } => format!("drop_reader{}", rid),
            Step::OpenCursor { rid, lo, hi } => format!(
                "open_cursor{}[{},{})",
                rid,
                lo.as_ref().map(|k| hex(k)).unwrap_or("-inf".into()),
                hi.as_ref().map(|k| hex(k)).unwrap_or("+inf".into())
            ),
            Step::Cursor { rid, op } => format!("cursor{}.{:?}", rid, op),
            Step::DropCursor { rid } => format!("drop_cursor{}", rid),
            Step::ReaderBattery { rid } => format!("read{}", rid),
            Step::Rotate => "rotate".into(),
            Step::FlushOne => "flush_one".into(),
            Step::Flush => "flush".into(),
            Step::Compact { rounds } => format!("compact*{}", rounds),
            Step::Reopen => "reopen".into(),
            Step::Checkpoint => "checkpoint".into(),
            Step::Restore => "restore".into(),
            Step::SetClock { to } => format!("clock={}", to),
        }
    }
}

// ---------------------------------------------------------------------------
// generator
// ---------------------------------------------------------------------------

#[derive(Clone, Debug)]
pub struct GenParams {
    pub steps: usize,
    pub nkeys: usize,
    pub max_readers: usize,
    pub readers: bool,
    pub reader_pending: bool,
    pub cursors: bool,
    pub reopen: bool,
    pub checkpoint: bool,
    pub explicit_ts: bool,
    pub out_of_order_ts: bool,
    pub clock_advance: bool,
    pub big_values: bool,
    /// relative weight of placement steps (0..100)
    pub placement_pct: u64,
    pub delete_pct: u64,
    /// mask of an open known finding: never write Replace
    pub no_replace: bool,
    /// occasionally write an 80 KiB value (needs a memtable of several MiB)
    pub huge_values: bool,
}

impl Default for GenParams {
    fn default() -> Self {
        GenParams {
            steps: 100,
            nkeys: 12,
            max_readers: 4,
            readers: true,
            reader_pending: true,
            cursors: true,
            reopen: true,
            checkpoint: false,
            explicit_ts: false,
            out_of_order_ts: false,
            clock_advance: false,
            big_values: true,
            placement_pct: 35,
            delete_pct: 30,
            no_replace: false,
            huge_values: false,
        }
    }
}

/// Adversarial key universe: prefixes of each other, 0x00 / 0xff bytes, short and long.
pub fn key_universe(r: &mut Rng, n: usize) -> Vec<Vec<u8>> {
    let base: Vec<Vec<u8>> = vec![
        b"a".to_vec(),
        b"a\x00".to_vec(),
        b"a\x00\x00".to_vec(),
        b"a\xff".to_vec(),
        b"a\xff\xff".to_vec(),
        b"ab".to_vec(),
        b"abc".to_vec(),
        b"b".to_vec(),
        b"b\xff".to_vec(),
        b"c".to_vec(),
        b"\x01".to_vec(),
        b"\x01\x00".to_vec(),
        b"\xfe".to_vec(),
        b"\xfe\xff\xff".to_vec(),
        b"k1".to_vec(),
        b"k10".to_vec(),
        b"k2".to_vec(),
        b"m".to_vec(),
        b"mm".to_vec(),
        b"mmm".to_vec(),
        b"z".to_vec(),
        b"zz".to_vec(),
    ];
    let mut set: BTreeSet<Vec<u8>> = BTreeSet::new();
    let mut idx: Vec<usize> = (0..base.len()).collect();
    r.shuffle(&mut idx);
    for i in idx.into_iter().take(n.min(base.len())) {
        set.insert(base[i].clone());
    }
    while set.len() < n {
        // long keys sharing a prefix
        let mut k = vec![b'p'; r.range(1, 40) as usize];
        k.push(r.below(256) as u8);
        if k.last() == Some(&0xff) && r.chance(1, 2) {
            k.push(0xff);
        }
        set.insert(k);
    }
    set.into_iter().collect()
}

pub const LO_ALL: &[u8] = b"\x00";
pub const HI_ALL: &[u8] = b"\xff\xff\xff\xff";

pub struct Generator<'a> {
    pub r: &'a mut Rng,
    pub p: GenParams,
    pub keys: Vec<Vec<u8>>,
    pub seed: u64,
    pub cfg: &'a Cfg,
    next_txn: u64,
    live_readers: BTreeMap<usize, bool>, // rid -> has cursor
    next_rid: usize,
    clock: u64,
    last_ts: BTreeMap<Vec<u8>, u64>,
    used_ts: BTreeMap<Vec<u8>, BTreeSet<u64>>,
    have_checkpoint: bool,
}

impl<'a> Generator<'a> {
    pub fn new(r: &'a mut Rng, p: GenParams, cfg: &'a Cfg, seed: u64) -> Self {
        let keys = key_universe(r, p.nkeys);
        Generator {
            r,
            p,
            keys,
            seed,
            cfg,
            next_txn: 1,
            live_readers: BTreeMap::new(),
            next_rid: 0,
            clock: 1000,
            last_ts: BTreeMap::new(),
            used_ts: BTreeMap::new(),
            have_checkpoint: false,
        }
    }

    fn value_len(&mut self) -> usize {
        let big_cap = (self.cfg.max_memtable_size / 24).min(3000).max(64);
        if self.p.huge_values && self.r.chance(1, 60) {
            return 80 * 1024 + self.r.range(0, 9) as usize;
        }
        match self.r.below(20) {
            0 => 0,
            1 => 1,
            2..=4 => {
                if self.cfg.vlog {
                    // around the separation threshold
                    let t = self.cfg.vlog_threshold as i64;
                    (t + self.r.range(0, 2) as i64 - 1).max(0) as usize
                } else {
                    13
                }
            }
            5 | 6 if self.p.big_values => self.r.range(200, big_cap as u64) as usize,
            _ => self.r.range(12, 40) as usize,
        }
    }

    fn write_op(&mut self, txn: u64, idx: u32, allow_ts: bool) -> WriteOp {
        let key = self.r.pick(&self.keys).clone();
        let k = self.r.below(100);
        let kind = if self.p.out_of_order_ts && k < self.p.delete_pct {
            if k < self.p.delete_pct / 2 {
                Kind::SoftDelete
            } else {
                Kind::Set
            }
        } else if k < self.p.delete_pct / 2 {
            Kind::Delete
        } else if k < self.p.delete_pct * 3 / 4 {
            Kind::SoftDelete
        } else if k < self.p.delete_pct {
            Kind::Replace
        } else {
            Kind::Set
        };
        let kind = if kind == Kind::Replace && self.p.no_replace { Kind::Set } else { kind };
        let len = self.value_len();
        let value = if kind.is_tombstone() { vec![] } else { crate::model::mk_value(self.seed, txn, idx, len) };
        let mut ts = None;
        if allow_ts && self.p.explicit_ts && kind != Kind::Replace && self.r.chance(1, 3) {
            // strictly increasing per key (two versions of one key never share a timestamp: the
            // property lets ties resolve either way, so collisions would not be decidable);
            // the out-of-order campaign draws any unused earlier stamp instead
            let last = *self.last_ts.get(&key).unwrap_or(&0);
            let used = self.used_ts.entry(key.clone()).or_default();
            let t = if self.p.out_of_order_ts && self.r.chance(1, 3) {
                let c = self.r.range(1, self.clock);
                if used.contains(&c) { None } else { Some(c) }
            } else if last + 1 <= self.clock {
                Some(self.r.range(last + 1, self.clock))
            } else {
                None
            };
            ts = t;
        }
        let eff = ts.unwrap_or(self.clock);
        self.used_ts.entry(key.clone()).or_default().insert(eff);
        let e = self.last_ts.entry(key.clone()).or_insert(0);
        if eff > *e {
            *e = eff;
        }
        WriteOp { kind, key, value, ts }
    }

    fn commit_step(&mut self) -> Step {
        let txn = self.next_txn;
        self.next_txn += 1;
        // the clock advances before every commit so commit-time stamps are strictly increasing
        self.clock += 1;
        let n = match self.r.below(10) {
            0..=4 => 1,
            5..=7 => self.r.range(2, 3),
            _ => self.r.range(4, 8),
        };
        let mut ops = Vec::new();
        let mut used: BTreeSet<Vec<u8>> = BTreeSet::new();
        for i in 0..n {
            let w = self.write_op(txn, i as u32, true);
            // one write per key per transaction in E1 (C08 covers replacement rules)
            if used.insert(w.key.clone()) {
                ops.push(w);
            }
        }
        Step::Commit { txn, ops, write_only: self.r.chance(1, 4), immediate: self.r.chance(1, 8), clock: self.clock }
    }

    pub fn generate(&mut self) -> Vec<Step> {
        let mut steps = Vec::new();
        // warm-up: a few commits so there is something to place
        for _ in 0..self.r.range(2, 6) {
            steps.push(self.commit_step());
        }
        while steps.len() < self.p.steps {
            let x = self.r.below(100);
            if x < self.p.placement_pct {
                let y = self.r.below(100);
                let s = if y < 18 {
                    Step::Rotate
                } else if y < 30 {
                    Step::FlushOne
                } else if y < 55 {
                    Step::Flush
                } else if y < 90 {
                    Step::Compact { rounds: self.r.range(1, 4) as u8 }
                } else if self.p.reopen {
                    self.live_readers.clear();
                    Step::Reopen
                } else {
                    Step::Flush
                };
                steps.push(s);
                continue;
            }
            if self.p.checkpoint && x < self.p.placement_pct + 4 {
                if !self.have_checkpoint || self.r.chance(1, 3) {
                    self.have_checkpoint = true;
                    steps.push(Step::Checkpoint);
                } else {
                    self.live_readers.clear();
                    steps.push(Step::Restore);
                }
                continue;
            }
            if self.p.clock_advance && x < self.p.placement_pct + 8 {
                let by = self.r.range(1, 400);
                self.clock += by;
                steps.push(Step::SetClock { to: self.clock });
                continue;
            }
            if self.p.readers && x < self.p.placement_pct + 30 {
                // reader activity
                let y = self.r.below(100);
                let live: Vec<usize> = self.live_readers.keys().cloned().collect();
                if (live.is_empty() || y < 25) && live.len() < self.p.max_readers {
                    let rid = self.next_rid;
                    self.next_rid += 1;
                    let mut pending = Vec::new();
                    if self.p.reader_pending && self.r.chance(1, 3) {
                        let mut used = BTreeSet::new();
                        for i in 0..self.r.range(1, 3) {
                            let mut w = self.write_op(1_000_000 + rid as u64, i as u32, false);
                            if w.kind == Kind::Replace {
                                w.kind = Kind::Set;
                            }
                            w.ts = None;
                            if used.insert(w.key.clone()) {
                                pending.push(w);
                            }
                        }
                    }
                    self.live_readers.insert(rid, false);
                    steps.push(Step::BeginReader { rid, pending });
                    // sometimes a twin that shares the start point
                    if self.r.chance(1, 4) && self.live_readers.len() < self.p.max_readers {
                        let rid2 = self.next_rid;
                        self.next_rid += 1;
                        self.live_readers.insert(rid2, false);
                        steps.push(Step::BeginReader { rid: rid2, pending: vec![] });
                    }
                } else if !live.is_empty() {
                    let rid = *self.r.pick(&live);
                    let has_cursor = self.live_readers[&rid];
                    if y < 40 {
                        self.live_readers.remove(&rid);
                        steps.push(Step::DropReader { rid });
                    } else if y < 60 || !self.p.cursors {
                        steps.push(Step::ReaderBattery { rid });
                    } else if !has_cursor {
                        let (lo, hi) = self.bounds();
                        self.live_readers.insert(rid, true);
                        steps.push(Step::OpenCursor { rid, lo, hi });
                    } else if y < 70 {
                        self.live_readers.insert(rid, false);
                        steps.push(Step::DropCursor { rid });
                    } else {
                        for _ in 0..self.r.range(1, 4) {
                            let op = match self.r.below(10) {
                                0 => CurOp::SeekFirst,
                                1 => CurOp::SeekLast,
                                2 | 3 => CurOp::Seek(self.r.pick(&self.keys).clone()),
                                4..=6 => CurOp::Next,
                                _ => CurOp::Prev,
                            };
                            steps.push(Step::Cursor { rid, op });
                        }
                    }
                }
                continue;
            }
            steps.push(self.commit_step());
        }
        steps
    }

    fn bounds(&mut self) -> (Option<Vec<u8>>, Option<Vec<u8>>) {
        // present bounds only (absent bounds are C09's business and currently a known finding)
        let mut a = self.r.pick(&self.keys).clone();
        let mut b = self.r.pick(&self.keys).clone();
        if self.r.chance(1, 2) {
            return (Some(LO_ALL.to_vec()), Some(HI_ALL.to_vec()));
        }
        if a > b {
            std::mem::swap(&mut a, &mut b);
        }
        if a == b {
            b.push(0xff);
        }
        (Some(a), Some(b))
    }
}

// ---------------------------------------------------------------------------
// executor
// ---------------------------------------------------------------------------

#[derive(Clone, Debug)]
pub struct Violation {
    pub step: usize,
    pub what: String,
    pub class: String,
}

pub struct Reader {
    txn: *mut Transaction,
    pub horizon: u64,
    pub pending: BTreeMap<Vec<u8>, Option<Vec<u8>>>,
    cursor: Option<CursorState>,
    pub born_step: usize,
    pub placements_survived: usize,
}

struct CursorState {
    it: Box<dyn LSMIterator + 'static>,
    lo: Option<Vec<u8>>,
    hi: Option<Vec<u8>>,
    /// model position: index into the model list, None = invalid / unpositioned
    pos: Option<usize>,
    positioned: bool,
}

impl Reader {
    fn txn(&self) -> &'static Transaction {
        unsafe { &*self.txn }
    }
    fn destroy(mut self) {
        self.cursor.take(); // iterator first: it borrows the transaction
        unsafe { drop(Box::from_raw(self.txn)) };
    }
}

#[derive(Default, Clone, Debug)]
pub struct Stats {
    pub steps: usize,
    pub commits: usize,
    pub reads: u64,
    pub reader_reads: u64,
    pub reader_reads_after_placement: u64,
    pub reader_versioned_batteries: u64,
    pub cursor_ops: u64,
    pub cursor_ops_after_placement: u64,
    pub placements: usize,
    pub compactions_changed: usize,
    pub reopens: usize,
    pub restores: usize,
    pub checkpoints: usize,
    pub twin_readers: usize,
    pub shapes: BTreeSet<String>,
    pub flags: BTreeSet<String>,
    pub hist_checks: u64,
    pub getat_checks: u64,
    pub vlog_invariant_checks: u64,
}

impl Stats {
    pub fn merge(&mut self, o: &Stats) {
        self.steps += o.steps;
        self.commits += o.commits;
        self.reads += o.reads;
        self.reader_reads += o.reader_reads;
        self.reader_reads_after_placement += o.reader_reads_after_placement;
        self.reader_versioned_batteries += o.reader_versioned_batteries;
        self.cursor_ops += o.cursor_ops;
        self.cursor_ops_after_placement += o.cursor_ops_after_placement;
        self.placements += o.placements;
        self.compactions_changed += o.compactions_changed;
        self.reopens += o.reopens;
        self.restores += o.restores;
        self.checkpoints += o.checkpoints;
        self.twin_readers += o.twin_readers;
        self.hist_checks += o.hist_checks;
        self.getat_checks += o.getat_checks;
        self.vlog_invariant_checks += o.vlog_invariant_checks;
        for s in &o.shapes {
            self.shapes.insert(s.clone());
        }
        for s in &o.flags {
            self.flags.insert(s.clone());
        }
    }
}

#[derive(Clone, Debug)]
pub struct ExecOpts {
    /// run the fresh-transaction battery after every step
    pub fresh_battery: bool,
    /// check versioned reads (get_at / history) in the battery
    pub versioned: bool,
    /// check vlog reference invariant after placement steps
    pub vlog_invariant: bool,
    /// read through every open reader after each placement step
    pub readers_after_placement: bool,
    /// verify the checkpoint directory standalone when one is taken
    pub verify_checkpoint: bool,
    /// reopen with a different (format-compatible) option set
    pub reopen_mutate: bool,
}

impl Default for ExecOpts {
    fn default() -> Self {
        ExecOpts { fresh_battery: true, versioned: false, vlog_invariant: false, readers_after_placement: true, verify_checkpoint: false, reopen_mutate: false }
    }
}

pub struct Exec {
    pub cfg: Cfg,
    pub dir: PathBuf,
    pub tree: Option<Tree>,
    pub model: Model,
    pub keys: Vec<Vec<u8>>,
    pub readers: BTreeMap<usize, Reader>,
    pub stats: Stats,
    pub clock: Arc<ManualClock>,
    pub opts: ExecOpts,
    pub step_no: usize,
    checkpoint: Option<(PathBuf, u64)>,
    ckpt_counter: usize,
    last_begin_horizon: Option<u64>,
    rng: Rng,
    /// greatest clock value at which a compaction may have run (finite retention tolerance)
    pub clock_at_last_compaction: u64,
}

macro_rules! viol {
    ($self:expr, $class:expr, $($arg:tt)*) => {
        return Err(Violation { step: $self.step_no, class: $class.to_string(), what: format!($($arg)*) })
    };
}

fn vfmt(v: &Option<Vec<u8>>) -> String {
    match v {
        None => "None".into(),
        Some(b) => format!("Some({} len={})", hex(b), b.len()),
    }
}

impl Exec {
    pub fn new(cfg: &Cfg, dir: &Path, keys: Vec<Vec<u8>>, opts: ExecOpts, seed: u64) -> Result<Self, Violation> {
        let clock = Arc::new(ManualClock(AtomicU64::new(1000)));
        let tree = cfg
            .open_with_clock(dir, clock.clone())
            .map_err(|e| Violation { step: 0, class: "open".into(), what: format!("initial open failed: {e}") })?;
        Ok(Exec {
            cfg: cfg.clone(),
            dir: dir.to_path_buf(),
            tree: Some(tree),
            model: Model::new(),
            keys,
            readers: BTreeMap::new(),
            stats: Stats::default(),
            clock,
            opts,
            step_no: 0,
            checkpoint: None,
            ckpt_counter: 0,
            last_begin_horizon: None,
            rng: Rng::new(seed ^ 0x5eed),
            clock_at_last_compaction: 0,
        })
    }

    pub fn tree(&self) -> &Tree {
        self.tree.as_ref().unwrap()
    }

    pub async fn run(&mut self, steps: &[Step]) -> Result<(), Violation> {
        for (i, s) in steps.iter().enumerate() {
            self.step_no = i;
            self.step(s).await?;
            self.stats.steps += 1;
        }
        Ok(())
    }

    pub async fn finish(&mut self) {
        let rs: Vec<usize> = self.readers.keys().cloned().collect();
        for r in rs {
            if let Some(rd) = self.readers.remove(&r) {
                rd.destroy();
            }
        }
        if let Some(t) = self.tree.take() {
            let _ = t.close().await;
            drop(t);
            for _ in 0..4 {
                tokio::task::yield_now().await;
            }
        }
    }

    fn drop_all_readers(&mut self) {
        let rs: Vec<usize> = self.readers.keys().cloned().collect();
        for r in rs {
            if let Some(rd) = self.readers.remove(&r) {
                rd.destroy();
            }
        }
    }

    fn note_placement(&mut self) -> Result<(), Violation> {
        self.stats.placements += 1;
        for r in self.readers.values_mut() {
            r.placements_survived += 1;
        }
        let lay = match self.tree().verif_layout() {
            Ok(l) => l,
            Err(e) => viol!(self, "hook", "verif_layout failed: {e}"),
        };
        let mut per_level = vec![0usize; lay.level_count];
        for t in &lay.tables {
            per_level[t.level as usize] += 1;
        }
        let sig = format!(
            "L{}:{}|imm{}|act{}",
            lay.level_count,
            per_level.iter().map(|n| n.min(&3).to_string()).collect::<Vec<_>>().join(","),
            lay.immutables.min(3),
            !lay.active_empty as u8
        );
        self.stats.shapes.insert(sig);
        for (li, n) in per_level.iter().enumerate() {
            if li > 0 && *n >= 2 {
                self.stats.flags.insert("deep_level_multi_table".into());
                // non-monotone seq ranges among key-ordered tables
                let mut ts: Vec<_> = lay.tables.iter().filter(|t| t.level as usize == li).collect();
                ts.sort_by(|a, b| a.smallest_user_key.cmp(&b.smallest_user_key));
                for w in ts.windows(2) {
                    if w[1].smallest_seq <= w[0].largest_seq {
                        self.stats.flags.insert("deep_level_interleaved_seq".into());
                    }
                }
            }
            if li > 0 && *n >= 3 {
                self.stats.flags.insert("deep_level_3_tables".into());
            }
        }
        let max_table_seq = lay.tables.iter().filter_map(|t| t.largest_seq).max().unwrap_or(0);
        if lay.last_sequence > max_table_seq && lay.immutables == 0 {
            self.stats.flags.insert("newest_seq_compacted_away".into());
        }
        Ok(())
    }

    fn model_list(&self, r: &Reader, lo: &Option<Vec<u8>>, hi: &Option<Vec<u8>>) -> Vec<(Vec<u8>, Vec<u8>)> {
        overlay_scan(&self.model, &r.pending, lo.as_deref(), hi.as_deref(), r.horizon)
    }

    pub async fn step(&mut self, s: &Step) -> Result<(), Violation> {
        match s {
            Step::SetClock { to } => {
                self.clock.0.fetch_max(*to, Ordering::SeqCst);
            }
            Step::Commit { txn, ops, write_only, immediate, clock } => {
                if ops.is_empty() {
                    return Ok(());
                }
                self.clock.0.fetch_max(*clock, Ordering::SeqCst);
                let before = self.tree().verif_visible_seq();
                let mut t = match self.tree().begin_with_mode(if *write_only { Mode::WriteOnly } else { Mode::ReadWrite }) {
                    Ok(t) => t,
                    Err(e) => viol!(self, "begin", "begin failed: {e}"),
                };
                if *immediate {
                    t.set_durability(Durability::Immediate);
                }
                let now = self.clock.0.load(Ordering::SeqCst);
                let mut mops = Vec::new();
                for w in ops {
                    let res = match (w.kind, w.ts) {
                        (Kind::Set, None) => t.set(&w.key, &w.value),
                        (Kind::Set, Some(ts)) => t.set_at(&w.key, &w.value, ts),
                        (Kind::Delete, None) => t.delete(&w.key),
                        (Kind::Delete, Some(ts)) => {
                            t.delete_with_options(&w.key, &surrealkv::WriteOptions::new().with_timestamp(Some(ts)))
                        }
                        (Kind::SoftDelete, None) => t.soft_delete(&w.key),
                        (Kind::SoftDelete, Some(ts)) => {
                            t.soft_delete_with_options(&w.key, &surrealkv::WriteOptions::new().with_timestamp(Some(ts)))
                        }
                        (Kind::Replace, _) => t.replace(&w.key, &w.value),
                    };
                    if let Err(e) = res {
                        viol!(self, "write", "write op failed: {e}");
                    }
                    mops.push((w.kind, w.key.clone(), w.value.clone(), w.ts.unwrap_or(now)));
                }
                if let Err(e) = t.commit().await {
                    viol!(self, "commit", "commit of txn {} failed in a single-driver history: {e}", txn);
                }
                drop(t);
                let after = self.tree().verif_visible_seq();
                let n = mops.len() as u64;
                if after < before + n {
                    viol!(self, "horizon", "visible seq after commit {} < before {} + {} entries", after, before, n);
                }
                self.model.apply(*txn, after - n + 1, &mops);
                self.stats.commits += 1;
                // keep a single driver from stalling itself in manual mode
                let lay = self.tree().verif_layout().map_err(|e| Violation { step: self.step_no, class: "hook".into(), what: e.to_string() })?;
                if lay.immutables + 2 >= self.cfg.memtable_stall {
                    if let Err(e) = self.tree().verif_flush() {
                        viol!(self, "flush", "flush failed: {e}");
                    }
                }
            }
            Step::BeginReader { rid, pending } => {
                if self.readers.contains_key(rid) {
                    return Ok(());
                }
                let mode = if pending.is_empty() && self.rng.chance(1, 2) { Mode::ReadOnly } else { Mode::ReadWrite };
                let mut t = match self.tree().begin_with_mode(mode) {
                    Ok(t) => t,
                    Err(e) => viol!(self, "begin", "begin failed: {e}"),
                };
                let horizon = t.verif_start_seq();
                let vis = self.tree().verif_visible_seq();
                if horizon != vis {
                    viol!(self, "horizon", "reader horizon {} != visible seq {} with no commit in flight", horizon, vis);
                }
                let mut pmap = BTreeMap::new();
                for w in pending {
                    let res = match w.kind {
                        Kind::Set | Kind::Replace => t.set(&w.key, &w.value),
                        Kind::Delete => t.delete(&w.key),
                        Kind::SoftDelete => t.soft_delete(&w.key),
                    };
                    if let Err(e) = res {
                        viol!(self, "write", "pending write failed: {e}");
                    }
                    pmap.insert(w.key.clone(), if w.kind.is_tombstone() { None } else { Some(w.value.clone()) });
                }
                if self.last_begin_horizon == Some(horizon) && self.readers.values().any(|r| r.horizon == horizon) {
                    self.stats.twin_readers += 1;
                }
                self.last_begin_horizon = Some(horizon);
                let ptr = Box::into_raw(Box::new(t));
                self.readers.insert(
                    *rid,
                    Reader { txn: ptr, horizon, pending: pmap, cursor: None, born_step: self.step_no, placements_survived: 0 },
                );
            }
            Step::DropReader { rid } => {
                if let Some(r) = self.readers.remove(rid) {
                    r.destroy();
                }
            }
            Step::OpenCursor { rid, lo, hi } => {
                let Some(r) = self.readers.get_mut(rid) else { return Ok(()) };
                r.cursor.take();
                let txn = r.txn();
                let mut ro = ReadOptions::new();
                ro.set_iterate_lower_bound(lo.clone());
                ro.set_iterate_upper_bound(hi.clone());
                let it = match txn.range_with_options(&ro) {
                    Ok(it) => it,
                    Err(e) => viol!(self, "cursor", "range_with_options failed: {e}"),
                };
                let it: Box<dyn LSMIterator + 'static> = Box::new(it);
                r.cursor = Some(CursorState { it, lo: lo.clone(), hi: hi.clone(), pos: None, positioned: false });
            }
            Step::DropCursor { rid } => {
                if let Some(r) = self.readers.get_mut(rid) {
                    r.cursor.take();
                }
            }
            Step::Cursor { rid, op } => {
                self.cursor_op(*rid, op)?;
            }
            Step::ReaderBattery { rid } => {
                self.reader_battery(*rid)?;
            }
            Step::Rotate => {
                if let Err(e) = self.tree().verif_rotate() {
                    viol!(self, "rotate", "rotate failed: {e}");
                }
                self.after_placement().await?;
            }
            Step::FlushOne => {
                if let Err(e) = self.tree().verif_flush_one() {
                    viol!(self, "flush", "flush_one failed: {e}");
                }
                self.after_placement().await?;
            }
            Step::Flush => {
                if let Err(e) = self.tree().verif_flush() {
                    viol!(self, "flush", "flush failed: {e}");
                }
                self.after_placement().await?;
            }
            Step::Compact { rounds } => {
                self.clock_at_last_compaction = self.clock.0.load(Ordering::SeqCst);
                for _ in 0..*rounds {
                    match self.tree().verif_compact_once() {
                        Ok(true) => {
                            self.stats.compactions_changed += 1;
                        }
                        Ok(false) => break,
                        Err(e) => viol!(self, "compact", "compaction failed: {e}"),
                    }
                }
                self.after_placement().await?;
            }
            Step::Reopen => {
                self.drop_all_readers();
                let t = self.tree.take().unwrap();
                if let Err(e) = t.close().await {
                    viol!(self, "close", "close failed: {e}");
                }
                drop(t);
                for _ in 0..4 {
                    tokio::task::yield_now().await;
                }
                if self.opts.reopen_mutate {
                    // dimensions the on-disk format does not depend on
                    self.cfg.cache = *self.rng.pick(&[0, 4096, 1 << 20]);
                    self.cfg.max_memtable_size = self.cfg.max_memtable_size.max(*self.rng.pick(&[16 * 1024, 64 * 1024, 256 * 1024]));
                    self.cfg.l0_max_files = self.rng.range(1, 4) as usize;
                    self.cfg.flush_on_close = self.rng.chance(1, 2);
                    self.stats.flags.insert("reopened_with_different_options".into());
                }
                match self.cfg.open_with_clock(&self.dir, self.clock.clone()) {
                    Ok(t) => self.tree = Some(t),
                    Err(e) => viol!(self, "reopen", "reopen of a cleanly closed store failed: {e} (options {})", self.cfg.to_json()),
                }
                // a second open of the same directory must yield the same contents
                if self.rng.chance(1, 3) {
                    let t = self.tree.take().unwrap();
                    if let Err(e) = t.close().await {
                        viol!(self, "close", "close failed: {e}");
                    }
                    drop(t);
                    for _ in 0..4 {
                        tokio::task::yield_now().await;
                    }
                    match self.cfg.open_with_clock(&self.dir, self.clock.clone()) {
                        Ok(t) => self.tree = Some(t),
                        Err(e) => viol!(self, "reopen", "second reopen failed: {e}"),
                    }
                    self.stats.reopens += 1;
                }
                self.stats.reopens += 1;
                let vis = self.tree().verif_visible_seq();
                if vis < self.model.last_seq() {
                    viol!(self, "reopen", "visible seq after reopen {} < last committed seq {}", vis, self.model.last_seq());
                }
                self.after_placement().await?;
            }
            Step::Checkpoint => {
                self.ckpt_counter += 1;
                // every other checkpoint goes into the directory of the previous one (a "latest"
                // backup directory that is written over)
                let cdir = match &self.checkpoint {
                    Some((prev, _)) if self.ckpt_counter % 2 == 0 => prev.clone(),
                    _ => {
                        let c = self.dir.with_extension(format!("ckpt{}", self.ckpt_counter));
                        let _ = std::fs::remove_dir_all(&c);
                        c
                    }
                };
                if let Err(e) = self.tree().create_checkpoint(&cdir) {
                    viol!(self, "checkpoint", "create_checkpoint failed: {e}");
                }
                if let Some((old, _)) = self.checkpoint.take() {
                    if old != cdir {
                        let _ = std::fs::remove_dir_all(old);
                    }
                }
                self.checkpoint = Some((cdir.clone(), self.model.last_seq()));
                self.stats.checkpoints += 1;
                if self.opts.verify_checkpoint {
                    self.verify_checkpoint_standalone(&cdir).await?;
                }
                self.after_placement().await?;
            }
            Step::Restore => {
                let Some((cdir, seq)) = self.checkpoint.clone() else { return Ok(()) };
                self.drop_all_readers();
                if let Err(e) = self.tree().restore_from_checkpoint(&cdir) {
                    viol!(self, "restore", "restore_from_checkpoint failed: {e}");
                }
                self.model.rewind(seq);
                self.stats.restores += 1;
                self.stats.flags.insert("restored".into());
                self.after_placement().await?;
            }
        }
        if self.opts.fresh_battery {
            self.fresh_battery()?;
        }
        Ok(())
    }

    async fn after_placement(&mut self) -> Result<(), Violation> {
        // let the detached WAL clean-up task (spawned by flush) run
        for _ in 0..2 {
            tokio::task::yield_now().await;
        }
        self.note_placement()?;
        if self.opts.vlog_invariant && self.cfg.vlog {
            self.vlog_invariant()?;
        }
        if self.opts.readers_after_placement {
            let rids: Vec<usize> = self.readers.keys().cloned().collect();
            for rid in rids {
                self.reader_gets(rid)?;
                // time-travel reads and history listings through the open reader, at its
                // horizon: what was committed after it began - a replace or a hard delete in
                // particular - must not change them, whatever compaction made of it. (Not with
                // finite retention, where versions may expire under a reader, and not with the
                // version index, which is not kept per snapshot.)
                if self.opts.versioned && self.cfg.versioning && self.cfg.retention == 0 && !self.cfg.index {
                    let Some(r) = self.readers.get(&rid) else { continue };
                    if !r.pending.is_empty() {
                        continue;
                    }
                    let (txn, horizon) = (r.txn(), r.horizon);
                    self.versioned_battery(txn, horizon)?;
                    self.stats.reader_versioned_batteries += 1;
                }
            }
        }
        Ok(())
    }

    /// point gets of every key through an open reader (no cursor is created)
    fn reader_gets(&mut self, rid: usize) -> Result<(), Violation> {
        let Some(r) = self.readers.get(&rid) else { return Ok(()) };
        let txn = r.txn();
        let horizon = r.horizon;
        let survived = r.placements_survived;
        let keys = self.keys.clone();
        for k in &keys {
            let r = self.readers.get(&rid).unwrap();
            let exp = overlay_get(&self.model, &r.pending, k, horizon);
            let got = match txn.get(k) {
                Ok(v) => v,
                Err(e) => viol!(self, "reader_get", "reader {} (horizon {}) get({}) failed: {e}", rid, horizon, hex(k)),
            };
            self.stats.reader_reads += 1;
            if survived > 0 {
                self.stats.reader_reads_after_placement += 1;
            }
            if got != exp {
                let snaps = self.tree().verif_snapshot_seqs();
                viol!(
                    self,
                    "reader_get",
                    "open reader {} (horizon {}, begun at step {}, {} placement steps ago) get({}) = {} but its snapshot holds {}; snapshot registry now {:?}",
                    rid, horizon, r.born_step, survived, hex(k), vfmt(&got), vfmt(&exp), snaps
                );
            }
        }
        Ok(())
    }

    /// gets + forward and backward scans through an open reader
    fn reader_battery(&mut self, rid: usize) -> Result<(), Violation> {
        if !self.readers.contains_key(&rid) {
            return Ok(());
        }
        self.reader_gets(rid)?;
        let r = self.readers.get(&rid).unwrap();
        let txn = r.txn();
        let horizon = r.horizon;
        let survived = r.placements_survived;
        let exp = self.model_list(r, &Some(LO_ALL.to_vec()), &Some(HI_ALL.to_vec()));
        let what = format!("open reader {} (horizon {}, {} placements survived)", rid, horizon, survived);
        let (n1, n2) = self.check_scans(txn, LO_ALL, HI_ALL, &exp, &what)?;
        self.stats.reader_reads += n1 + n2;
        if survived > 0 {
            self.stats.reader_reads_after_placement += n1 + n2;
        }
        Ok(())
    }

    fn check_scans(
        &self,
        txn: &Transaction,
        lo: &[u8],
        hi: &[u8],
        exp: &[(Vec<u8>, Vec<u8>)],
        what: &str,
    ) -> Result<(u64, u64), Violation> {
        let mut it = match txn.range(lo, hi) {
            Ok(it) => it,
            Err(e) => viol!(self, "scan", "{what}: range({},{}) failed: {e}", hex(lo), hex(hi)),
        };
        // forward
        let mut got = Vec::new();
        let mut ok = match it.seek_first() {
            Ok(b) => b,
            Err(e) => viol!(self, "scan", "{what}: seek_first failed: {e}"),
        };
        while ok {
            if !it.valid() {
                viol!(self, "scan", "{what}: seek/next returned true but valid() is false");
            }
            let k = it.key().user_key().to_vec();
            let v = match it.value() {
                Ok(v) => v,
                Err(e) => viol!(self, "scan", "{what}: value() of {} failed: {e}", hex(&k)),
            };
            got.push((k, v));
            if got.len() > exp.len() + 50 {
                break;
            }
            ok = match it.next() {
                Ok(b) => b,
                Err(e) => viol!(self, "scan", "{what}: next failed: {e}"),
            };
        }
        if got != exp {
            viol!(self, "scan", "{what}: forward scan [{},{}) differs: got {} expected {}", hex(lo), hex(hi), fmt_list(&got), fmt_list(exp));
        }
        let n1 = got.len() as u64 + 1;
        // backward
        let mut got = Vec::new();
        let mut ok = match it.seek_last() {
            Ok(b) => b,
            Err(e) => viol!(self, "scan", "{what}: seek_last failed: {e}"),
        };
        while ok {
            let k = it.key().user_key().to_vec();
            let v = match it.value() {
                Ok(v) => v,
                Err(e) => viol!(self, "scan", "{what}: value() of {} failed: {e}", hex(&k)),
            };
            got.push((k, v));
            if got.len() > exp.len() + 50 {
                break;
            }
            ok = match it.prev() {
                Ok(b) => b,
                Err(e) => viol!(self, "scan", "{what}: prev failed: {e}"),
            };
        }
        got.reverse();
        if got != exp {
            viol!(self, "scan", "{what}: backward scan [{},{}) differs: got {} expected {}", hex(lo), hex(hi), fmt_list(&got), fmt_list(exp));
        }
        Ok((n1, got.len() as u64 + 1))
    }

    fn cursor_op(&mut self, rid: usize, op: &CurOp) -> Result<(), Violation> {
        let Some(r) = self.readers.get(&rid) else { return Ok(()) };
        if r.cursor.is_none() {
            return Ok(());
        }
        let (lo, hi) = {
            let c = r.cursor.as_ref().unwrap();
            (c.lo.clone(), c.hi.clone())
        };
        let list = self.model_list(r, &lo, &hi);
        let horizon = r.horizon;
        let survived = r.placements_survived;
        let r = self.readers.get_mut(&rid).unwrap();
        let c = r.cursor.as_mut().unwrap();
        // after running off an end only seeks are issued
        let eff: CurOp = match op {
            CurOp::Next | CurOp::Prev if !c.positioned || c.pos.is_none() => {
                if matches!(op, CurOp::Next) {
                    CurOp::SeekFirst
                } else {
                    CurOp::SeekLast
                }
            }
            CurOp::Seek(k) => {
                // seek target inside the bounds
                let inside = lo.as_ref().map(|l| k >= l).unwrap_or(true) && hi.as_ref().map(|h| k < h).unwrap_or(true);
                if inside {
                    op.clone()
                } else {
                    CurOp::SeekFirst
                }
            }
            o => o.clone(),
        };
        let res = match &eff {
            CurOp::SeekFirst => {
                c.pos = if list.is_empty() { None } else { Some(0) };
                c.it.seek_first()
            }
            CurOp::SeekLast => {
                c.pos = if list.is_empty() { None } else { Some(list.len() - 1) };
                c.it.seek_last()
            }
            CurOp::Seek(k) => {
                let i = list.partition_point(|(lk, _)| lk < k);
                c.pos = if i < list.len() { Some(i) } else { None };
                c.it.seek(k)
            }
            CurOp::Next => {
                let p = c.pos.unwrap();
                c.pos = if p + 1 < list.len() { Some(p + 1) } else { None };
                c.it.next()
            }
            CurOp::Prev => {
                let p = c.pos.unwrap();
                c.pos = if p > 0 { Some(p - 1) } else { None };
                c.it.prev()
            }
        };
        c.positioned = true;
        self.stats.cursor_ops += 1;
        if survived > 0 {
            self.stats.cursor_ops_after_placement += 1;
        }
        let what = format!("cursor of reader {} (horizon {}, {} placements survived) {:?} over [{:?},{:?})", rid, horizon, survived, eff, lo.as_ref().map(|k| hex(k)), hi.as_ref().map(|k| hex(k)));
        let step_no = self.step_no;
        let mk = |s: String| Violation { step: step_no, class: "cursor".into(), what: s };
        let ret = res.map_err(|e| mk(format!("{what}: returned error {e}")))?;
        let valid = c.it.valid();
        if valid != c.pos.is_some() || ret != valid {
            return Err(mk(format!(
                "{what}: valid()={} returned={} but model position is {:?} of {}",
                valid,
                ret,
                c.pos,
                fmt_list(&list)
            )));
        }
        if let Some(p) = c.pos {
            let k = c.it.key().user_key().to_vec();
            let v = c.it.value().map_err(|e| mk(format!("{what}: value() failed: {e}")))?;
            if k != list[p].0 || v != list[p].1 {
                return Err(mk(format!(
                    "{what}: at ({}, len {}) but model is at ({}, len {}); model list {}",
                    hex(&k),
                    v.len(),
                    hex(&list[p].0),
                    list[p].1.len(),
                    fmt_list(&list)
                )));
            }
        }
        Ok(())
    }

    /// Query battery through a fresh read-only transaction.
    pub fn fresh_battery(&mut self) -> Result<(), Violation> {
        let txn = match self.tree().begin_with_mode(Mode::ReadOnly) {
            Ok(t) => t,
            Err(e) => viol!(self, "begin", "begin failed: {e}"),
        };
        let s = txn.verif_start_seq();
        if s < self.model.last_seq() {
            viol!(self, "horizon", "fresh transaction horizon {} < last acknowledged commit seq {}", s, self.model.last_seq());
        }
        let keys = self.keys.clone();
        for k in &keys {
            let exp = self.model.get(k, s).map(|v| v.to_vec());
            let got = match txn.get(k) {
                Ok(v) => v,
                Err(e) => viol!(self, "get", "get({}) failed: {e}", hex(k)),
            };
            self.stats.reads += 1;
            if got != exp {
                viol!(self, "get", "fresh get({}) = {} but committed history says {}", hex(k), vfmt(&got), vfmt(&exp));
            }
        }
        let exp = self.model.scan(Some(LO_ALL), Some(HI_ALL), s);
        let (a, b) = self.check_scans(&txn, LO_ALL, HI_ALL, &exp, "fresh transaction")?;
        self.stats.reads += a + b;
        // a cursor that changes direction: where the versions of a key sit (memtables, tables)
        // must not show in what a seek / next / prev walk lists
        if !exp.is_empty() {
            let mut it = match txn.range(LO_ALL, HI_ALL) {
                Ok(i) => i,
                Err(e) => viol!(self, "scan", "range failed: {e}"),
            };
            let mut prog = String::new();
            let mut pos: Option<usize>;
            // start: seek_first, seek_last or seek(some key)
            match self.rng.below(3) {
                0 => {
                    prog.push_str("seek_first");
                    pos = Some(0);
                    if let Err(e) = it.seek_first() {
                        viol!(self, "scan", "seek_first failed: {e}");
                    }
                }
                1 => {
                    prog.push_str("seek_last");
                    pos = Some(exp.len() - 1);
                    if let Err(e) = it.seek_last() {
                        viol!(self, "scan", "seek_last failed: {e}");
                    }
                }
                _ => {
                    let k = self.rng.pick(&keys).clone();
                    prog.push_str(&format!("seek({})", hex(&k)));
                    pos = exp.iter().position(|e| e.0 >= k);
                    if let Err(e) = it.seek(&k) {
                        viol!(self, "scan", "seek failed: {e}");
                    }
                }
            }
            for step in 0..10 {
                // compare
                let got = if it.valid() {
                    match it.value() {
                        Ok(v) => Some((it.key().user_key().to_vec(), v)),
                        Err(e) => viol!(self, "scan", "cursor value failed after {}: {e}", prog),
                    }
                } else {
                    None
                };
                let want = pos.map(|p| exp[p].clone());
                self.stats.reads += 1;
                if got != want {
                    viol!(
                        self,
                        "zigzag",
                        "cursor program {} (fresh transaction): cursor at {} but the committed history says {}",
                        prog,
                        got.as_ref().map(|g| hex(&g.0)).unwrap_or("end".into()),
                        want.as_ref().map(|g| hex(&g.0)).unwrap_or("end".into())
                    );
                }
                let Some(p) = pos else { break };
                if step == 9 {
                    break;
                }
                if self.rng.chance(1, 2) {
                    prog.push_str(", next");
                    pos = if p + 1 < exp.len() { Some(p + 1) } else { None };
                    if let Err(e) = it.next() {
                        viol!(self, "scan", "next failed after {}: {e}", prog);
                    }
                } else {
                    prog.push_str(", prev");
                    pos = p.checked_sub(1);
                    if let Err(e) = it.prev() {
                        viol!(self, "scan", "prev failed after {}: {e}", prog);
                    }
                }
            }
        }
        // one random bounded range
        if keys.len() >= 2 {
            let mut a = self.rng.pick(&keys).clone();
            let mut b = self.rng.pick(&keys).clone();
            if a > b {
                std::mem::swap(&mut a, &mut b);
            }
            if a != b {
                let exp = self.model.scan(Some(&a), Some(&b), s);
                let (x, y) = self.check_scans(&txn, &a, &b, &exp, "fresh transaction (bounded)")?;
                self.stats.reads += x + y;
            }
        }
        if self.opts.versioned && self.cfg.versioning {
            self.versioned_battery(&txn, s)?;
        }
        drop(txn);
        Ok(())
    }

    fn mandatory(&self, v: &crate::model::Version, newest: bool) -> bool {
        if newest || self.cfg.retention == 0 {
            return true;
        }
        // a version is certainly retained if it was inside the window at the last moment a
        // compaction could have looked at it
        let now = self.clock_at_last_compaction;
        now.saturating_sub(v.ts) <= self.cfg.retention
    }

    fn versioned_battery(&mut self, txn: &Transaction, s: u64) -> Result<(), Violation> {
        let keys = self.keys.clone();
        let now = self.clock.0.load(Ordering::SeqCst);
        // get_at at interesting timestamps
        for k in &keys {
            let mut tss: Vec<u64> = vec![0, 1, now, now + 10, u64::MAX];
            if let Some(vs) = self.model.keys.get(k) {
                for v in vs {
                    tss.push(v.ts);
                    tss.push(v.ts.saturating_sub(1));
                    tss.push(v.ts + 1);
                }
            }
            tss.sort();
            tss.dedup();
            for t in tss {
                let me = &*self;
                let acc = self.model.get_at_acceptable(k, t, s, &|v, newest| me.mandatory(v, newest));
                let got = match txn.get_at(k, t) {
                    Ok(v) => v,
                    Err(e) => viol!(self, "get_at", "get_at({}, {}) failed: {e}", hex(k), t),
                };
                self.stats.getat_checks += 1;
                if !acc.contains(&got) {
                    viol!(
                        self,
                        "get_at",
                        "get_at({}, ts={}) = {} but acceptable answers are {:?}; versions of the key (seq,kind,ts): {:?}",
                        hex(k), t, vfmt(&got), acc.iter().map(vfmt).collect::<Vec<_>>(),
                        self.model.keys.get(k).map(|vs| vs.iter().map(|v| (v.seq, v.kind.name(), v.ts)).collect::<Vec<_>>())
                    );
                }
            }
        }
        // history traversals
        let mut variants: Vec<HistOpts> = vec![
            HistOpts { include_tombstones: false, ts_range: None, limit: None },
            HistOpts { include_tombstones: true, ts_range: None, limit: None },
        ];
        let lo_ts = self.rng.range(990, now.max(991));
        let hi_ts = self.rng.range(lo_ts, now + 5);
        variants.push(HistOpts { include_tombstones: self.rng.chance(1, 2), ts_range: Some((lo_ts, hi_ts)), limit: None });
        variants.push(HistOpts { include_tombstones: true, ts_range: None, limit: Some(self.rng.range(0, 6) as usize) });
        variants.push(HistOpts { include_tombstones: false, ts_range: Some((lo_ts, hi_ts)), limit: Some(self.rng.range(1, 4) as usize) });
        for o in variants {
            self.check_history(txn, LO_ALL, HI_ALL, &o, s)?;
        }
        if keys.len() >= 2 {
            let mut a = self.rng.pick(&keys).clone();
            let mut b = self.rng.pick(&keys).clone();
            if a > b {
                std::mem::swap(&mut a, &mut b);
            }
            if a != b {
                self.check_history(txn, &a, &b, &HistOpts { include_tombstones: true, ts_range: None, limit: None }, s)?;
            }
        }
        Ok(())
    }

    fn check_history(&mut self, txn: &Transaction, lo: &[u8], hi: &[u8], o: &HistOpts, s: u64) -> Result<(), Violation> {
        let mut ho = HistoryOptions::new().with_tombstones(o.include_tombstones);
        if let Some((a, b)) = o.ts_range {
            ho = ho.with_ts_range(a, b);
        }
        if let Some(l) = o.limit {
            ho = ho.with_limit(l);
        }
        for backward in [false, true] {
            let mut it = match txn.history_with_options(lo, hi, &ho) {
                Ok(it) => it,
                Err(e) => viol!(self, "history", "history_with_options failed: {e}"),
            };
            let mut got: Vec<(Vec<u8>, u64, u64, bool, Vec<u8>)> = Vec::new();
            let mut ok = match if backward { it.seek_last() } else { it.seek_first() } {
                Ok(b) => b,
                Err(e) => viol!(self, "history", "history seek failed: {e}"),
            };
            while ok && it.valid() {
                let k = it.key();
                let (uk, seq, ts, tomb) = (k.user_key().to_vec(), k.seq_num(), k.timestamp(), k.is_tombstone());
                let v = if tomb {
                    vec![]
                } else {
                    match it.value() {
                        Ok(v) => v,
                        Err(e) => viol!(self, "history", "history value() for {} seq {} failed: {e}", hex(&uk), seq),
                    }
                };
                got.push((uk, seq, ts, tomb, v));
                if got.len() > 10_000 {
                    break;
                }
                ok = match if backward { it.prev() } else { it.next() } {
                    Ok(b) => b,
                    Err(e) => viol!(self, "history", "history step failed: {e}"),
                };
            }
            self.stats.hist_checks += 1;
            self.compare_history(&got, lo, hi, o, s, backward)?;
        }
        Ok(())
    }

    fn compare_history(
        &self,
        got: &[(Vec<u8>, u64, u64, bool, Vec<u8>)],
        lo: &[u8],
        hi: &[u8],
        o: &HistOpts,
        s: u64,
        backward: bool,
    ) -> Result<(), Violation> {
        let unl = HistOpts { limit: None, ..o.clone() };
        let full = if backward { self.model.history_backward(lo, hi, &unl, s) } else { self.model.history(lo, hi, &unl, s) };
        let desc = format!(
            "history[{},{}) tombstones={} ts_range={:?} limit={:?} {}",
            hex(lo), hex(hi), o.include_tombstones, o.ts_range, o.limit, if backward { "backward" } else { "forward" }
        );
        let show = |g: &[(Vec<u8>, u64, u64, bool, Vec<u8>)]| -> String {
            g.iter().map(|(k, seq, ts, t, _)| format!("({},seq{},ts{}{})", hex(k), seq, ts, if *t { ",tomb" } else { "" })).collect::<Vec<_>>().join(" ")
        };
        let showm = |g: &[crate::model::HistEntry]| -> String {
            g.iter().map(|e| format!("({},seq{},ts{},{})", hex(&e.key), e.seq, e.ts, e.kind.name())).collect::<Vec<_>>().join(" ")
        };
        // index model entries by (key, seq)
        let mut idx: BTreeMap<(Vec<u8>, u64), &crate::model::HistEntry> = BTreeMap::new();
        for e in &full {
            idx.insert((e.key.clone(), e.seq), e);
        }
        // 1. every listed entry is a retained version with the right payload, listed once
        let mut seen = BTreeSet::new();
        for (k, seq, ts, tomb, v) in got {
            let Some(e) = idx.get(&(k.clone(), *seq)) else {
                viol!(self, "history", "{desc}: lists ({}, seq {}, ts {}) which is not a retained version at horizon {}; got [{}] expected [{}]", hex(k), seq, ts, s, show(got), showm(&full));
            };
            if !seen.insert((k.clone(), *seq)) {
                viol!(self, "history", "{desc}: lists ({}, seq {}) twice: [{}]", hex(k), seq, show(got));
            }
            if e.ts != *ts || (e.kind == Kind::SoftDelete) != *tomb || (!*tomb && &e.value != v) {
                viol!(self, "history", "{desc}: entry ({}, seq {}) has ts {} tomb {} len {} but was written with ts {} kind {} len {}", hex(k), seq, ts, tomb, v.len(), e.ts, e.kind.name(), e.value.len());
            }
        }
        // 2. order: keys monotone, within a key timestamps monotone (ties in any order). For a
        // key whose timestamps were written out of order (index back-end only) "newest first"
        // is not pinned down by the property: only the key order is checked there.
        let out_of_order_key = |k: &Vec<u8>| -> bool {
            self.model.keys.get(k).map(|vs| vs.windows(2).any(|w| w[1].ts < w[0].ts)).unwrap_or(false)
        };
        for w in got.windows(2) {
            let (a, b) = (&w[0], &w[1]);
            let key_ok = if backward { a.0 >= b.0 } else { a.0 <= b.0 };
            let ts_ok = a.0 != b.0 || out_of_order_key(&a.0) || if backward { a.2 <= b.2 } else { a.2 >= b.2 };
            if !key_ok || !ts_ok {
                viol!(self, "history", "{desc}: order broken between ({},ts{}) and ({},ts{}): [{}]", hex(&a.0), a.2, hex(&b.0), b.2, show(got));
            }
        }
        // 3. completeness
        let has_ties = full.windows(2).any(|w| w[0].key == w[1].key && w[0].ts == w[1].ts);
        let mand: Vec<&crate::model::HistEntry> = full
            .iter()
            .filter(|e| {
                let newest = self.model.newest(&e.key, s).map(|v| v.seq == e.seq).unwrap_or(false);
                let v = crate::model::Version { seq: e.seq, kind: e.kind, value: vec![], ts: e.ts, txn: 0 };
                self.mandatory(&v, newest)
            })
            .collect();
        match o.limit {
            None => {
                for e in &mand {
                    if !seen.contains(&(e.key.clone(), e.seq)) {
                        viol!(self, "history", "{desc}: retained version ({}, seq {}, ts {}, {}) is missing; got [{}] expected [{}]", hex(&e.key), e.seq, e.ts, e.kind.name(), show(got), showm(&full));
                    }
                }
            }
            Some(l) => {
                if got.len() > l {
                    viol!(self, "history", "{desc}: returned {} entries, more than the limit", got.len());
                }
                let any_out_of_order = full.iter().any(|e| out_of_order_key(&e.key));
                if self.cfg.retention == 0 && !has_ties && !any_out_of_order {
                    let exp: Vec<_> = full.iter().take(l).map(|e| (e.key.clone(), e.seq)).collect();
                    let g: Vec<_> = got.iter().map(|x| (x.0.clone(), x.1)).collect();
                    if exp != g {
                        viol!(self, "history", "{desc}: got [{}] expected the first {} of [{}]", show(got), l, showm(&full));
                    }
                }
            }
        }
        Ok(())
    }

    fn vlog_invariant(&mut self) -> Result<(), Violation> {
        // Every vlog file that a live table may point into must exist on disk.
        let lay = match self.tree().verif_layout() {
            Ok(l) => l,
            Err(e) => viol!(self, "hook", "layout: {e}"),
        };
        let min_ref = lay.tables.iter().filter(|t| t.oldest_vlog_file_id > 0).map(|t| t.oldest_vlog_file_id).min();
        let vdir = self.dir.join("vlog");
        let mut on_disk = BTreeSet::new();
        if let Ok(rd) = std::fs::read_dir(&vdir) {
            for e in rd.flatten() {
                let n = e.file_name().to_string_lossy().to_string();
                if let Some(id) = n.strip_suffix(".vlog").and_then(|s| s.parse::<u64>().ok()) {
                    on_disk.insert(id);
                }
            }
        }
        self.stats.vlog_invariant_checks += 1;
        if let Some(m) = min_ref {
            if let Some(maxd) = on_disk.iter().max() {
                // files between the minimum referenced id and the newest must all exist
                for id in m..=*maxd {
                    if !on_disk.contains(&id) {
                        viol!(self, "vlog_files", "vlog file {} is missing on disk although a live table has oldest_vlog_file_id {} (files on disk: {:?})", id, m, on_disk);
                    }
                }
            } else {
                viol!(self, "vlog_files", "live tables reference vlog file {} but the vlog directory is empty", m);
            }
        }
        Ok(())
    }

    async fn verify_checkpoint_standalone(&mut self, cdir: &Path) -> Result<(), Violation> {
        // copy the checkpoint and open the copy as its own store
        let copy = cdir.with_extension("open");
        let _ = std::fs::remove_dir_all(&copy);
        if let Err(e) = copy_dir(cdir, &copy) {
            viol!(self, "harness", "copy of checkpoint failed: {e}");
        }
        let t = match self.cfg.open_with_clock(&copy, self.clock.clone()) {
            Ok(t) => t,
            Err(e) => viol!(self, "checkpoint_open", "checkpoint directory does not open as a database: {e}"),
        };
        let res: Result<(), Violation> = (|| {
            let txn = t.begin_with_mode(Mode::ReadOnly).map_err(|e| Violation { step: self.step_no, class: "begin".into(), what: e.to_string() })?;
            let s = self.model.last_seq();
            for k in &self.keys {
                let exp = self.model.get(k, s).map(|v| v.to_vec());
                let got = txn.get(k).map_err(|e| Violation { step: self.step_no, class: "checkpoint_open".into(), what: format!("get({}) in opened checkpoint failed: {e}", hex(k)) })?;
                if got != exp {
                    return Err(Violation {
                        step: self.step_no,
                        class: "checkpoint_open".into(),
                        what: format!("checkpoint opened standalone: get({}) = {} but the checkpointed state has {}", hex(k), vfmt(&got), vfmt(&exp)),
                    });
                }
            }
            let exp = self.model.scan(Some(LO_ALL), Some(HI_ALL), s);
            self.check_scans(&txn, LO_ALL, HI_ALL, &exp, "checkpoint opened standalone")?;
            Ok(())
        })();
        let _ = t.close().await;
        drop(t);
        for _ in 0..4 {
            tokio::task::yield_now().await;
        }
        let _ = std::fs::remove_dir_all(&copy);
        res
    }
}

pub fn copy_dir(src: &Path, dst: &Path) -> std::io::Result<()> {
    std::fs::create_dir_all(dst)?;
    for e in std::fs::read_dir(src)? {
        let e = e?;
        let p = e.path();
        let d = dst.join(e.file_name());
        if p.is_dir() {
            copy_dir(&p, &d)?;
        } else {
            std::fs::copy(&p, &d)?;
        }
    }
    Ok(())
}

pub fn fmt_list(l: &[(Vec<u8>, Vec<u8>)]) -> String {
    let mut s = String::from("[");
    for (i, (k, v)) in l.iter().enumerate() {
        if i > 0 {
            s.push(' ');
        }
        if i >= 30 {
            s.push_str("...");
            break;
        }
        s.push_str(&format!("{}:{}", hex(k), if v.len() >= 12 { format!("t{}", u64::from_be_bytes(v[..8].try_into().unwrap())) } else { format!("l{}", v.len()) }));
    }
    s.push(']');
    s
}

pub fn overlay_get(m: &Model, pending: &BTreeMap<Vec<u8>, Option<Vec<u8>>>, k: &[u8], s: u64) -> Option<Vec<u8>> {
    if let Some(p) = pending.get(k) {
        return p.clone();
    }
    m.get(k, s).map(|v| v.to_vec())
}

pub fn overlay_scan(
    m: &Model,
    pending: &BTreeMap<Vec<u8>, Option<Vec<u8>>>,
    lo: Option<&[u8]>,
    hi: Option<&[u8]>,
    s: u64,
) -> Vec<(Vec<u8>, Vec<u8>)> {
    let mut map: BTreeMap<Vec<u8>, Vec<u8>> = m.scan(lo, hi, s).into_iter().collect();
    if let (Some(l), Some(h)) = (lo, hi) {
        if l >= h {
            return vec![];
        }
    }
    for (k, v) in pending {
        if lo.map(|l| k.as_slice() < l).unwrap_or(false) || hi.map(|h| k.as_slice() >= h).unwrap_or(false) {
            continue;
        }
        match v {
            Some(v) => {
                map.insert(k.clone(), v.clone());
            }
            None => {
                map.remove(k);
            }
        }
    }
    map.into_iter().collect()
}

// ---------------------------------------------------------------------------
// driver helpers: run one history in its own runtime + directory, minimise on failure
// ---------------------------------------------------------------------------

pub fn scratch_root() -> PathBuf {
    let base = if Path::new("/dev/shm").is_dir() { PathBuf::from("/dev/shm") } else { std::env::temp_dir() };
    base.join(format!("vharness-{}", std::process::id()))
}

pub fn run_history(cfg: &Cfg, keys: &[Vec<u8>], steps: &[Step], opts: &ExecOpts, dir: &Path, seed: u64) -> (Stats, Option<Violation>) {
    let _ = std::fs::remove_dir_all(dir);
    crate::panics::install();
    let rt = tokio::runtime::Builder::new_current_thread().enable_all().build().unwrap();
    let progress = std::sync::atomic::AtomicUsize::new(0);
    let res = std::panic::catch_unwind(std::panic::AssertUnwindSafe(|| {
        rt.block_on(async {
            let mut ex = match Exec::new(cfg, dir, keys.to_vec(), opts.clone(), seed) {
                Ok(e) => e,
                Err(v) => return (Stats::default(), Some(v)),
            };
            let mut r = Ok(());
            for (i, s) in steps.iter().enumerate() {
                ex.step_no = i;
                progress.store(i, Ordering::SeqCst);
                r = ex.step(s).await;
                if r.is_err() {
                    break;
                }
                ex.stats.steps += 1;
            }
            ex.finish().await;
            (ex.stats.clone(), r.err())
        })
    }));
    let out = match res {
        Ok(o) => o,
        Err(_) => {
            let msg = crate::panics::take_last();
            (
                Stats::default(),
                Some(Violation {
                    step: progress.load(Ordering::SeqCst),
                    class: "panic".into(),
                    what: format!("the store panicked: {}", msg),
                }),
            )
        }
    };
    drop(rt);
    let _ = std::fs::remove_dir_all(dir);
    // checkpoint side directories
    if let Some(parent) = dir.parent() {
        if let (Ok(rd), Some(stem)) = (std::fs::read_dir(parent), dir.file_name().map(|s| s.to_string_lossy().to_string())) {
            for e in rd.flatten() {
                let n = e.file_name().to_string_lossy().to_string();
                if n.starts_with(&format!("{}.", stem)) {
                    let _ = std::fs::remove_dir_all(e.path());
                }
            }
        }
    }
    out
}

/// Delta-debug the step list: drop chunks while the same class of violation persists.
pub fn minimise(cfg: &Cfg, keys: &[Vec<u8>], steps: &[Step], opts: &ExecOpts, dir: &Path, seed: u64, class: &str, budget: usize) -> Vec<Step> {
    let mut cur: Vec<Step> = steps.to_vec();
    let mut runs = 0;
    let mut chunk = (cur.len() / 2).max(1);
    while chunk >= 1 && runs < budget {
        let mut i = 0;
        let mut progress = false;
        while i < cur.len() && runs < budget {
            let mut cand = cur.clone();
            let end = (i + chunk).min(cand.len());
            cand.drain(i..end);
            runs += 1;
            let (_, v) = run_history(cfg, keys, &cand, opts, dir, seed);
            if v.map(|v| v.class == class).unwrap_or(false) {
                cur = cand;
                progress = true;
            } else {
                i += chunk;
            }
        }
        if chunk == 1 && !progress {
            break;
        }
        chunk = if progress { chunk } else { chunk / 2 };
        if chunk == 0 {
            break;
        }
    }
    // cut everything after the failing step
    let (_, v) = run_history(cfg, keys, &cur, opts, dir, seed);
    if let Some(v) = v {
        cur.truncate(v.step + 1);
    }
    cur
}
