//! Reference model: a small deterministic sequential MVCC map, independent of the code
//! under test. Every behavioural monitor compares the real store with this.

use std::collections::BTreeMap;

#[derive(Clone, Copy, PartialEq, Eq, Debug, Hash, PartialOrd, Ord)]
pub enum Kind {
    Set,
    Delete,     // hard delete: erases itself and everything older from history
    SoftDelete, // tombstone that stays in history
    Replace,    // set that erases everything older from history
}

impl Kind {
    pub fn is_tombstone(self) -> bool {
        matches!(self, Kind::Delete | Kind::SoftDelete)
    }
    pub fn name(self) -> &'static str {
        match self {
            Kind::Set => "set",
            Kind::Delete => "del",
            Kind::SoftDelete => "sdel",
            Kind::Replace => "repl",
        }
    }
}

#[derive(Clone, Debug, PartialEq, Eq)]
pub struct Version {
    pub seq: u64,
    pub kind: Kind,
    pub value: Vec<u8>,
    pub ts: u64,
    pub txn: u64,
}

#[derive(Clone, Debug)]
pub struct WriteOp {
    pub kind: Kind,
    pub key: Vec<u8>,
    pub value: Vec<u8>,
    /// explicit timestamp (None = commit time)
    pub ts: Option<u64>,
}

#[derive(Clone, Debug)]
pub struct CommitRec {
    pub txn: u64,
    pub first_seq: u64,
    pub last_seq: u64,
    pub ops: Vec<(Kind, Vec<u8>, Vec<u8>, u64)>,
}

#[derive(Clone, Debug, Default)]
pub struct Model {
    /// key -> versions in ascending seq order
    pub keys: BTreeMap<Vec<u8>, Vec<Version>>,
    pub commits: Vec<CommitRec>,
}

#[derive(Clone, Debug, PartialEq, Eq)]
pub struct HistEntry {
    pub key: Vec<u8>,
    pub seq: u64,
    pub ts: u64,
    pub kind: Kind,
    pub value: Vec<u8>,
}

#[derive(Clone, Debug, Default)]
pub struct HistOpts {
    pub include_tombstones: bool,
    pub ts_range: Option<(u64, u64)>,
    pub limit: Option<usize>,
}

impl Model {
    pub fn new() -> Self {
        Self::default()
    }

    /// Append a commit whose entries got consecutive sequence numbers starting at first_seq.
    pub fn apply(&mut self, txn: u64, first_seq: u64, ops: &[(Kind, Vec<u8>, Vec<u8>, u64)]) {
        let mut seq = first_seq;
        for (kind, key, value, ts) in ops {
            self.keys.entry(key.clone()).or_default().push(Version {
                seq,
                kind: *kind,
                value: value.clone(),
                ts: *ts,
                txn,
            });
            seq += 1;
        }
        self.commits.push(CommitRec {
            txn,
            first_seq,
            last_seq: seq.saturating_sub(1).max(first_seq),
            ops: ops.to_vec(),
        });
    }

    pub fn last_seq(&self) -> u64 {
        self.commits.last().map(|c| c.last_seq).unwrap_or(0)
    }

    /// Drop everything with seq > s (used for restore-to-checkpoint).
    pub fn rewind(&mut self, s: u64) {
        for v in self.keys.values_mut() {
            v.retain(|x| x.seq <= s);
        }
        self.keys.retain(|_, v| !v.is_empty());
        self.commits.retain(|c| c.first_seq <= s);
    }

    /// Model state after the first n commits only.
    pub fn prefix(&self, n: usize) -> Model {
        let mut m = Model::new();
        for c in self.commits.iter().take(n) {
            m.apply(c.txn, c.first_seq, &c.ops);
        }
        m
    }

    pub fn newest(&self, key: &[u8], s: u64) -> Option<&Version> {
        self.keys.get(key).and_then(|vs| vs.iter().rev().find(|v| v.seq <= s))
    }

    pub fn get(&self, key: &[u8], s: u64) -> Option<&[u8]> {
        match self.newest(key, s) {
            Some(v) if !v.kind.is_tombstone() => Some(&v.value),
            _ => None,
        }
    }

    /// Live keys in [lo, hi) at horizon s, ascending. None bound = unbounded.
    pub fn scan(&self, lo: Option<&[u8]>, hi: Option<&[u8]>, s: u64) -> Vec<(Vec<u8>, Vec<u8>)> {
        let mut out = Vec::new();
        if let (Some(l), Some(h)) = (lo, hi) {
            if l >= h {
                return out;
            }
        }
        for (k, _) in self.keys.iter() {
            if let Some(l) = lo {
                if k.as_slice() < l {
                    continue;
                }
            }
            if let Some(h) = hi {
                if k.as_slice() >= h {
                    break;
                }
            }
            if let Some(v) = self.get(k, s) {
                out.push((k.clone(), v.to_vec()));
            }
        }
        out
    }

    pub fn all_keys(&self) -> Vec<Vec<u8>> {
        self.keys.keys().cloned().collect()
    }

    /// Retained versions of key at horizon s, newest (highest seq) first: versions with
    /// seq <= s after cutting at the newest barrier (hard delete erases itself and all
    /// older; replace erases all older and stays).
    pub fn retained(&self, key: &[u8], s: u64) -> Vec<&Version> {
        let mut out = Vec::new();
        if let Some(vs) = self.keys.get(key) {
            for v in vs.iter().rev() {
                if v.seq > s {
                    continue;
                }
                match v.kind {
                    Kind::Delete => break,
                    Kind::Replace => {
                        out.push(v);
                        break;
                    }
                    _ => out.push(v),
                }
            }
        }
        out
    }

    /// Acceptable answers of get_at(key, t) at horizon s. `mandatory(v)` says whether a
    /// retained version must still exist (false = outside a finite retention window, may
    /// have been discarded). Equal timestamps: any tied version is accepted.
    pub fn get_at_acceptable(
        &self,
        key: &[u8],
        t: u64,
        s: u64,
        mandatory: &dyn Fn(&Version, bool) -> bool,
    ) -> Vec<Option<Vec<u8>>> {
        let ret = self.retained(key, s);
        let cands: Vec<(usize, &&Version)> = ret.iter().enumerate().filter(|(_, v)| v.ts <= t).collect();
        let mut acc: Vec<Option<Vec<u8>>> = Vec::new();
        let ans = |v: &Version| -> Option<Vec<u8>> {
            if v.kind.is_tombstone() {
                None
            } else {
                Some(v.value.clone())
            }
        };
        // candidate v is an acceptable answer iff no mandatory candidate has a strictly
        // greater timestamp.
        for (i, v) in &cands {
            let blocked = cands.iter().any(|(j, w)| w.ts > v.ts && mandatory(w, *j == 0));
            let _ = i;
            if !blocked {
                let a = ans(v);
                if !acc.contains(&a) {
                    acc.push(a);
                }
            }
        }
        // None acceptable if no mandatory candidate exists at all
        if !cands.iter().any(|(j, w)| mandatory(w, *j == 0)) && !acc.contains(&None) {
            acc.push(None);
        }
        acc
    }

    /// History listing (forward traversal order): keys ascending, per key retained versions
    /// newest first, filtered; truncated to limit.
    pub fn history(&self, lo: &[u8], hi: &[u8], opts: &HistOpts, s: u64) -> Vec<HistEntry> {
        let mut out = Vec::new();
        if lo >= hi {
            return out;
        }
        for (k, _) in self.keys.range(lo.to_vec()..hi.to_vec()) {
            for v in self.retained(k, s) {
                if v.kind == Kind::SoftDelete && !opts.include_tombstones {
                    continue;
                }
                if let Some((a, b)) = opts.ts_range {
                    if v.ts < a || v.ts > b {
                        continue;
                    }
                }
                out.push(HistEntry {
                    key: k.clone(),
                    seq: v.seq,
                    ts: v.ts,
                    kind: v.kind,
                    value: v.value.clone(),
                });
            }
        }
        if let Some(l) = opts.limit {
            out.truncate(l);
        }
        out
    }

    /// Backward traversal order: keys descending, per key oldest first; limit applies in
    /// traversal order.
    pub fn history_backward(&self, lo: &[u8], hi: &[u8], opts: &HistOpts, s: u64) -> Vec<HistEntry> {
        let o2 = HistOpts { limit: None, ..opts.clone() };
        let mut all = self.history(lo, hi, &o2, s);
        all.reverse();
        if let Some(l) = opts.limit {
            all.truncate(l);
        }
        all
    }
}

/// Self-identifying value: 8-byte txn id, 4-byte op index, then PRG bytes up to `len`
/// (len < 12 truncates the tag; callers that need identification use len >= 12).
pub fn mk_value(seed: u64, txn: u64, op: u32, len: usize) -> Vec<u8> {
    let mut v = Vec::with_capacity(len.max(12));
    v.extend_from_slice(&txn.to_be_bytes());
    v.extend_from_slice(&op.to_be_bytes());
    if len > 12 {
        v.extend_from_slice(&crate::rng::prg_bytes(seed, txn, op as u64, len - 12));
    }
    v.truncate(len);
    v
}

pub fn hex(b: &[u8]) -> String {
    let mut s = String::with_capacity(b.len() * 2);
    for (i, x) in b.iter().enumerate() {
        if i >= 24 {
            s.push_str(&format!("..(+{})", b.len() - 24));
            break;
        }
        if x.is_ascii_graphic() {
            s.push(*x as char);
        } else {
            s.push_str(&format!("\\x{:02x}", x));
        }
    }
    s
}
