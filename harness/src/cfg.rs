//! Option sets for the store under test, generated from the seed and serialisable
//! into replay files.

use crate::rng::Rng;
use serde_json::{json, Value as J};
use std::path::Path;
use std::sync::Arc;
use surrealkv::{CompressionType, Options, Tree, TreeBuilder, VLogChecksumLevel, WalRecoveryMode};

#[derive(Clone, Debug)]
pub struct Cfg {
    pub level_count: u8,
    pub max_memtable_size: usize,
    pub block_size: usize,
    pub restart: usize,
    pub index_partition_size: usize,
    pub compression: Vec<u8>, // per level: 0 none, 1 snappy
    pub bloom: bool,
    pub cache: u64,
    pub vlog: bool,
    pub vlog_threshold: usize,
    pub vlog_max_file: u64,
    pub vlog_checksum: bool,
    pub versioning: bool,
    pub retention: u64,
    pub index: bool,
    pub l0_max_files: usize,
    pub max_bytes_for_level: u64,
    pub level_multiplier: f64,
    pub flush_on_close: bool,
    pub absolute_consistency: bool,
    pub memtable_stall: usize,
    pub l0_stall: usize,
}

impl Default for Cfg {
    fn default() -> Self {
        Cfg {
            level_count: 3,
            max_memtable_size: 64 * 1024,
            block_size: 256,
            restart: 4,
            index_partition_size: 128,
            compression: vec![],
            bloom: true,
            cache: 1 << 20,
            vlog: false,
            vlog_threshold: 64,
            vlog_max_file: 4096,
            vlog_checksum: false,
            versioning: false,
            retention: 0,
            index: false,
            l0_max_files: 2,
            max_bytes_for_level: 2048,
            level_multiplier: 2.0,
            flush_on_close: true,
            absolute_consistency: false,
            memtable_stall: 64,
            l0_stall: 64,
        }
    }
}

#[derive(Clone, Copy, Debug, PartialEq)]
pub enum VerMode {
    Off,
    Any,
    On,
    OnIndex,
    OnNoIndex,
    /// versioning on or off, never the version index
    OnNoIndexOrOff,
}
#[derive(Clone, Copy, Debug, PartialEq)]
pub enum VlogMode {
    Off,
    Any,
    On,
}

impl Cfg {
    /// Random valid option set. Stall thresholds are generous by default (a single driver
    /// thread in manual mode must never be stalled); C17 sets its own.
    pub fn random(r: &mut Rng, ver: VerMode, vlog: VlogMode) -> Cfg {
        let level_count = r.range(1, 5) as u8;
        let versioning = match ver {
            VerMode::Off => false,
            VerMode::Any | VerMode::OnNoIndexOrOff => r.chance(1, 3),
            _ => true,
        };
        let index = match ver {
            VerMode::OnIndex => true,
            VerMode::OnNoIndex | VerMode::Off | VerMode::OnNoIndexOrOff => false,
            VerMode::On | VerMode::Any => versioning && r.chance(1, 2),
        };
        let vlog_on = versioning
            || match vlog {
                VlogMode::Off => false,
                VlogMode::On => true,
                VlogMode::Any => r.chance(1, 2),
            };
        let mut compression = vec![];
        if r.chance(1, 2) {
            for _ in 0..r.range(1, level_count as u64) {
                compression.push(r.below(2) as u8);
            }
        }
        let l0_max_files = r.range(1, 4) as usize;
        Cfg {
            level_count,
            max_memtable_size: *r.pick(&[8 * 1024, 16 * 1024, 64 * 1024, 256 * 1024]),
            block_size: *r.pick(&[64, 128, 256, 1024, 4096]),
            restart: r.range(1, 16) as usize,
            index_partition_size: *r.pick(&[64, 128, 512, 4096]),
            compression,
            bloom: r.chance(3, 4),
            cache: *r.pick(&[0, 4096, 1 << 20]),
            vlog: vlog_on,
            vlog_threshold: if versioning { 0 } else { *r.pick(&[0, 16, 64]) },
            vlog_max_file: *r.pick(&[256, 1024, 4096]),
            vlog_checksum: r.chance(1, 2),
            versioning,
            retention: 0,
            index,
            l0_max_files,
            max_bytes_for_level: *r.pick(&[512, 2048, 16 * 1024]),
            level_multiplier: *r.pick(&[2.0, 4.0, 10.0]),
            flush_on_close: r.chance(1, 2),
            absolute_consistency: false,
            memtable_stall: 64,
            l0_stall: 64,
        }
    }

    pub fn to_options(&self, path: &Path) -> Options {
        let mut o = Options::new()
            .with_path(path.to_path_buf())
            .with_level_count(self.level_count)
            .with_max_memtable_size(self.max_memtable_size)
            .with_block_size(self.block_size)
            .with_block_restart_interval(self.restart)
            .with_index_partition_size(self.index_partition_size)
            .with_block_cache_capacity(self.cache)
            .with_flush_on_close(self.flush_on_close)
            .with_memtable_stall_threshold(self.memtable_stall)
            .with_l0_stall_threshold(self.l0_stall.max(self.l0_max_files));
        if !self.compression.is_empty() {
            o = o.with_compression_per_level(
                self.compression
                    .iter()
                    .map(|c| if *c == 1 { CompressionType::SnappyCompression } else { CompressionType::None })
                    .collect(),
            );
        }
        if !self.bloom {
            o = o.with_filter_policy(None);
        }
        if self.versioning {
            o = o.with_versioning(true, self.retention).with_versioned_index(self.index);
        } else if self.vlog {
            o = o.with_enable_vlog(true).with_vlog_value_threshold(self.vlog_threshold);
        }
        if self.vlog || self.versioning {
            o = o.with_vlog_max_file_size(self.vlog_max_file).with_vlog_checksum_verification(if self.vlog_checksum {
                VLogChecksumLevel::Full
            } else {
                VLogChecksumLevel::Disabled
            });
        }
        if self.absolute_consistency {
            o = o.with_wal_recovery_mode(WalRecoveryMode::AbsoluteConsistency);
        }
        o.level0_max_files = self.l0_max_files;
        o.max_bytes_for_level = self.max_bytes_for_level;
        o.level_multiplier = self.level_multiplier;
        o
    }

    pub fn open(&self, path: &Path) -> surrealkv::Result<Tree> {
        TreeBuilder::with_options(self.to_options(path)).build()
    }

    pub fn open_with_clock(
        &self,
        path: &Path,
        clock: Arc<dyn surrealkv::verif::LogicalClock>,
    ) -> surrealkv::Result<Tree> {
        TreeBuilder::with_options(self.to_options(path).verif_with_clock(clock)).build()
    }

    pub fn to_json(&self) -> J {
        json!({
            "level_count": self.level_count, "max_memtable_size": self.max_memtable_size,
            "block_size": self.block_size, "restart": self.restart,
            "index_partition_size": self.index_partition_size, "compression": self.compression,
            "bloom": self.bloom, "cache": self.cache, "vlog": self.vlog,
            "vlog_threshold": self.vlog_threshold, "vlog_max_file": self.vlog_max_file,
            "vlog_checksum": self.vlog_checksum, "versioning": self.versioning,
            "retention": self.retention, "index": self.index, "l0_max_files": self.l0_max_files,
            "max_bytes_for_level": self.max_bytes_for_level, "level_multiplier": self.level_multiplier,
            "flush_on_close": self.flush_on_close, "absolute_consistency": self.absolute_consistency,
            "memtable_stall": self.memtable_stall, "l0_stall": self.l0_stall,
        })
    }

    pub fn from_json(j: &J) -> Cfg {
        let u = |k: &str| j[k].as_u64().unwrap_or(0);
        let b = |k: &str| j[k].as_bool().unwrap_or(false);
        Cfg {
            level_count: u("level_count") as u8,
            max_memtable_size: u("max_memtable_size") as usize,
            block_size: u("block_size") as usize,
            restart: u("restart") as usize,
            index_partition_size: u("index_partition_size") as usize,
            compression: j["compression"].as_array().map(|a| a.iter().map(|x| x.as_u64().unwrap_or(0) as u8).collect()).unwrap_or_default(),
            bloom: b("bloom"),
            cache: u("cache"),
            vlog: b("vlog"),
            vlog_threshold: u("vlog_threshold") as usize,
            vlog_max_file: u("vlog_max_file"),
            vlog_checksum: b("vlog_checksum"),
            versioning: b("versioning"),
            retention: u("retention"),
            index: b("index"),
            l0_max_files: u("l0_max_files") as usize,
            max_bytes_for_level: u("max_bytes_for_level"),
            level_multiplier: j["level_multiplier"].as_f64().unwrap_or(2.0),
            flush_on_close: b("flush_on_close"),
            absolute_consistency: b("absolute_consistency"),
            memtable_stall: u("memtable_stall") as usize,
            l0_stall: u("l0_stall") as usize,
        }
    }

    /// Short signature of the option dimensions that matter for coverage accounting.
    pub fn sig(&self) -> String {
        format!(
            "L{}b{}r{}p{}c{}f{}$${}v{}t{}V{}I{}",
            self.level_count,
            self.block_size,
            self.restart,
            self.index_partition_size,
            self.compression.len(),
            self.bloom as u8,
            self.cache,
            self.vlog as u8,
            self.vlog_threshold,
            self.versioning as u8,
            self.index as u8
        )
    }
}
