//! Evidence files, violation reporting, known findings, tiers.

use serde_json::{json, Map, Value as J};
use std::path::{Path, PathBuf};
use std::time::Instant;

pub const VERIF_DIR: &str = "/verif";

/// Where evidence and replay files go: /verif, unless VERIF_OUT_DIR redirects them (used only
/// when a scratch copy of the harness is run against a scratch copy of the repository).
fn out_root() -> PathBuf {
    std::env::var_os("VERIF_OUT_DIR").map(PathBuf::from).unwrap_or_else(|| PathBuf::from(VERIF_DIR))
}

#[derive(Clone, Copy, PartialEq, Eq, Debug)]
pub enum Tier {
    Quick,
    Thorough,
}
impl Tier {
    pub fn name(self) -> &'static str {
        match self {
            Tier::Quick => "quick",
            Tier::Thorough => "thorough",
        }
    }
    pub fn pick<T>(self, q: T, t: T) -> T {
        match self {
            Tier::Quick => q,
            Tier::Thorough => t,
        }
    }
}

pub struct Run {
    pub prop: String,
    pub tier: Tier,
    pub seed: u64,
    pub level: &'static str,
    pub start: Instant,
    pub violations: Vec<String>, // replay paths
    pub known_printed: Vec<String>,
    pub coverage: Map<String, J>,
    pub assumptions: Vec<String>,
    pub inconclusive: Vec<String>,
    replay_n: usize,
}

impl Run {
    pub fn new(prop: &str, tier: Tier, seed: u64, level: &'static str) -> Run {
        Run {
            prop: prop.to_string(),
            tier,
            seed,
            level,
            start: Instant::now(),
            violations: vec![],
            known_printed: vec![],
            coverage: Map::new(),
            assumptions: vec![],
            inconclusive: vec![],
            replay_n: 0,
        }
    }

    pub fn cov(&mut self, k: &str, v: J) {
        self.coverage.insert(k.to_string(), v);
    }

    /// Record a violation: writes the replay file and prints the VIOLATION line.
    pub fn violation(&mut self, what: &str, replay: J) -> PathBuf {
        self.replay_n += 1;
        let dir = out_root().join("replays").join(&self.prop);
        let _ = std::fs::create_dir_all(&dir);
        let p = dir.join(format!("{}-{}-{}.json", self.tier.name(), self.seed, self.replay_n));
        let body = json!({"property": self.prop, "tier": self.tier.name(), "seed": self.seed, "what": what, "replay": replay});
        let _ = std::fs::write(&p, serde_json::to_vec_pretty(&body).unwrap_or_default());
        println!("VIOLATION property={} replay={}", self.prop, p.display());
        println!("  what: {}", what);
        self.violations.push(p.display().to_string());
        p
    }

    pub fn violation_with(&mut self, what: &str, replay: J) -> PathBuf {
        self.violation(what, replay)
    }

    pub fn known_finding(&mut self, id: &str, what: &str) {
        println!("KNOWN-FINDING: property={} {} [{}]", self.prop, what, id);
        self.known_printed.push(id.to_string());
    }

    pub fn inconclusive(&mut self, why: &str) {
        println!("INCONCLUSIVE property={} {}", self.prop, why);
        self.inconclusive.push(why.to_string());
    }

    /// Write the evidence file; returns the process exit code.
    pub fn finish(mut self, evaluations: u64, distinct_nontrivial: u64, floor: u64, rule: &str, samples: Vec<J>) -> i32 {
        self.finish_inner(evaluations, distinct_nontrivial, floor, rule, samples)
    }

    /// Ends the run at once (evidence written, exit code as for `finish`): used when a part of
    /// the store under test hangs - threads parked or spinning inside it cannot be taken back,
    /// so nothing run after that point in this process would be trustworthy.
    pub fn abort_now(&mut self, evaluations: u64, rule: &str) -> ! {
        let code = self.finish_inner(evaluations, 0, 0, rule, vec![]);
        // no violation recorded (the hang was inconclusive for this property): the monitor has
        // decided nothing
        std::process::exit(if code == 0 { 2 } else { code })
    }

    fn finish_inner(&mut self, evaluations: u64, distinct_nontrivial: u64, floor: u64, rule: &str, samples: Vec<J>) -> i32 {
        let wall = self.start.elapsed().as_secs_f64();
        self.coverage.insert("evaluations".into(), json!(evaluations));
        self.coverage.insert("distinct_nontrivial".into(), json!(distinct_nontrivial));
        self.coverage.insert("rule".into(), json!(rule));
        self.coverage.insert("samples".into(), J::Array(samples));
        self.coverage.insert("floor_distinct_nontrivial".into(), json!(floor));
        self.coverage.insert("inconclusive".into(), json!(self.inconclusive.len()));
        self.coverage.insert("inconclusive_reasons".into(), json!(self.inconclusive));
        self.coverage.insert("known_findings_reported".into(), json!(self.known_printed));
        self.coverage.insert("violation_replays".into(), json!(self.violations));
        if let Ok(legs) = std::env::var("VERIF_SANITIZER_LEGS") {
            if let Ok(j) = serde_json::from_str::<J>(&legs) {
                self.coverage.insert("sanitizer_legs".into(), j);
            }
        }
        let ev = json!({
            "property_id": self.prop,
            "tier": self.tier.name(),
            "seed": self.seed,
            "level": self.level,
            "coverage": J::Object(self.coverage.clone()),
            "assumptions": self.assumptions,
            "wall_s": wall,
            "violations": self.violations.len(),
        });
        let dir = out_root().join("evidence");
        let _ = std::fs::create_dir_all(&dir);
        let p = dir.join(format!("{}.json", self.prop));
        let _ = std::fs::write(&p, serde_json::to_vec_pretty(&ev).unwrap_or_default());
        println!(
            "{} tier={} seed={} evaluations={} distinct_nontrivial={} violations={} inconclusive={} wall={:.1}s",
            self.prop,
            self.tier.name(),
            self.seed,
            evaluations,
            distinct_nontrivial,
            self.violations.len(),
            self.inconclusive.len(),
            wall
        );
        if !self.violations.is_empty() {
            return 1;
        }
        if distinct_nontrivial < floor {
            println!(
                "INSUFFICIENT property={} observed {} distinct non-trivial cases, floor is {} - the monitor has decided nothing",
                self.prop, distinct_nontrivial, floor
            );
            return 2;
        }
        0
    }
}

/// Known findings: committed file, read-only at run time.
#[derive(Clone, Debug)]
pub struct Finding {
    pub property: String,
    pub id: String,
    pub status: String,
    pub what: String,
}

pub fn load_findings() -> Vec<Finding> {
    let p = Path::new(VERIF_DIR).join("known_findings.json");
    let Ok(b) = std::fs::read(&p) else { return vec![] };
    let Ok(j) = serde_json::from_slice::<J>(&b) else { return vec![] };
    let mut out = vec![];
    if let Some(a) = j["findings"].as_array() {
        for f in a {
            out.push(Finding {
                property: f["property"].as_str().unwrap_or("").to_string(),
                id: f["id"].as_str().unwrap_or("").to_string(),
                status: f["status"].as_str().unwrap_or("").to_string(),
                what: f["what_fails"].as_str().unwrap_or("").to_string(),
            });
        }
    }
    out
}

pub fn finding_open(fs: &[Finding], id: &str) -> bool {
    fs.iter().any(|f| f.id == id && f.status == "open")
}
