//! C13: sorted tables return exactly what was written.
//!
//! Drives the real `TableWriter` / `Table` / `TableIterator` through the H5 hooks: generated
//! entry sets are written into a table file under a generated format option set, then the
//! whole read surface is compared with the entry list itself (the sequential model of a table
//! is its sorted entry vector): full forward/backward iteration, seek to every stored and
//! every neighbouring absent target, point lookups for every (key, snapshot) of interest,
//! bounded cursors running generated programs, and the key-range shortcuts.

use crate::campaign::par_for;
use crate::cfg::Cfg;
use crate::evidence::Run;
use crate::model::hex;
use crate::rng::{prg_bytes, Rng};
use crate::Args;
use serde_json::{json, Value as J};
use std::collections::{BTreeMap, BTreeSet};
use std::ops::Bound;
use std::path::Path;
use std::sync::atomic::{AtomicU64, Ordering};
use std::sync::Mutex;
use surrealkv::verif::{verif_table_write, VerifCursorOp, VerifEntry, VerifTableHandle};

#[derive(Clone, Debug)]
pub struct Case {
    pub seed: u64,
    pub cfg: Cfg,
    pub level: u8,
    pub shape: u8,
}

fn fmt_cfg(c: &Cfg) -> Cfg {
    c.clone()
}

pub fn gen_case(seed: u64) -> Case {
    let mut r = Rng::new(seed);
    let mut cfg = Cfg::default();
    cfg.block_size = *r.pick(&[64, 128, 256, 1024, 4096]);
    cfg.restart = r.range(1, 16) as usize;
    cfg.index_partition_size = *r.pick(&[64, 128, 512, 4096]);
    cfg.bloom = r.chance(3, 4);
    cfg.cache = *r.pick(&[0, 4096, 1 << 20]);
    cfg.level_count = 3;
    cfg.compression = match r.below(3) {
        0 => vec![],
        1 => vec![1, 1, 1],
        _ => vec![0, 1, 0],
    };
    Case { seed, cfg: fmt_cfg(&cfg), level: r.below(3) as u8, shape: r.below(6) as u8 }
}

/// Entry set in internal order (user key ascending, sequence number descending).
pub fn gen_entries(c: &Case) -> Vec<VerifEntry> {
    let mut r = Rng::new(c.seed ^ 0xE17);
    let mut keys: BTreeSet<Vec<u8>> = BTreeSet::new();
    let nkeys = match c.shape {
        0 => r.range(1, 4) as usize,
        1 => r.range(5, 40) as usize,
        _ => r.range(20, 200) as usize,
    };
    let long_prefix: Vec<u8> = std::iter::repeat(b'p').take(r.range(20, 90) as usize).collect();
    while keys.len() < nkeys {
        let k: Vec<u8> = match r.below(8) {
            0 => vec![*r.pick(&[b'a', b'm', b'z', 0x01, 0xfe])],
            1 => {
                let mut k = long_prefix.clone();
                k.extend_from_slice(format!("{:03}", r.below(400)).as_bytes());
                k
            }
            2 => {
                // 0xff-terminated keys
                let mut k = format!("k{:02}", r.below(60)).into_bytes();
                for _ in 0..r.range(1, 3) {
                    k.push(0xff);
                }
                k
            }
            3 => {
                // key that is a proper prefix / extension of another
                let mut k = format!("k{:02}", r.below(60)).into_bytes();
                if r.chance(1, 2) {
                    k.push(0x00);
                }
                k
            }
            4 => vec![0xff; r.range(1, 4) as usize],
            5 => prg_bytes(c.seed, 21, r.below(1000), r.range(1, 12) as usize),
            _ => format!("k{:02}", r.below(60)).into_bytes(),
        };
        if !k.is_empty() {
            keys.insert(k);
        }
    }
    let mut out = vec![];
    let mut next_seq_pool: u64 = 1;
    // sequence numbers: unique per table, assigned so that versions of a key interleave with
    // those of other keys
    let mut seqs: Vec<u64> = vec![];
    let mut per_key: Vec<(Vec<u8>, usize)> = vec![];
    for k in keys {
        let versions = match (c.shape, r.below(10)) {
            (3, _) => r.range(1, 3) as usize,
            (4, 0..=2) => r.range(30, 120) as usize, // one key spanning blocks / partitions
            (_, 0) => r.range(8, 40) as usize,
            (_, 1..=3) => r.range(2, 6) as usize,
            _ => 1,
        };
        per_key.push((k, versions));
    }
    let total: usize = per_key.iter().map(|x| x.1).sum();
    for _ in 0..total {
        next_seq_pool += r.range(1, 3);
        seqs.push(next_seq_pool);
    }
    // sequence number 0 is a legal entry of a table (and the smallest possible seek key of its
    // user key): in half of the tables the lowest number is 0, in some a few keys end on 0
    if r.chance(1, 2) {
        if let Some(m) = seqs.iter_mut().min() {
            *m = 0;
        }
    }
    // shuffle the sequence numbers over the entries
    for i in (1..seqs.len()).rev() {
        let j = r.usize(i + 1);
        seqs.swap(i, j);
    }
    let mut si = 0;
    for (k, versions) in per_key {
        let mut mine: Vec<u64> = seqs[si..si + versions].to_vec();
        si += versions;
        mine.sort_unstable_by(|a, b| b.cmp(a));
        for s in mine {
            let kind = *r.pick(&[2u8, 2, 2, 2, 0, 1, 6]); // Set, Delete, SoftDelete, Replace
            let value = match (kind, r.below(6)) {
                (0, _) | (1, _) => vec![],
                (_, 0) => vec![],
                (_, 1) => prg_bytes(c.seed, 22, s, 25), // pointer-sized
                (_, 2) => prg_bytes(c.seed, 22, s, r.range(200, 3000) as usize),
                _ => prg_bytes(c.seed, 22, s, r.range(1, 40) as usize),
            };
            out.push(VerifEntry { user_key: k.clone(), seq: s, kind, ts: r.below(1 << 40), value });
        }
    }
    out
}

fn in_range(k: &[u8], lo: &Bound<Vec<u8>>, hi: &Bound<Vec<u8>>) -> bool {
    (match lo {
        Bound::Unbounded => true,
        Bound::Included(l) => k >= l.as_slice(),
        Bound::Excluded(l) => k > l.as_slice(),
    }) && (match hi {
        Bound::Unbounded => true,
        Bound::Included(h) => k <= h.as_slice(),
        Bound::Excluded(h) => k < h.as_slice(),
    })
}

/// (key asc, seq desc) comparison of an entry with a seek target
fn ge_target(e: &VerifEntry, k: &[u8], seq: u64) -> bool {
    match e.user_key.as_slice().cmp(k) {
        std::cmp::Ordering::Greater => true,
        std::cmp::Ordering::Less => false,
        std::cmp::Ordering::Equal => e.seq <= seq,
    }
}

pub struct Problem {
    pub class: &'static str,
    pub what: String,
}

fn show(e: &Option<VerifEntry>) -> String {
    match e {
        None => "none".into(),
        Some(e) => format!("({}, seq {}, kind {}, {} value bytes)", hex(&e.user_key), e.seq, e.kind, e.value.len()),
    }
}

#[derive(Default)]
pub struct Counters {
    pub evaluations: AtomicU64,
    pub gets: AtomicU64,
    pub seeks: AtomicU64,
    pub cursor_steps: AtomicU64,
    pub relations: AtomicU64,
    pub sigs: Mutex<BTreeSet<String>>,
    pub entries: AtomicU64,
}

fn absent_neighbours(keys: &[Vec<u8>]) -> Vec<Vec<u8>> {
    let mut v: BTreeSet<Vec<u8>> = BTreeSet::new();
    v.insert(vec![0x00]);
    v.insert(vec![0xff, 0xff, 0xff, 0xff, 0xff]);
    for k in keys {
        let mut a = k.clone();
        a.push(0x00);
        v.insert(a);
        let mut b = k.clone();
        b.push(0xff);
        v.insert(b);
        if k.len() > 1 {
            v.insert(k[..k.len() - 1].to_vec());
        }
        let mut c = k.clone();
        if let Some(l) = c.last_mut() {
            if *l > 0 {
                *l -= 1;
                v.insert(c.clone());
            }
        }
        let mut d = k.clone();
        if let Some(l) = d.last_mut() {
            if *l < 0xff {
                *l += 1;
                v.insert(d);
            }
        }
    }
    let present: BTreeSet<&Vec<u8>> = keys.iter().collect();
    v.into_iter().filter(|k| !k.is_empty() && !present.contains(k)).collect()
}

pub fn run_case(c: &Case, root: &Path, cnt: &Counters, programs: usize) -> Vec<Problem> {
    let mut ps = vec![];
    let dir = root.join(format!("c13-{:x}", c.seed));
    let _ = std::fs::remove_dir_all(&dir);
    let _ = std::fs::create_dir_all(&dir);
    let opts = c.cfg.to_options(&dir);
    let entries = gen_entries(c);
    let path = dir.join("t.sst");
    let mut fail = |class: &'static str, what: String| ps.push(Problem { class, what });
    let res = std::panic::catch_unwind(std::panic::AssertUnwindSafe(|| verif_table_write(&path, 7, &opts, c.level, &entries)));
    match res {
        Err(_) => {
            fail("panic", format!("writing {} entries panicked: {}", entries.len(), crate::panics::take_last()));
            let _ = std::fs::remove_dir_all(&dir);
            return ps;
        }
        Ok(Err(e)) => {
            fail("write_failed", format!("writing {} entries failed: {e}", entries.len()));
            let _ = std::fs::remove_dir_all(&dir);
            return ps;
        }
        Ok(Ok(_)) => {}
    }
    let t = match std::panic::catch_unwind(std::panic::AssertUnwindSafe(|| VerifTableHandle::open(&path, 7, &opts))) {
        Ok(Ok(t)) => t,
        Ok(Err(e)) => {
            fail("open_failed", format!("opening the table just written failed: {e}"));
            let _ = std::fs::remove_dir_all(&dir);
            return ps;
        }
        Err(_) => {
            fail("panic", format!("opening the table panicked: {}", crate::panics::take_last()));
            let _ = std::fs::remove_dir_all(&dir);
            return ps;
        }
    };
    cnt.entries.fetch_add(entries.len() as u64, Ordering::Relaxed);
    let file_size = std::fs::metadata(&path).map(|m| m.len()).unwrap_or(0);
    cnt.sigs.lock().unwrap().insert(format!(
        "b{}r{}p{}c{:?}f{}L{}s{}n{}",
        c.cfg.block_size,
        c.cfg.restart,
        c.cfg.index_partition_size,
        c.cfg.compression,
        c.cfg.bloom as u8,
        c.level,
        c.shape,
        (file_size / c.cfg.block_size.max(1) as u64).min(64)
    ));
    let unb: Bound<Vec<u8>> = Bound::Unbounded;
    let n = entries.len();
    let ctx = format!("{} entries, options {}", n, c.cfg.sig());
    macro_rules! guarded {
        ($e:expr, $what:expr) => {
            match std::panic::catch_unwind(std::panic::AssertUnwindSafe(|| $e)) {
                Ok(Ok(v)) => Some(v),
                Ok(Err(e)) => {
                    ps.push(Problem { class: "error", what: format!("{ctx}: {} failed: {e}", $what) });
                    None
                }
                Err(_) => {
                    ps.push(Problem { class: "panic", what: format!("{ctx}: {} panicked: {}", $what, crate::panics::take_last()) });
                    None
                }
            }
        };
    }
    // 1. complete forward and backward iteration
    {
        let mut ops = vec![VerifCursorOp::SeekFirst];
        ops.extend(std::iter::repeat(VerifCursorOp::Next).take(n));
        cnt.evaluations.fetch_add(1, Ordering::Relaxed);
        if let Some(got) = guarded!(t.run_cursor(&unb, &unb, &ops), "forward iteration") {
            for i in 0..=n {
                let exp = entries.get(i).cloned();
                if got[i] != exp {
                    ps.push(Problem { class: "forward_iteration", what: format!("{ctx}: forward iteration step {}: cursor at {}, entry list says {}", i, show(&got[i]), show(&exp)) });
                    break;
                }
            }
        }
        let mut ops = vec![VerifCursorOp::SeekLast];
        ops.extend(std::iter::repeat(VerifCursorOp::Prev).take(n));
        cnt.evaluations.fetch_add(1, Ordering::Relaxed);
        if let Some(got) = guarded!(t.run_cursor(&unb, &unb, &ops), "backward iteration") {
            for i in 0..=n {
                let exp = if i < n { entries.get(n - 1 - i).cloned() } else { None };
                if got[i] != exp {
                    ps.push(Problem { class: "backward_iteration", what: format!("{ctx}: backward iteration step {}: cursor at {}, entry list says {}", i, show(&got[i]), show(&exp)) });
                    break;
                }
            }
        }
    }
    let keys: Vec<Vec<u8>> = {
        let mut k: Vec<Vec<u8>> = entries.iter().map(|e| e.user_key.clone()).collect();
        k.dedup();
        k
    };
    let absent = absent_neighbours(&keys);
    let max_seq = entries.iter().map(|e| e.seq).max().unwrap_or(0);
    // 2. point lookups
    {
        let mut by_key: BTreeMap<&[u8], Vec<&VerifEntry>> = BTreeMap::new();
        for e in &entries {
            by_key.entry(e.user_key.as_slice()).or_default().push(e);
        }
        let mut r = Rng::new(c.seed ^ 0x6e7);
        for (k, vs) in &by_key {
            let mut snaps: BTreeSet<u64> = [0u64, 1, max_seq, max_seq + 1, u64::MAX >> 8].into_iter().collect();
            let sample_all = vs.len() <= 12;
            for (i, v) in vs.iter().enumerate() {
                if sample_all || i == 0 || i + 1 == vs.len() || r.chance(1, 6) {
                    snaps.insert(v.seq);
                    snaps.insert(v.seq + 1);
                    snaps.insert(v.seq.saturating_sub(1));
                }
            }
            for s in snaps {
                let exp = vs.iter().find(|e| e.seq <= s).map(|e| (*e).clone());
                cnt.gets.fetch_add(1, Ordering::Relaxed);
                cnt.evaluations.fetch_add(1, Ordering::Relaxed);
                if let Some(got) = guarded!(t.get(k, s), format!("get({}, {})", hex(k), s)) {
                    if got != exp {
                        ps.push(Problem { class: "point_lookup", what: format!("{ctx}: get({}, snapshot {}) = {}, the entry list says {} ({} versions of the key: seqs {:?})", hex(k), s, show(&got), show(&exp), vs.len(), vs.iter().map(|e| e.seq).take(8).collect::<Vec<_>>()) });
                    }
                }
                if exp.is_some() && !t.is_key_in_key_range(k, s) {
                    ps.push(Problem { class: "shortcut_hides_entry", what: format!("{ctx}: is_key_in_key_range({}, {}) is false although the table holds {}", hex(k), s, show(&exp)) });
                }
                if ps.len() > 8 {
                    break;
                }
            }
        }
        for k in &absent {
            for s in [0, max_seq, u64::MAX >> 8] {
                cnt.gets.fetch_add(1, Ordering::Relaxed);
                cnt.evaluations.fetch_add(1, Ordering::Relaxed);
                if let Some(got) = guarded!(t.get(k, s), format!("get({}, {})", hex(k), s)) {
                    if got.is_some() {
                        ps.push(Problem { class: "point_lookup", what: format!("{ctx}: get({}, snapshot {}) for an absent key = {}", hex(k), s, show(&got)) });
                    }
                }
            }
        }
    }
    // 3. seek to every stored and neighbouring target, then one step each way
    {
        let mut targets: Vec<(Vec<u8>, u64)> = vec![];
        let mut r = Rng::new(c.seed ^ 0x5ee);
        for (i, e) in entries.iter().enumerate() {
            if n <= 300 || r.chance(300, n as u64) || i == 0 || i + 1 == n {
                targets.push((e.user_key.clone(), e.seq));
                targets.push((e.user_key.clone(), e.seq + 1));
                targets.push((e.user_key.clone(), e.seq.saturating_sub(1)));
            }
        }
        for k in &keys {
            targets.push((k.clone(), u64::MAX >> 8));
            targets.push((k.clone(), 0));
        }
        for k in &absent {
            targets.push((k.clone(), u64::MAX >> 8));
            targets.push((k.clone(), 0));
        }
        for (k, s) in targets {
            let idx = entries.iter().position(|e| ge_target(e, &k, s));
            for follow in [VerifCursorOp::Next, VerifCursorOp::Prev] {
                let ops = vec![VerifCursorOp::Seek(k.clone(), s), follow.clone()];
                cnt.seeks.fetch_add(1, Ordering::Relaxed);
                cnt.evaluations.fetch_add(1, Ordering::Relaxed);
                let Some(got) = guarded!(t.run_cursor(&unb, &unb, &ops), format!("seek({}, {})", hex(&k), s)) else { continue };
                let exp0 = idx.map(|i| entries[i].clone());
                if got[0] != exp0 {
                    ps.push(Problem { class: "seek", what: format!("{ctx}: seek({}, seq {}) stands on {}, the entry list says {}", hex(&k), s, show(&got[0]), show(&exp0)) });
                    break;
                }
                if let Some(i) = idx {
                    let exp1 = match follow {
                        VerifCursorOp::Next => entries.get(i + 1).cloned(),
                        _ => {
                            if i == 0 {
                                None
                            } else {
                                entries.get(i - 1).cloned()
                            }
                        }
                    };
                    if got[1] != exp1 {
                        ps.push(Problem { class: "seek_then_step", what: format!("{ctx}: seek({}, seq {}) then {:?} stands on {}, the entry list says {}", hex(&k), s, follow, show(&got[1]), show(&exp1)) });
                        break;
                    }
                }
            }
            if ps.len() > 8 {
                break;
            }
        }
    }
    // 4. bounded cursors running generated programs; 5. range shortcuts
    {
        let mut r = Rng::new(c.seed ^ 0xb0d);
        let mut pool: Vec<Vec<u8>> = keys.clone();
        pool.extend(absent.iter().cloned());
        pool.sort();
        for _ in 0..programs {
            let mk = |r: &mut Rng, pool: &Vec<Vec<u8>>| -> Bound<Vec<u8>> {
                match r.below(5) {
                    0 => Bound::Unbounded,
                    1 | 2 => Bound::Included(pool[r.usize(pool.len())].clone()),
                    _ => Bound::Excluded(pool[r.usize(pool.len())].clone()),
                }
            };
            let lo = mk(&mut r, &pool);
            let hi = mk(&mut r, &pool);
            let view: Vec<&VerifEntry> = entries.iter().filter(|e| in_range(&e.user_key, &lo, &hi)).collect();
            // shortcuts must not hide a present entry
            cnt.relations.fetch_add(1, Ordering::Relaxed);
            cnt.evaluations.fetch_add(1, Ordering::Relaxed);
            let rel = std::panic::catch_unwind(std::panic::AssertUnwindSafe(|| t.range_relation(&lo, &hi)));
            match rel {
                Err(_) => ps.push(Problem { class: "panic", what: format!("{ctx}: range relation for [{:?}, {:?}] panicked: {}", lo, hi, crate::panics::take_last()) }),
                Ok((before, after, overlaps)) => {
                    if !view.is_empty() && (before || after || !overlaps) {
                        ps.push(Problem {
                            class: "shortcut_hides_entry",
                            what: format!("{ctx}: bounds [{:?}, {:?}] contain {} entries of the table (first {}), yet is_before_range={}, is_after_range={}, overlaps_with_range={}", lo, hi, view.len(), show(&Some(view[0].clone())), before, after, overlaps),
                        });
                    }
                }
            }
            // inverted / empty bounds are C09's business at the cursor level; here only programs
            // over well-formed bounds
            let well_formed = match (&lo, &hi) {
                (Bound::Included(a), Bound::Included(b)) => a <= b,
                (Bound::Included(a), Bound::Excluded(b)) | (Bound::Excluded(a), Bound::Included(b)) | (Bound::Excluded(a), Bound::Excluded(b)) => a < b,
                _ => true,
            };
            if !well_formed {
                continue;
            }
            let mut ops = vec![];
            let mut pos: Option<usize> = None; // model cursor over `view`
            let mut exp: Vec<Option<VerifEntry>> = vec![];
            for step in 0..r.range(2, 14) {
                let op = if pos.is_none() || step == 0 {
                    match r.below(3) {
                        0 => VerifCursorOp::SeekFirst,
                        1 => VerifCursorOp::SeekLast,
                        _ => {
                            // a seek target inside the bounds
                            let cands: Vec<&Vec<u8>> = pool.iter().filter(|k| in_range(k, &lo, &hi)).collect();
                            if cands.is_empty() {
                                VerifCursorOp::SeekFirst
                            } else {
                                VerifCursorOp::Seek((*r.pick(&cands)).clone(), *r.pick(&[u64::MAX >> 8, max_seq, max_seq / 2, 0]))
                            }
                        }
                    }
                } else {
                    match r.below(8) {
                        0 => VerifCursorOp::SeekFirst,
                        1 => VerifCursorOp::SeekLast,
                        2..=4 => VerifCursorOp::Next,
                        _ => VerifCursorOp::Prev,
                    }
                };
                pos = match &op {
                    VerifCursorOp::SeekFirst => {
                        if view.is_empty() {
                            None
                        } else {
                            Some(0)
                        }
                    }
                    VerifCursorOp::SeekLast => view.len().checked_sub(1),
                    VerifCursorOp::Next => pos.and_then(|p| if p + 1 < view.len() { Some(p + 1) } else { None }),
                    VerifCursorOp::Prev => pos.and_then(|p| p.checked_sub(1)),
                    VerifCursorOp::Seek(k, s) => view.iter().position(|e| ge_target(e, k, *s)),
                };
                exp.push(pos.map(|p| view[p].clone()));
                ops.push(op);
            }
            cnt.cursor_steps.fetch_add(ops.len() as u64, Ordering::Relaxed);
            cnt.evaluations.fetch_add(1, Ordering::Relaxed);
            let Some(got) = guarded!(t.run_cursor(&lo, &hi, &ops), "cursor program") else { continue };
            for i in 0..ops.len() {
                if got[i] != exp[i] {
                    ps.push(Problem {
                        class: "bounded_cursor",
                        what: format!("{ctx}: bounds [{:?}, {:?}] ({} entries inside), program {:?}: after step {} the cursor stands on {}, the entry list says {}", lo, hi, view.len(), &ops[..=i], i, show(&got[i]), show(&exp[i])),
                    });
                    break;
                }
            }
            if ps.len() > 8 {
                break;
            }
        }
    }
    // 6. metadata used to skip tables
    {
        let (smallest, largest, smin, smax, count) = t.meta();
        let e_small = entries.first().map(|e| e.user_key.clone());
        let e_large = entries.last().map(|e| e.user_key.clone());
        let e_min = entries.iter().map(|e| e.seq).min();
        let e_max = entries.iter().map(|e| e.seq).max();
        cnt.evaluations.fetch_add(1, Ordering::Relaxed);
        if smallest != e_small || largest != e_large || smin != e_min || smax != e_max || count != n as u64 {
            ps.push(Problem {
                class: "metadata",
                what: format!("{ctx}: table metadata says keys [{:?}, {:?}], seqs [{:?}, {:?}], {} entries; written: keys [{:?}, {:?}], seqs [{:?}, {:?}], {} entries", smallest.map(|k| hex(&k)), largest.map(|k| hex(&k)), smin, smax, count, e_small.map(|k| hex(&k)), e_large.map(|k| hex(&k)), e_min, e_max, n),
            });
        }
    }
    let _ = std::fs::remove_dir_all(&dir);
    ps
}

pub fn run(a: &Args) -> i32 {
    crate::panics::install();
    let mut run = Run::new("C13", a.tier, a.seed, "exploration");
    crate::scenarios::run_for(&mut run, "C13");
    let root = crate::e1::scratch_root();
    let _ = std::fs::create_dir_all(&root);
    let cnt = Counters::default();
    let cases = a.tier.pick(220, 40000);
    let programs = a.tier.pick(60, 200);
    let found: Mutex<Vec<(J, Problem)>> = Mutex::new(vec![]);
    let samples: Mutex<Vec<J>> = Mutex::new(vec![]);
    par_for(cases, |i| {
        let seed = a.seed.wrapping_mul(0x9E37_79B9_7F4A_7C15).wrapping_add(i as u64 * 6151 + 5);
        let c = gen_case(seed);
        let ps = run_case(&c, &root, &cnt, programs);
        if i % 64 == 0 {
            samples.lock().unwrap().push(json!({"seed": seed, "options": c.cfg.sig(), "level": c.level, "shape": c.shape, "entries": gen_entries(&c).len(), "problems": ps.len()}));
        }
        let mut f = found.lock().unwrap();
        for p in ps {
            f.push((json!({"engine": "c13", "seed": seed}), p));
        }
    });
    let found = found.into_inner().unwrap();
    let mut reported: BTreeMap<&'static str, usize> = BTreeMap::new();
    for (rep, p) in &found {
        let k = reported.entry(p.class).or_insert(0);
        *k += 1;
        if *k <= 3 {
            run.violation(&format!("[{}] {}", p.class, p.what), rep.clone());
        }
    }
    let sigs = cnt.sigs.lock().unwrap().len() as u64;
    run.cov("tables", json!(cases));
    run.cov("entries_written", json!(cnt.entries.load(Ordering::Relaxed)));
    run.cov("point_lookups", json!(cnt.gets.load(Ordering::Relaxed)));
    run.cov("seeks", json!(cnt.seeks.load(Ordering::Relaxed)));
    run.cov("bounded_cursor_steps", json!(cnt.cursor_steps.load(Ordering::Relaxed)));
    run.cov("range_relations", json!(cnt.relations.load(Ordering::Relaxed)));
    run.cov("problem_classes", json!(reported));
    run.assumptions = vec![
        "the real TableWriter / Table / TableIterator are driven through the H5 hooks (thin wrappers); the model of a table is its own sorted entry vector".into(),
        "next/prev are issued only while the cursor is valid; seek targets of bounded cursors lie inside the bounds (out-of-range targets and inverted bounds belong to C09)".into(),
        "values are opaque bytes for the table: 'pointer values' are 25-byte strings".into(),
    ];
    let _ = std::fs::remove_dir_all(&root);
    run.finish(
        cnt.evaluations.load(Ordering::Relaxed),
        sigs,
        a.tier.pick(100, 1000),
        "one evaluation = one comparison of a read operation on a written table with the entry list: complete forward / backward iteration, seek to every stored (key, seq) and its neighbours and to absent keys between / before / after followed by next or prev, point lookup for every key x snapshot of interest and absent keys, a generated cursor program under generated user-key bounds, the key-range shortcuts for those bounds (must not exclude a table holding an entry inside them), table metadata; distinct = distinct (block size, restart interval, partition size, compression, filter, level, entry-set shape, file size in blocks) signatures",
        samples.into_inner().unwrap(),
    )
}

pub fn replay(j: &J) -> i32 {
    crate::panics::install();
    let root = crate::e1::scratch_root();
    let _ = std::fs::create_dir_all(&root);
    let cnt = Counters::default();
    let c = gen_case(j["replay"]["seed"].as_u64().unwrap_or(0));
    let ps = run_case(&c, &root, &cnt, 200);
    let _ = std::fs::remove_dir_all(&root);
    if ps.is_empty() {
        println!("replay did not reproduce a violation");
        0
    } else {
        for p in &ps {
            println!("  reproduced: [{}] {}", p.class, p.what);
        }
        1
    }
}
