//! C15: a failed commit leaves no trace and does not poison later commits.
//!
//! The LD_PRELOAD layer fails the n-th write / fsync / rename / open on a class of files
//! (commit log, table, manifest, value log) with EIO, ENOSPC or a short write, once or from
//! then on. A fault-free run of each workload gives the number of operations per class; the
//! fault positions are then enumerated (every ordinal for small counts, first / last / seeded
//! ordinals otherwise). Each faulty run is observed three ways: by the worker itself (a fresh
//! reader right after every failed commit), at the end of the run (marker keys of failed
//! transactions absent), and after a crash (every image in the tail of the trace opened by
//! the real code: failed transactions absent, transactions acknowledged after the failure
//! present, state = a commit prefix).

use crate::campaign::par_for;
use crate::cfg::{Cfg, VlogMode};
use crate::e2::{self, Job, Workload};
use crate::evidence::Run;
use crate::rng::Rng;
use crate::trace::Op;
use crate::Args;
use serde_json::{json, Value as J};
use std::collections::{BTreeMap, BTreeSet};
use std::sync::atomic::{AtomicU64, Ordering};
use std::sync::Mutex;

fn class_of(path: &str, op: Op) -> Option<String> {
    let fc = if path.ends_with(".wal") {
        "wal"
    } else if path.ends_with(".sst") {
        "sst"
    } else if path.ends_with(".vlog") {
        "vlog"
    } else if path.contains("/manifest/") {
        "manifest"
    } else {
        return None;
    };
    let o = match op {
        Op::Write | Op::Pwrite => "write",
        Op::Fsync => "fsync",
        Op::Rename => "rename",
        _ => return None,
    };
    if o == "rename" && fc != "manifest" {
        return None;
    }
    Some(format!("{}.{}", fc, o))
}

const F1: &str = "C15-failed-commit-record-stays-in-log";

/// Directed fault scenario: one committer, every commit synced, the 4th sync of the commit
/// log fails once with EIO. Returns the witness if the failed transaction is back after a
/// process crash at the end of the run.
fn directed_f1(scratch: &std::path::Path) -> Result<Option<String>, String> {
    let cfg = Cfg { flush_on_close: false, max_memtable_size: 1 << 20, ..Cfg::default() };
    let w = Workload {
        txns: 10,
        committers: 1,
        nkeys: 4,
        max_value: 40,
        immediate_pct: 100,
        sync_every: 0,
        close_at_end: false,
        delete_pct: 0,
        first_txn: 1,
        big_batch_pct: 0,
        manual_flush_every: 1000,
        hook_rotate_pct: 0,
        hook_flush_pct: 0,
        stale_writer_after_failure: true,
    };
    let t = e2::run_worker(scratch, "f1", &cfg, &w, 77, Some("wal.fsync:3:eio:once"), None)?;
    let failed: Vec<u64> = t.failed.iter().map(|f| f.id).collect();
    if failed.is_empty() {
        cleanup(scratch, "f1", &t);
        return Err("the injected sync failure did not make any commit fail".into());
    }
    for f in &t.failed {
        if f.err.contains("[VISIBLE-AFTER-ERROR]") {
            cleanup(scratch, "f1", &t);
            return Ok(Some(format!("commit of transaction {} failed ({}) and a reader begun afterwards sees it", f.id, f.err)));
        }
    }
    let mut pr = Rng::new(1);
    let plans: Vec<_> = e2::plan_images(&t, &mut pr, false, 1).into_iter().filter(|p| p.loss == crate::trace::Loss::Process).collect();
    let last = plans.last().cloned().ok_or("no crash image")?;
    let job = Job {
        trace_file: scratch.join("f1.trace"),
        root: t.root.clone(),
        cfg: cfg.clone(),
        txns: t.txns.clone(),
        failed: failed.clone(),
        failed_recs: vec![],
base_required: 0,
        plans: vec![last],
        probe_every: 0,
        base_dir: None,
        keep_dir: None,
    };
    let jobfile = scratch.join("f1.job.json");
    std::fs::write(&jobfile, serde_json::to_vec(&job.to_json()).unwrap()).map_err(|e| e.to_string())?;
    let pool = e2::run_pool(&jobfile, 1, 1);
    let _ = std::fs::remove_file(&jobfile);
    cleanup(scratch, "f1", &t);
    for res in pool.results {
        for pb in res["problems"].as_array().cloned().unwrap_or_default() {
            if pb[0] == "failed_visible" {
                return Ok(Some(format!(
                    "10 synced commits, the 4th sync of the commit log fails once with EIO: commit of transaction {} returns an error ({}), later commits are acknowledged; after a process crash and restart: {}",
                    failed[0],
                    t.failed[0].err,
                    pb[1].as_str().unwrap_or("")
                )));
            }
        }
    }
    Ok(None)
}

const F3: &str = "C15-acknowledged-after-failed-append-lost";

/// Directed fault scenario: records of several 32 KiB blocks; the first write to the commit log
/// fails once with ENOSPC in the middle of such a record; later commits are acknowledged. Returns
/// the witness if one of them is missing after a process crash at the end of the run.
fn directed_f3(scratch: &std::path::Path) -> Result<Option<String>, String> {
    let cfg = Cfg { flush_on_close: false, max_memtable_size: 1 << 20, ..Cfg::default() };
    let w = Workload {
        txns: 12,
        committers: 1,
        nkeys: 6,
        max_value: 100_000,
        immediate_pct: 0,
        sync_every: 0,
        close_at_end: false,
        delete_pct: 0,
        first_txn: 1,
        big_batch_pct: 0,
        manual_flush_every: 1000,
        hook_rotate_pct: 0,
        hook_flush_pct: 0,
        stale_writer_after_failure: false,
    };
    let mut any_failed = false;
    for ord in 0..4 {
        let spec = format!("wal.write:{ord}:enospc:once");
        let t = e2::run_worker(scratch, "f3", &cfg, &w, 177, Some(&spec), None)?;
        let failed: Vec<u64> = t.failed.iter().map(|f| f.id).collect();
        let first_failed = failed.iter().min().copied();
        let acked_after = first_failed.map(|ff| t.txns.iter().filter(|x| x.id > ff && x.first_seq > 0).count()).unwrap_or(0);
        any_failed |= !failed.is_empty();
        if failed.is_empty() || acked_after == 0 {
            // nothing failed at this position, or the store refuses everything after the failure
            // (a sticky error is a permitted answer): nothing to lose
            cleanup(scratch, "f3", &t);
            continue;
        }
        let mut pr = Rng::new(1);
        let plans: Vec<_> = e2::plan_images(&t, &mut pr, false, 1).into_iter().filter(|p| p.loss == crate::trace::Loss::Process).collect();
        let last = plans.last().cloned().ok_or("no crash image")?;
        let job = Job {
            trace_file: scratch.join("f3.trace"),
            root: t.root.clone(),
            cfg: cfg.clone(),
            txns: t.txns.iter().filter(|x| x.first_seq > 0).cloned().collect(),
            failed: failed.clone(),
            failed_recs: vec![],
            base_required: 0,
            plans: vec![last],
            probe_every: 0,
            base_dir: None,
            keep_dir: None,
        };
        let jobfile = scratch.join("f3.job.json");
        std::fs::write(&jobfile, serde_json::to_vec(&job.to_json()).unwrap()).map_err(|e| e.to_string())?;
        let pool = e2::run_pool(&jobfile, 1, 1);
        let _ = std::fs::remove_file(&jobfile);
        let first_err = t.failed[0].err.clone();
        cleanup(scratch, "f3", &t);
        for res in pool.results {
            for pb in res["problems"].as_array().cloned().unwrap_or_default() {
                if pb[0] == "durability" {
                    return Ok(Some(format!(
                        "12 commits with values up to 100 KB (commit-log records of several blocks), write #{ord} to the commit log fails once with ENOSPC: commit of transaction {} returns an error ({}), {} later commits are acknowledged; after a process crash and restart: {}",
                        failed[0],
                        first_err,
                        acked_after,
                        pb[1].as_str().unwrap_or("")
                    )));
                }
            }
        }
        return Ok(None);
    }
    if any_failed {
        Ok(None)
    } else {
        Err("none of the injected write failures made a commit fail".into())
    }
}

const F2: &str = "C15-flush-on-close-after-failed-manifest-sync";

/// Directed fault scenario: the sync that follows the installation of a new manifest fails
/// once; the store is closed with flush_on_close; every crash image from the fault on must open.
fn directed_f2(scratch: &std::path::Path) -> Result<Option<String>, String> {
    let cfg = Cfg { flush_on_close: true, max_memtable_size: 1 << 20, vlog: true, vlog_threshold: 16, ..Cfg::default() };
    let w = Workload {
        txns: 24,
        committers: 1,
        nkeys: 6,
        max_value: 60,
        immediate_pct: 0,
        sync_every: 0,
        close_at_end: true,
        delete_pct: 10,
        first_txn: 1,
        big_batch_pct: 0,
        manual_flush_every: 5,
        hook_rotate_pct: 0,
        hook_flush_pct: 0,
        stale_writer_after_failure: true,
    };
    let mut fired = 0;
    for ord in [3u64, 4, 5, 6, 7, 8] {
        let name = format!("f2-{}", ord);
        let spec = format!("manifest.fsync:{}:eio:once", ord);
        let t = e2::run_worker(scratch, &name, &cfg, &w, 78, Some(&spec), None)?;
        let fault_pos = match t.recs.iter().position(|r| r.op == Op::Fault) {
            Some(p) => p,
            None => {
                cleanup(scratch, &name, &t);
                continue;
            }
        };
        fired += 1;
        let mut pr = Rng::new(1);
        let plans: Vec<_> = e2::plan_images(&t, &mut pr, false, 1).into_iter().filter(|p| p.upto >= fault_pos && p.loss == crate::trace::Loss::Process).collect();
        if plans.is_empty() {
            cleanup(scratch, &name, &t);
            continue;
        }
        let n = plans.len();
        let job = Job {
            trace_file: scratch.join(format!("{}.trace", name)),
            root: t.root.clone(),
            cfg: cfg.clone(),
            txns: t.txns.iter().filter(|x| x.first_seq > 0).cloned().collect(),
            failed: t.failed.iter().map(|f| f.id).collect(),
            failed_recs: vec![],
base_required: 0,
            plans: plans.clone(),
            probe_every: 0,
            base_dir: None,
            keep_dir: None,
        };
        let jobfile = scratch.join(format!("{}.job.json", name));
        std::fs::write(&jobfile, serde_json::to_vec(&job.to_json()).unwrap()).map_err(|e| e.to_string())?;
        let pool = e2::run_pool(&jobfile, n, 4);
        let _ = std::fs::remove_file(&jobfile);
        cleanup(scratch, &name, &t);
        for res in pool.results {
            for pb in res["problems"].as_array().cloned().unwrap_or_default() {
                let c = pb[0].as_str().unwrap_or("");
                if c == "open" || c == "read" || c == "vlog_read" {
                    let idx = res["idx"].as_u64().unwrap_or(0) as usize;
                    return Ok(Some(format!(
                        "flushes every 5 commits, sync #{} on the manifest fails once with EIO (the new manifest is already installed), close() with flush_on_close; process crash after trace record {}: {}",
                        ord,
                        plans[idx.min(n - 1)].upto,
                        pb[1].as_str().unwrap_or("")
                    )));
                }
            }
        }
    }
    if fired == 0 {
        return Err("no manifest sync fault fired".into());
    }
    Ok(None)
}

struct Base {
    cfg: Cfg,
    w: Workload,
    seed: u64,
    counts: BTreeMap<String, u64>,
}

pub fn run(a: &Args) -> i32 {
    crate::panics::install();
    let mut run = Run::new("C15", a.tier, a.seed, "fault_enumeration");
    let open_scen = crate::scenarios::run_for(&mut run, "C15");
    let _ = open_scen;
    let scratch = crate::e1::scratch_root().join("c15");
    let _ = std::fs::create_dir_all(&scratch);
    let findings = crate::evidence::load_findings();
    let finding_f1_open = crate::evidence::finding_open(&findings, F1);
    match directed_f1(&scratch) {
        Ok(None) => {}
        Ok(Some(what)) => {
            if finding_f1_open {
                run.known_finding(F1, &what);
            } else {
                run.violation(&format!("directed scenario {}: {}", F1, what), json!({"engine": "c15", "scenario": F1}));
            }
        }
        Err(e) => run.inconclusive(&format!("directed scenario {}: {}", F1, e)),
    }
    match directed_f2(&scratch) {
        Ok(None) => {}
        Ok(Some(what)) => {
            if crate::evidence::finding_open(&findings, F2) {
                run.known_finding(F2, &what);
            } else {
                run.violation(&format!("directed scenario {}: {}", F2, what), json!({"engine": "c15", "scenario": F2}));
            }
        }
        Err(e) => run.inconclusive(&format!("directed scenario {}: {}", F2, e)),
    }
    match directed_f3(&scratch) {
        Ok(None) => {}
        Ok(Some(what)) => {
            if crate::evidence::finding_open(&findings, F3) {
                run.known_finding(F3, &what);
            } else {
                run.violation(&format!("directed scenario {}: {}", F3, what), json!({"engine": "c15", "scenario": F3}));
            }
        }
        Err(e) => run.inconclusive(&format!("directed scenario {}: {}", F3, e)),
    }
    let nbases = a.tier.pick(4, 24);
    let per_base = a.tier.pick(44, 1000);
    let mut r = Rng::new(a.seed ^ 0xC15);
    // 1. fault-free runs: operation counts per class
    let mut bases = vec![];
    for bi in 0..nbases {
        let mut tr = r.fork(bi as u64);
        let mut cfg = crate::props::crash::e2_cfg(&mut tr, if bi % 2 == 0 { VlogMode::On } else { VlogMode::Off });
        cfg.max_memtable_size = 16 * 1024;
        let mut w = crate::props::crash::e2_workload(&mut tr, &cfg, a.tier.pick(36, 70), 1);
        // deterministic placement so that ordinals mean the same thing in the faulty rerun
        w.manual_flush_every = *tr.pick(&[6, 9]);
        w.big_batch_pct = 0; // a transaction larger than the memtable is a directed scenario of its own
        w.stale_writer_after_failure = true;
        if bi % 2 == 0 {
            // few hot keys: the transactions right after a failed one write the same keys, so
            // that anything the failed record still does after recovery (shadowing by sequence
            // number, resurrection) meets an acknowledged write
            w.nkeys = 4;
        }
        if bi % 4 == 3 {
            // commit-log records of several 32 KiB blocks: a failing write lands in the middle
            // of a record, after some of its fragments have reached the file
            cfg.max_memtable_size = 512 * 1024;
            w.max_value = 100_000;
            w.nkeys = 8;
            w.txns = w.txns.min(30);
        }
        w.close_at_end = tr.chance(1, 2);
        let seed = a.seed.wrapping_add(1000 + bi as u64);
        match e2::run_worker(&scratch, &format!("b{}", bi), &cfg, &w, seed, None, None) {
            Ok(t) => {
                let mut counts: BTreeMap<String, u64> = BTreeMap::new();
                for rec in &t.recs {
                    if let Some(c) = class_of(&rec.path, rec.op) {
                        *counts.entry(c).or_insert(0) += 1;
                    }
                }
                let _ = std::fs::remove_dir_all(&t.dir);
                bases.push(Base { cfg, w, seed, counts });
            }
            Err(e) => run.inconclusive(&format!("base {}: fault-free run failed: {}", bi, e)),
        }
    }
    // 2. fault plans
    struct Plan {
        base: usize,
        spec: String,
    }
    let mut plans = vec![];
    for (bi, b) in bases.iter().enumerate() {
        let mut mine = vec![];
        for (cls, n) in &b.counts {
            let kinds: &[&str] = if cls.ends_with(".write") { &["eio", "enospc", "short"] } else { &["eio"] };
            let mut ords: BTreeSet<u64> = BTreeSet::new();
            if *n <= 12 {
                ords.extend(0..*n);
            } else {
                ords.extend([0, 1, 2, n / 2, n - 2, n - 1]);
                for _ in 0..6 {
                    ords.insert(r.below(*n));
                }
            }
            for o in ords {
                for k in kinds {
                    for mode in ["once", "sticky"] {
                        mine.push(format!("{}:{}:{}:{}", cls, o, k, mode));
                    }
                }
            }
        }
        // hot-key workloads: every early commit-log fault position, failing once (later
        // commits are acknowledged and touch the same keys as the failed one)
        let mut forced = vec![];
        if b.w.nkeys <= 4 {
            for cls in ["wal.write", "wal.fsync"] {
                if let Some(n) = b.counts.get(cls) {
                    for o in 1..(*n).min(26) {
                        forced.push(format!("{}:{}:eio:once", cls, o));
                    }
                }
            }
        }
        // seeded selection down to the tier's budget, keeping every class represented
        for i in (1..mine.len()).rev() {
            let j = r.usize(i + 1);
            mine.swap(i, j);
        }
        let mut seen_cls: BTreeSet<String> = BTreeSet::new();
        let mut chosen = vec![];
        for s in &mine {
            let c = s.split(':').next().unwrap().to_string() + s.rsplit(':').next().unwrap();
            if seen_cls.insert(c) {
                chosen.push(s.clone());
            }
        }
        for s in mine {
            if chosen.len() >= per_base {
                break;
            }
            if !chosen.contains(&s) {
                chosen.push(s);
            }
        }
        for s in forced {
            if !chosen.contains(&s) {
                chosen.push(s);
            }
        }
        for s in chosen {
            plans.push(Plan { base: bi, spec: s });
        }
    }
    if let Ok(only) = std::env::var("VERIF_C15_ONLY") {
        // debug: "<base>|<fault spec>"
        let (b, sp) = only.split_once('|').unwrap_or(("0", ""));
        plans = vec![Plan { base: b.parse().unwrap_or(0), spec: sp.to_string() }];
    }
    let keep_all = std::env::var_os("VERIF_KEEP").is_some();
    // 3. faulty runs
    let evaluations = AtomicU64::new(0);
    let fired = AtomicU64::new(0);
    let failed_commits = AtomicU64::new(0);
    let acked_after_failure = AtomicU64::new(0);
    let images = AtomicU64::new(0);
    let masked = AtomicU64::new(0);
    let found: Mutex<Vec<(String, String, J)>> = Mutex::new(vec![]);
    let inconclusive: Mutex<Vec<String>> = Mutex::new(vec![]);
    let sigs: Mutex<BTreeSet<String>> = Mutex::new(BTreeSet::new());
    let samples: Mutex<Vec<J>> = Mutex::new(vec![]);
    par_for(plans.len(), |pi| {
        let p = &plans[pi];
        let b = &bases[p.base];
        let name = format!("f{}", pi);
        let t = match e2::run_worker(&scratch, &name, &b.cfg, &b.w, b.seed, Some(&p.spec), None) {
            Ok(t) => t,
            Err(e) => {
                if e.starts_with("WATCHDOG") {
                    inconclusive.lock().unwrap().push(format!("fault {} on base {}: {}", p.spec, p.base, e));
                } else {
                    found.lock().unwrap().push(("worker_died".into(), format!("fault {}: the worker process did not complete: {}", p.spec, e), json!({"engine": "c15", "base": p.base, "fault": p.spec})));
                }
                return;
            }
        };
        evaluations.fetch_add(1, Ordering::Relaxed);
        let did_fire = t.recs.iter().any(|r| r.op == Op::Fault);
        if did_fire {
            fired.fetch_add(1, Ordering::Relaxed);
        }
        let rep = json!({"engine": "c15", "base": p.base, "fault": p.spec, "options": b.cfg.to_json(), "workload": b.w.to_json(), "seed": b.seed});
        if t.worker_out["open_error"].is_string() {
            // the fault hit the very first open: nothing was committed
            sigs.lock().unwrap().insert(format!("{}|open_error", p.spec.split(':').next().unwrap()));
            cleanup(&scratch, &name, &t);
            return;
        }
        for pn in t.worker_out["panics"].as_array().cloned().unwrap_or_default() {
            found.lock().unwrap().push(("panic".into(), format!("fault {}: a thread of the store panicked: {}", p.spec, pn), rep.clone()));
        }
        failed_commits.fetch_add(t.failed.len() as u64, Ordering::Relaxed);
        for f in &t.failed {
            if f.err.contains("[SPURIOUS-CONFLICT") {
                found.lock().unwrap().push(("poisoned".into(), format!("fault {}: transaction {} began before a commit that then failed, wrote one of that commit's keys and was refused ({}) although no commit succeeded in between", p.spec, f.id, f.err), rep.clone()));
            }
            if f.err.contains("[VISIBLE-AFTER-ERROR]") {
                found.lock().unwrap().push(("failed_visible".into(), format!("fault {}: commit of transaction {} returned an error ({}), yet a transaction begun right afterwards reads its marker key", p.spec, f.id, f.err), rep.clone()));
            }
        }
        // acknowledged after the first failure?
        let first_fail_id = t.failed.iter().map(|f| f.id).min();
        if let Some(ff) = first_fail_id {
            acked_after_failure.fetch_add(t.txns.iter().filter(|x| x.id > ff).count() as u64, Ordering::Relaxed);
        }
        // an acknowledged transaction whose marker key is missing at the end of the run
        let scan_ok = t.worker_out["marker_scan_ok"].as_bool().unwrap_or(false);
        if !scan_ok {
            // the commit order could not be read back (the store is in its error state and the
            // final scan failed): nothing after the run can be judged
            sigs.lock().unwrap().insert(format!("{}|final_scan_failed", p.spec.split(':').next().unwrap()));
            cleanup(&scratch, &name, &t);
            return;
        }
        for x in &t.txns {
            if x.first_seq == 0 {
                found.lock().unwrap().push(("lost_live".into(), format!("fault {}: transaction {} was acknowledged but its marker key is absent at the end of the run", p.spec, x.id), rep.clone()));
            }
        }
        sigs.lock().unwrap().insert(format!(
            "{}|{}|f{}a{}",
            p.spec.split(':').next().unwrap(),
            p.spec.rsplit(':').next().unwrap(),
            t.failed.len().min(3),
            first_fail_id.map(|ff| t.txns.iter().filter(|x| x.id > ff).count().min(2)).unwrap_or(0)
        ));
        // crash images: the tail of the trace (from the fault on) + a seeded few before it
        let mut pr = Rng::new(b.seed ^ pi as u64);
        let mut img_plans = e2::plan_images(&t, &mut pr, false, 1);
        let fault_pos = t.recs.iter().position(|r| r.op == Op::Fault).unwrap_or(0);
        let mut keep = vec![];
        let n = img_plans.len();
        for (i, ip) in img_plans.drain(..).enumerate() {
            if ip.upto >= fault_pos && (i + 40 >= n || pr.chance(1, 8) || keep_all) {
                keep.push(ip);
            }
        }
        if keep.is_empty() {
            cleanup(&scratch, &name, &t);
            return;
        }
        let keepdir = scratch.join(format!("{}-keep", name));
        let job = Job {
            trace_file: scratch.join(format!("{}.trace", name)),
            root: t.root.clone(),
            cfg: b.cfg.clone(),
            txns: t.txns.iter().filter(|x| x.first_seq > 0).cloned().collect(),
            failed: t.failed.iter().map(|f| f.id).collect(),
            failed_recs: if b.w.committers == 1 { t.failed.clone() } else { vec![] },
base_required: 0,
            plans: keep.clone(),
            probe_every: 0,
            base_dir: None,
            keep_dir: Some(keepdir.clone()),
        };
        let jobfile = scratch.join(format!("{}.job.json", name));
        let _ = std::fs::write(&jobfile, serde_json::to_vec(&job.to_json()).unwrap());
        let pool = e2::run_pool(&jobfile, keep.len(), 1);
        images.fetch_add(keep.len() as u64, Ordering::Relaxed);
        for m in pool.inconclusive {
            inconclusive.lock().unwrap().push(format!("fault {}: {}", p.spec, m));
        }
        for (i, st) in pool.crashed {
            found.lock().unwrap().push(("verifier_died".into(), format!("fault {}: the verifier died ({}) on crash image {} ({:?})", p.spec, st, i, keep[i].loss), rep.clone()));
        }
        for res in pool.results {
            let probs = res["problems"].as_array().cloned().unwrap_or_default();
            // open known finding C15-failed-commit-record-stays-in-log: the commit failed at the
            // commit log (append or sync), its record stays there and recovery replays it. Exactly
            // that pattern is masked: fault on the commit log, the image shows a failed
            // transaction, and the only problems are its presence and the non-prefix state it causes.
            // ... and the recovered state is exactly the issue order with the failed
            // transactions applied at their place (or a plain prefix plus their marker keys)
            if keep_all && !probs.is_empty() {
                println!("IMG {} {:?}", res["idx"], probs.iter().map(|pb| format!("{}: {}", pb[0].as_str().unwrap_or(""), pb[1].as_str().unwrap_or("").chars().take(300).collect::<String>())).collect::<Vec<_>>());
            }
            let has = |c: &str| probs.iter().any(|pb| pb[0] == c);
            let replayed = p.spec.starts_with("wal.") && has("failed_visible") && (has("explained_by_failed_replay") || !has("prefix"));
            for pb in probs {
                let class = pb[0].as_str().unwrap_or("?").to_string();
                let idx = res["idx"].as_u64().unwrap_or(0) as usize;
                let ip = &keep[idx.min(keep.len() - 1)];
                if class == "explained_by_failed_replay" {
                    continue;
                }
                if replayed && finding_f1_open && (class == "failed_visible" || class == "prefix") {
                    masked.fetch_add(1, Ordering::Relaxed);
                    continue;
                }
                found.lock().unwrap().push((class, format!("fault {}; crash after trace record {} ({:?}): {}", p.spec, ip.upto, ip.loss, pb[1].as_str().unwrap_or("")), rep.clone()));
            }
        }
        if pi % 40 == 0 {
            samples.lock().unwrap().push(json!({"fault": p.spec, "fired": did_fire, "failed_commits": t.failed.iter().map(|f| json!([f.id, f.err])).take(3).collect::<Vec<_>>(), "acknowledged": t.txns.len(), "crash_images": keep.len()}));
        }
        if keep_all {
            println!("KEPT trace {} keep dir {} ; worker txns: {:?} ; failed: {:?}", scratch.join(format!("{}.trace", name)).display(), keepdir.display(), t.txns.iter().map(|x| (x.id, x.first_seq)).collect::<Vec<_>>(), t.failed.iter().map(|f| (f.id, f.err.clone())).collect::<Vec<_>>());
            return;
        }
        let _ = std::fs::remove_file(&jobfile);
        let _ = std::fs::remove_dir_all(&keepdir);
        cleanup(&scratch, &name, &t);
    });
    for m in inconclusive.into_inner().unwrap() {
        run.inconclusive(&m);
    }
    let mut reported: BTreeMap<String, usize> = BTreeMap::new();
    for (class, what, rep) in found.into_inner().unwrap() {
        let n = reported.entry(class.clone()).or_insert(0);
        *n += 1;
        if *n <= 3 {
            run.violation(&format!("[{}] {}", class, what), rep);
        }
    }
    run.cov("workloads", json!(bases.len()));
    run.cov("operations_per_class_fault_free", json!(bases.iter().map(|b| json!(b.counts)).collect::<Vec<_>>()));
    run.cov("fault_runs", json!(plans.len()));
    run.cov("fault_runs_where_the_fault_fired", json!(fired.load(Ordering::Relaxed)));
    run.cov("failed_commits_observed", json!(failed_commits.load(Ordering::Relaxed)));
    run.cov("commits_acknowledged_after_a_failure", json!(acked_after_failure.load(Ordering::Relaxed)));
    run.cov("crash_images_verified", json!(images.load(Ordering::Relaxed)));
    run.cov("problem_classes", json!(reported));
    run.cov("crash_image_problems_attributed_to_open_finding", json!(masked.load(Ordering::Relaxed)));
    run.assumptions = vec![
        "faults are injected by the LD_PRELOAD layer (shim/iotrace.c): the n-th write / fsync / rename on a file class fails with EIO or ENOSPC or is cut short, once or from then on; ordinals come from a fault-free run of the same deterministic workload (background tasks in manual mode)".into(),
        "after a failure the store may keep accepting commits or report a sticky error: both are accepted; what is checked is that failed transactions are invisible (live and after recovery) and that transactions acknowledged afterwards are recovered".into(),
        "crash images are taken from the tail of the faulty trace (from the fault on): last 40 images + a seeded eighth of the earlier ones".into(),
    ];
    let distinct = sigs.lock().unwrap().len() as u64;
    if !keep_all {
        let _ = std::fs::remove_dir_all(&scratch);
    }
    run.finish(
        evaluations.load(Ordering::Relaxed) + images.load(Ordering::Relaxed),
        distinct,
        a.tier.pick(12, 24),
        "one evaluation = one run of a workload with one injected fault (observed live: a fresh reader after every failed commit, marker keys at the end of the run) or one crash image of such a run opened by the real code (failed transactions absent, acknowledged ones present, state = a commit prefix, store opens and reads); distinct = distinct (file class.operation, once/sticky, number of failed commits, commits acknowledged after the failure) signatures",
        samples.into_inner().unwrap(),
    )
}

fn cleanup(scratch: &std::path::Path, name: &str, t: &e2::TraceRun) {
    let _ = std::fs::remove_file(scratch.join(format!("{}.trace", name)));
    let _ = std::fs::remove_file(scratch.join(format!("{}.out.json", name)));
    let _ = std::fs::remove_dir_all(&t.dir);
}
