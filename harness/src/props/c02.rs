//! C02 - acknowledged commits survive crashes.
use crate::evidence::Run;
use crate::Args;

pub fn run(a: &Args) -> i32 {
    let mut run = Run::new("C02", a.tier, a.seed, "fault_enumeration");
    crate::scenarios::run_for(&mut run, "C02");
    crate::matrix::run_for(&mut run, "C02");
    let (ev, dn, samples) = crate::props::crash::run_part(&mut run, a, "C02");
    // The weakest restart of all: a clean close and reopen in the middle of a history whose
    // placement (flushes, compaction rounds, value-log clean-up) is generated. What was
    // committed before the reopen must be read back after it, values in the value log
    // included; only failures at or after a reopen count here (the rest is C06 / C11).
    let (ev2, dn2) = {
        surrealkv::verif::set_manual_background(true);
        let c = crate::campaign::Campaign {
            histories: a.tier.pick(60, 800),
            variants: a.tier.pick(4, 8),
            gen: crate::e1::GenParams { steps: 110, nkeys: 10, readers: false, cursors: false, reader_pending: false, reopen: true, delete_pct: 30, placement_pct: 45, big_values: true, ..Default::default() },
            ver: crate::cfg::VerMode::Off,
            vlog: crate::cfg::VlogMode::On,
            exec: crate::e1::ExecOpts { fresh_battery: true, ..Default::default() },
            tweak: |c, r| {
                c.max_memtable_size = 4 << 20;
                c.vlog_max_file = *r.pick(&[256, 1024, 4096]);
                c.vlog_threshold = *r.pick(&[0, 16, 64]);
            },
            nontrivial: |s| s.compactions_changed > 0 && s.reopens > 0,
            minimise_budget: 100,
        };
        let out = crate::campaign::run_campaign(&c, a.seed ^ 0xC02, "c02r");
        let mut reported = 0;
        for f in &out.failures {
            let reopened = f.steps.iter().take(f.violation.step + 1).any(|s| matches!(s, crate::e1::Step::Reopen));
            if reopened && reported < 4 {
                reported += 1;
                run.violation(
                    &format!("[after_clean_restart] step {} (after a close and reopen of the store): [{}] {}", f.violation.step, f.violation.class, f.violation.what),
                    crate::campaign::failure_replay(f, &c.exec),
                );
            }
        }
        run.cov("clean_restart_histories", crate::campaign::stats_json(&out.stats));
        surrealkv::verif::set_manual_background(false);
        (out.evaluations, out.distinct.len() as u64)
    };
    let (ev, dn) = (ev + ev2, dn + dn2);
    run.assumptions = vec![
        "crash points = every file-system operation boundary of the traced executions (LD_PRELOAD recorder), plus byte cuts inside unsynced WAL / value-log writes".into(),
        "power-loss model as stated in the property: namespace operations kept in order; per file the content at its last completed fsync plus a chosen part of what was written since".into(),
        "commit order = sequence numbers of per-transaction marker keys read back at the public boundary; ACK / SYNC markers are written through the recorder by the client itself, after the reply".into(),
    ];
    run.finish(
        ev,
        dn,
        a.tier.pick(40, 200),
        "one evaluation = one synthesised crash image (trace prefix x loss model) opened by the real code; required = every transaction acknowledged (process model) or acknowledged as durable (Immediate, or before a returned flush_wal(true)) at that point; non-trivial = at least one transaction was required; distinct = distinct (option signature, loss model, required bucket, recovered-minus-required bucket)",
        samples,
    )
}
