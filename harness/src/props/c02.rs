//! C02 - acknowledged commits survive crashes.
use crate::evidence::Run;
use crate::Args;

pub fn run(a: &Args) -> i32 {
    let mut run = Run::new("C02", a.tier, a.seed, "fault_enumeration");
    crate::scenarios::run_for(&mut run, "C02");
    crate::matrix::run_for(&mut run, "C02");
    let (ev, dn, samples) = crate::props::crash::run_part(&mut run, a, "C02");
    run.assumptions = vec![
        "crash points = every file-system operation boundary of the traced executions (LD_PRELOAD recorder), plus byte cuts inside unsynced WAL / value-log writes".into(),
        "power-loss model as stated in the property: namespace operations kept in order; per file the content at its last completed fsync plus a chosen part of what was written since".into(),
        "commit order = sequence numbers of per-transaction marker keys read back at the public boundary; ACK / SYNC markers are written through the recorder by the client itself, after the reply".into(),
    ];
    run.finish(
        ev,
        dn,
        a.tier.pick(40, 200),
        "one evaluation = one synthesised crash image (trace prefix x loss model) opened by the real code; required = every transaction acknowledged (process model) or acknowledged as durable (Immediate, or before a returned flush_wal(true)) at that point; non-trivial = at least one transaction was required; distinct = distinct (option signature, loss model, required bucket, recovered-minus-required bucket)",
        samples,
    )
}
