//! C16: damaged files are detected, never served as data.
//!
//! Databases are built from generated workloads (tables on two levels, a value log read
//! with full verification, a commit-log tail that is not flushed). Every file gets single-bit
//! and single-byte alterations (every position in the thorough tier, a stratified sample in
//! the quick tier) and table files are cut at every offset (a superset of the block
//! boundaries). Each altered copy is opened by the real code in a verifier subprocess, every
//! key is read, the whole key space is scanned in both directions, a flush and compaction
//! rounds are run and everything is read again: each operation must return the originally
//! written data or fail with an error - never other data, a panic, an abort or a hang.

use crate::cfg::Cfg;
use crate::evidence::{Run, Tier};
use crate::model::hex;
use crate::rng::{prg_bytes, Rng};
use crate::Args;
use serde_json::{json, Value as J};
use std::collections::{BTreeMap, BTreeSet};
use std::io::{BufRead, BufReader};
use std::path::{Path, PathBuf};
use std::process::{Command, Stdio};
use surrealkv::verif::{verif_wal_read_segment, VerifWalEnd};
use surrealkv::{LSMIterator, Mode};

type State = BTreeMap<Vec<u8>, Vec<u8>>;

fn store_cfg(seed: u64) -> Cfg {
    let mut r = Rng::new(seed ^ 0xC16);
    Cfg {
        flush_on_close: false,
        level_count: 3,
        l0_max_files: 2,
        max_bytes_for_level: 1 << 20,
        block_size: *r.pick(&[128, 512, 4096]),
        restart: *r.pick(&[1, 4, 16]),
        index_partition_size: *r.pick(&[64, 512]),
        bloom: r.chance(3, 4),
        compression: if r.chance(1, 2) { vec![1, 1, 1] } else { vec![] },
        cache: 1 << 20,
        vlog: true,
        vlog_threshold: 64,
        vlog_max_file: 2048,
        vlog_checksum: true,
        max_memtable_size: 1 << 20,
        ..Cfg::default()
    }
}

fn value(seed: u64, commit: usize, key: usize, r: &mut Rng) -> Vec<u8> {
    let len = match r.below(5) {
        0 => r.range(0, 8) as usize,
        1 | 2 => r.range(8, 60) as usize,
        _ => r.range(65, 500) as usize, // beyond the value-log threshold
    };
    let mut v = format!("{commit}:{key}:").into_bytes();
    v.extend(prg_bytes(seed, commit as u64, key as u64, len));
    v
}

/// Builds the store; returns the state after the flushed part and after each tail commit.
fn build(seed: u64, dir: &Path) -> Result<Vec<State>, String> {
    let cfg = store_cfg(seed);
    let _ = std::fs::remove_dir_all(dir);
    let rt = tokio::runtime::Builder::new_current_thread().enable_all().build().unwrap();
    rt.block_on(async {
        let mut r = Rng::new(seed);
        let t = cfg.open(dir).map_err(|e| format!("open: {e}"))?;
        let mut st: State = BTreeMap::new();
        let nkeys = r.range(8, 30) as usize;
        let mut commit = 0usize;
        let mut do_commit = |st: &mut State, r: &mut Rng, commit: usize| {
            let n = r.range(1, 4) as usize;
            let mut ops = vec![];
            for _ in 0..n {
                let k = r.usize(nkeys);
                let key = format!("key{:03}", k).into_bytes();
                if r.chance(1, 6) {
                    st.remove(&key);
                    ops.push((key, None));
                } else {
                    let v = value(seed, commit, k, r);
                    st.insert(key.clone(), v.clone());
                    ops.push((key, Some(v)));
                }
            }
            ops
        };
        for phase in 0..4 {
            for _ in 0..r.range(3, 8) {
                let ops = do_commit(&mut st, &mut r, commit);
                commit += 1;
                let mut tx = t.begin_with_mode(Mode::WriteOnly).map_err(|e| e.to_string())?;
                for (k, v) in &ops {
                    match v {
                        Some(v) => tx.set(k, v).map_err(|e| e.to_string())?,
                        None => tx.delete(k).map_err(|e| e.to_string())?,
                    }
                }
                tx.commit().await.map_err(|e| format!("commit: {e}"))?;
            }
            t.verif_flush().map_err(|e| format!("flush: {e}"))?;
            if phase == 1 {
                for _ in 0..2 {
                    let _ = t.verif_compact_once();
                }
            }
        }
        // let the detached WAL clean-up of the flushes finish
        tokio::time::sleep(std::time::Duration::from_millis(5)).await;
        let mut states = vec![st.clone()];
        for _ in 0..r.range(3, 7) {
            let ops = do_commit(&mut st, &mut r, commit);
            commit += 1;
            let mut tx = t.begin_with_mode(Mode::WriteOnly).map_err(|e| e.to_string())?;
            for (k, v) in &ops {
                match v {
                    Some(v) => tx.set(k, v).map_err(|e| e.to_string())?,
                    None => tx.delete(k).map_err(|e| e.to_string())?,
                }
            }
            tx.commit().await.map_err(|e| format!("commit: {e}"))?;
            states.push(st.clone());
        }
        crate::e2::close_tree(t).await;
        Ok(states)
    })
}

#[derive(Clone, Debug)]
pub struct Job {
    pub file: String, // relative path
    pub kind: u8,     // 0 truncate, 1 byte xor 0xff, 2 bit, 3 range of zeros (length class in `bit`: 64 B, 512 B, 4 KiB, 32 KiB)
    pub at: u64,
    pub bit: u8,
}

fn job_json(j: &Job) -> J {
    json!({"file": j.file, "kind": j.kind, "at": j.at, "bit": j.bit})
}
fn job_from(j: &J) -> Job {
    Job { file: j["file"].as_str().unwrap_or("").to_string(), kind: j["kind"].as_u64().unwrap_or(1) as u8, at: j["at"].as_u64().unwrap_or(0), bit: j["bit"].as_u64().unwrap_or(0) as u8 }
}

fn files_of(dir: &Path) -> Vec<(String, u64)> {
    let mut v = vec![];
    for sub in ["sstables", "wal", "vlog"] {
        if let Ok(rd) = std::fs::read_dir(dir.join(sub)) {
            for e in rd.flatten() {
                let len = e.metadata().map(|m| m.len()).unwrap_or(0);
                if len > 0 {
                    v.push((format!("{}/{}", sub, e.file_name().to_string_lossy()), len));
                }
            }
        }
    }
    v.sort();
    v
}

fn plan(dir: &Path, tier: Tier, r: &mut Rng) -> Vec<Job> {
    let mut jobs = vec![];
    for (f, len) in files_of(dir) {
        let is_table = f.starts_with("sstables/");
        let mut pos: BTreeSet<u64> = BTreeSet::new();
        if tier == Tier::Thorough || len <= 600 {
            pos.extend(0..len);
        } else {
            pos.extend(0..48.min(len));
            pos.extend(len.saturating_sub(64)..len);
            for _ in 0..tier.pick(260, 0) {
                pos.insert(r.below(len));
            }
        }
        for p in &pos {
            jobs.push(Job { file: f.clone(), kind: 1, at: *p, bit: 0 });
            jobs.push(Job { file: f.clone(), kind: 2, at: *p, bit: r.below(8) as u8 });
        }
        // ranges that read as zeros (lost writes): at every 4 KiB boundary a short and a long
        // one, whole 32 KiB blocks, and a few at random positions
        let mut z = 0u64;
        while z < len {
            jobs.push(Job { file: f.clone(), kind: 3, at: z, bit: 0 });
            jobs.push(Job { file: f.clone(), kind: 3, at: z, bit: 2 });
            if z % 32768 == 0 {
                jobs.push(Job { file: f.clone(), kind: 3, at: z, bit: 3 });
            }
            z += 4096;
        }
        for _ in 0..tier.pick(6, 40) {
            jobs.push(Job { file: f.clone(), kind: 3, at: r.below(len), bit: r.below(3) as u8 });
        }
        if f.starts_with("wal/") {
            // every bit of every record header of the commit-log tail (crc | length | type)
            if let Ok((recs, _)) = verif_wal_read_segment(&dir.join(&f)) {
                let mut start = 0u64;
                for (_, end) in recs {
                    for b in 0..7u64 {
                        for bit in 0..8u8 {
                            if start + b < len {
                                jobs.push(Job { file: f.clone(), kind: 2, at: start + b, bit });
                            }
                        }
                    }
                    start = end;
                }
            }
        }
        if is_table {
            let stride = tier.pick(11, 1);
            let mut t = 0;
            while t < len {
                jobs.push(Job { file: f.clone(), kind: 0, at: t, bit: 0 });
                t += stride;
            }
        }
    }
    jobs
}

fn read_battery(t: &surrealkv::Tree, keys: &[Vec<u8>]) -> (Vec<(Vec<u8>, Result<Option<Vec<u8>>, String>)>, Result<State, String>, Result<Vec<(Vec<u8>, Vec<u8>)>, String>) {
    let mut gets = vec![];
    let tx = match t.begin_with_mode(Mode::ReadOnly) {
        Ok(tx) => tx,
        Err(e) => return (vec![], Err(format!("begin: {e}")), Err(format!("begin: {e}"))),
    };
    for k in keys {
        gets.push((k.clone(), tx.get(k).map_err(|e| e.to_string())));
    }
    let fwd = crate::e2::scan_all(t);
    let bwd = (|| -> Result<Vec<(Vec<u8>, Vec<u8>)>, String> {
        let mut it = tx.range(&b"\x00"[..], &b"\xff\xff\xff\xff"[..]).map_err(|e| e.to_string())?;
        let mut out = vec![];
        let mut ok = it.seek_last().map_err(|e| e.to_string())?;
        while ok {
            out.push((it.key().user_key().to_vec(), it.value().map_err(|e| e.to_string())?));
            ok = it.prev().map_err(|e| e.to_string())?;
        }
        Ok(out)
    })();
    (gets, fwd, bwd)
}

/// Which of the acceptable states (prefixes, newest first) explains everything that was read
/// without error? Returns a description of the first read that no acceptable state explains.
fn judge(acceptable: &[&State], gets: &[(Vec<u8>, Result<Option<Vec<u8>>, String>)], fwd: &Result<State, String>, bwd: &Result<Vec<(Vec<u8>, Vec<u8>)>, String>) -> Option<String> {
    let explains = |s: &State| -> Option<String> {
        for (k, r) in gets {
            if let Ok(v) = r {
                if v.as_ref() != s.get(k) {
                    return Some(format!("get({}) returned {} although the written value is {}", hex(k), v.as_ref().map(|v| format!("{} bytes", v.len())).unwrap_or("nothing".into()), s.get(k).map(|v| format!("{} bytes", v.len())).unwrap_or("absent (deleted)".into())));
                }
            }
        }
        if let Ok(m) = fwd {
            if m != s {
                let k = m.iter().find(|(k, v)| s.get(*k) != Some(v)).map(|(k, _)| hex(k)).or_else(|| s.keys().find(|k| !m.contains_key(*k)).map(|k| format!("{} (missing)", hex(k))));
                return Some(format!("a complete forward scan succeeded but lists {} keys, written {}; first difference at {:?}", m.len(), s.len(), k));
            }
        }
        if let Ok(v) = bwd {
            let exp: Vec<(Vec<u8>, Vec<u8>)> = s.iter().rev().map(|(k, v)| (k.clone(), v.clone())).collect();
            if *v != exp {
                return Some(format!("a complete backward scan succeeded but lists {} keys, written {}", v.len(), s.len()));
            }
        }
        None
    };
    let mut first = None;
    for s in acceptable {
        match explains(s) {
            None => return None,
            Some(w) => {
                if first.is_none() {
                    first = Some(w);
                }
            }
        }
    }
    first
}

/// `vharness c16-shard <store dir> <states json> <jobs json> <work dir>`
pub fn shard_main(args: &[String]) -> i32 {
    crate::panics::install();
    surrealkv::verif::set_manual_background(true);
    let src = PathBuf::from(&args[0]);
    let states: Vec<State> = {
        let j: J = serde_json::from_slice(&std::fs::read(&args[1]).unwrap()).unwrap();
        j.as_array().unwrap().iter().map(|s| s.as_array().unwrap().iter().map(|kv| (unhex_plain(kv[0].as_str().unwrap()), unhex_plain(kv[1].as_str().unwrap()))).collect()).collect()
    };
    let jobs: Vec<Job> = {
        let j: J = serde_json::from_slice(&std::fs::read(&args[2]).unwrap()).unwrap();
        j.as_array().unwrap().iter().map(job_from).collect()
    };
    let work = PathBuf::from(&args[3]);
    let seed: u64 = args[4].parse().unwrap_or(0);
    let cfg = store_cfg(seed);
    let full = states.last().unwrap().clone();
    let keys: Vec<Vec<u8>> = {
        let mut k: BTreeSet<Vec<u8>> = BTreeSet::new();
        for s in &states {
            k.extend(s.keys().cloned());
        }
        k.insert(b"key999".to_vec());
        k.into_iter().collect()
    };
    // record ends of the commit-log tail (for 'wholly before the damage')
    let wal_ends: Vec<u64> = files_of(&src).iter().filter(|(f, _)| f.starts_with("wal/")).flat_map(|(f, _)| verif_wal_read_segment(&src.join(f)).map(|(r, _)| r.into_iter().map(|x| x.1).collect::<Vec<_>>()).unwrap_or_default()).collect();
    let rt = tokio::runtime::Builder::new_current_thread().enable_all().build().unwrap();
    for (ji, job) in jobs.iter().enumerate() {
        println!("START {}", ji);
        let _ = std::fs::remove_dir_all(&work);
        if crate::props::c12::copy_dir(&src, &work).is_err() {
            println!("DONE {} {}", ji, json!({"verdict": "harness", "what": "copy failed"}));
            continue;
        }
        let _ = std::fs::remove_file(work.join("LOCK"));
        let fp = work.join(&job.file);
        let mut bytes = std::fs::read(&fp).unwrap_or_default();
        match job.kind {
            0 => bytes.truncate(job.at as usize),
            1 => bytes[job.at as usize] ^= 0xff,
            2 => bytes[job.at as usize] ^= 1 << job.bit,
            _ => {
                let n = [64usize, 512, 4096, 32768][(job.bit as usize).min(3)];
                let end = (job.at as usize + n).min(bytes.len());
                bytes[(job.at as usize).min(end)..end].iter_mut().for_each(|b| *b = 0);
            }
        }
        let _ = std::fs::write(&fp, &bytes);
        // acceptable states: the full state; for commit-log alterations also every commit
        // prefix that keeps all records lying wholly before the alteration (C12 semantics of
        // the repairing recovery mode)
        let mut acceptable: Vec<&State> = vec![&full];
        let is_wal = job.file.starts_with("wal/");
        if is_wal && wal_ends.len() + 1 == states.len() {
            let must = wal_ends.iter().filter(|e| **e <= job.at).count();
            for n in (must..states.len()).rev() {
                acceptable.push(&states[n]);
            }
        }
        let res = std::panic::catch_unwind(std::panic::AssertUnwindSafe(|| {
            rt.block_on(async {
                let t = match cfg.open(&work) {
                    Ok(t) => t,
                    Err(e) => return json!({"verdict": "open_error", "err": e.to_string().chars().take(120).collect::<String>()}),
                };
                let (g, f, b) = read_battery(&t, &keys);
                let errs = g.iter().filter(|x| x.1.is_err()).count() + f.is_err() as usize + b.is_err() as usize;
                if let Some(w) = judge(&acceptable, &g, &f, &b) {
                    crate::e2::close_tree(t).await;
                    return json!({"verdict": "wrong_data", "what": w, "phase": "after open"});
                }
                // everything is rewritten: flush + compaction rounds, then read again
                let _ = t.verif_flush();
                for _ in 0..3 {
                    let _ = t.verif_compact_once();
                }
                let (g2, f2, b2) = read_battery(&t, &keys);
                let errs2 = g2.iter().filter(|x| x.1.is_err()).count() + f2.is_err() as usize + b2.is_err() as usize;
                let w2 = judge(&acceptable, &g2, &f2, &b2);
                crate::e2::close_tree(t).await;
                if let Some(w) = w2 {
                    return json!({"verdict": "wrong_data", "what": w, "phase": "after flush + compaction"});
                }
                json!({"verdict": if errs + errs2 > 0 { "read_errors" } else { "all_original" }, "errors": errs + errs2})
            })
        }));
        let mut out = match res {
            Ok(j) => j,
            Err(_) => json!({"verdict": "panic", "what": crate::panics::take_last()}),
        };
        // commit-log alterations once more in absolute-consistency mode: there is no repair,
        // so the store must refuse to open or serve exactly what was written
        if is_wal && out["verdict"] != "wrong_data" && out["verdict"] != "panic" {
            let _ = std::fs::remove_dir_all(&work);
            if crate::props::c12::copy_dir(&src, &work).is_ok() {
                let _ = std::fs::remove_file(work.join("LOCK"));
                let _ = std::fs::write(&fp, &bytes);
                let strict = Cfg { absolute_consistency: true, ..cfg.clone() };
                // Zeros that reach the end of the segment cannot be told from a torn tail (a
                // file extended without its data reaching the disk), which every mode reads
                // as the end of the log: there the commit prefixes stay acceptable (C12).
                let zeros_to_eof = job.kind == 3 && bytes[(job.at as usize).min(bytes.len())..].iter().all(|b| *b == 0);
                let only_full: Vec<&State> = if zeros_to_eof { acceptable.clone() } else { vec![&full] };
                let r2 = std::panic::catch_unwind(std::panic::AssertUnwindSafe(|| {
                    rt.block_on(async {
                        let t = match strict.open(&work) {
                            Ok(t) => t,
                            Err(_) => return None,
                        };
                        let (g, f, b) = read_battery(&t, &keys);
                        let w = judge(&only_full, &g, &f, &b);
                        crate::e2::close_tree(t).await;
                        w
                    })
                }));
                match r2 {
                    Ok(None) => {}
                    Ok(Some(w)) => out = json!({"verdict": "wrong_data", "what": w, "phase": "opened in absolute-consistency mode"}),
                    Err(_) => out = json!({"verdict": "panic", "what": crate::panics::take_last(), "phase": "absolute-consistency mode"}),
                }
            }
        }
        println!("DONE {} {}", ji, out);
    }
    let _ = std::fs::remove_dir_all(&work);
    0
}

pub fn run(a: &Args) -> i32 {
    crate::panics::install();
    surrealkv::verif::set_manual_background(true);
    let mut run = Run::new("C16", a.tier, a.seed, "fault_enumeration");
    crate::scenarios::run_for(&mut run, "C16");
    let root = crate::e1::scratch_root();
    let _ = std::fs::create_dir_all(&root);
    let stores = a.tier.pick(3, 10);
    let shards = 16usize;
    let exe = std::env::current_exe().unwrap();
    let mut verdicts: BTreeMap<String, u64> = BTreeMap::new();
    let mut classes: BTreeSet<String> = BTreeSet::new();
    let mut evaluations = 0u64;
    let mut reported: BTreeMap<String, usize> = BTreeMap::new();
    let mut samples = vec![];
    for si in 0..stores {
        let seed = a.seed.wrapping_mul(0xBF58_476D_1CE4_E5B9).wrapping_add(si as u64 * 15_485_863 + 17);
        let src = root.join(format!("c16-src{}", si));
        let states = match build(seed, &src) {
            Ok(s) => s,
            Err(e) => {
                run.inconclusive(&format!("store {}: build failed: {}", si, e));
                continue;
            }
        };
        let states_file = root.join(format!("c16-states{}.json", si));
        let sj: Vec<J> = states.iter().map(|s| json!(s.iter().map(|(k, v)| json!([hex_plain(k), hex_plain(v)])).collect::<Vec<_>>())).collect();
        let _ = std::fs::write(&states_file, serde_json::to_vec(&sj).unwrap());
        let mut r = Rng::new(seed ^ 0x10b5);
        let jobs = plan(&src, a.tier, &mut r);
        samples.push(json!({"store_seed": seed, "options": store_cfg(seed).sig(), "files": files_of(&src), "alterations": jobs.len(), "tail_commits": states.len() - 1}));
        // split over shards
        let mut parts: Vec<Vec<Job>> = vec![vec![]; shards];
        for (i, j) in jobs.iter().enumerate() {
            parts[i % shards].push(j.clone());
        }
        let mut children = vec![];
        for (k, part) in parts.iter().enumerate() {
            if part.is_empty() {
                continue;
            }
            let jf = root.join(format!("c16-jobs{}-{}.json", si, k));
            let _ = std::fs::write(&jf, serde_json::to_vec(&part.iter().map(job_json).collect::<Vec<_>>()).unwrap());
            let work = root.join(format!("c16-work{}-{}", si, k));
            let ch = Command::new(&exe).arg("c16-shard").arg(&src).arg(&states_file).arg(&jf).arg(&work).arg(seed.to_string()).stdout(Stdio::piped()).stderr(Stdio::null()).spawn().expect("spawn shard");
            children.push((k, ch));
        }
        for (k, mut ch) in children {
            let part = &parts[k];
            let out = BufReader::new(ch.stdout.take().unwrap());
            let mut started: Option<usize> = None;
            let mut done: BTreeSet<usize> = BTreeSet::new();
            // watchdog: a shard that prints nothing for 120 s is killed (inconclusive: hang or load)
            let (tx, rx) = std::sync::mpsc::channel::<String>();
            let th = std::thread::spawn(move || {
                for l in out.lines().map_while(Result::ok) {
                    if tx.send(l).is_err() {
                        break;
                    }
                }
            });
            let mut hung = false;
            loop {
                match rx.recv_timeout(std::time::Duration::from_secs(120)) {
                    Ok(l) => {
                        if let Some(n) = l.strip_prefix("START ") {
                            started = n.trim().parse().ok();
                        } else if let Some(rest) = l.strip_prefix("DONE ") {
                            let (n, js) = rest.split_once(' ').unwrap_or((rest, "{}"));
                            let ji: usize = n.parse().unwrap_or(0);
                            done.insert(ji);
                            evaluations += 1;
                            let j: J = serde_json::from_str(js).unwrap_or(J::Null);
                            let v = j["verdict"].as_str().unwrap_or("?").to_string();
                            *verdicts.entry(v.clone()).or_insert(0) += 1;
                            let job = &part[ji.min(part.len() - 1)];
                            let fk = job.file.split('/').next().unwrap_or("?");
                            classes.insert(format!("{}/{}/{}", fk, ["truncate", "byte", "bit", "zeros"][job.kind.min(3) as usize], v));
                            if v == "wrong_data" || v == "panic" {
                                let n = reported.entry(format!("{}:{}", v, fk)).or_insert(0);
                                *n += 1;
                                if *n <= 2 {
                                    run.violation(
                                        &format!("[{}] store {} ({}), {} of {} at offset {}{}: {} ({})", v, si, store_cfg(seed).sig(), ["truncation", "byte flip", "bit flip", "zeroed range"][job.kind.min(3) as usize], job.file, job.at, if job.kind == 2 { format!(" bit {}", job.bit) } else { String::new() }, j["what"].as_str().unwrap_or(""), j["phase"].as_str().unwrap_or("")),
                                        json!({"engine": "c16", "store_seed": seed, "job": job_json(job)}),
                                    );
                                }
                            }
                        }
                    }
                    Err(std::sync::mpsc::RecvTimeoutError::Timeout) => {
                        hung = true;
                        let _ = ch.kill();
                        break;
                    }
                    Err(_) => break,
                }
            }
            let status = ch.wait().ok();
            let _ = th.join();
            if hung {
                let job = started.and_then(|s| part.get(s));
                run.inconclusive(&format!("store {}: verifier printed nothing for 120 s while working on {:?}; killed", si, job.map(job_json)));
            } else if done.len() < part.len() {
                // the shard died: the alteration it had started is the culprit
                let ji = started.unwrap_or(0);
                let job = &part[ji.min(part.len() - 1)];
                evaluations += 1;
                *verdicts.entry("process_died".into()).or_insert(0) += 1;
                let n = reported.entry("died".into()).or_insert(0);
                *n += 1;
                if *n <= 3 {
                    run.violation(
                        &format!("[process_died] store {}: the verifier process died ({:?}) while reading a copy with {} of {} at offset {}", si, status, ["truncation", "byte flip", "bit flip", "zeroed range"][job.kind.min(3) as usize], job.file, job.at),
                        json!({"engine": "c16", "store_seed": seed, "job": job_json(job)}),
                    );
                }
                // the rest of this shard's jobs was not evaluated
                run.inconclusive(&format!("store {}: {} alterations behind a dying verifier were not evaluated", si, part.len() - done.len() - 1));
            }
        }
    }
    run.cov("stores", json!(stores));
    run.cov("verdicts", json!(verdicts));
    run.cov("classes", json!(classes));
    run.assumptions = vec![
        "commit-log alterations are judged twice: in the (default) repairing recovery mode the state may be any commit prefix that keeps every record lying wholly before the alteration (property C12); in absolute-consistency mode - as for table and value-log files in any mode - only the originally written data or an error is accepted".into(),
        "value log read with VLogChecksumLevel::Full as the property requires; manifest files are not altered (the property names table, commit-log and value-log files)".into(),
        "quick tier: stratified sample of positions (first 48 and last 64 bytes of every file + 260 seeded positions; files up to 600 bytes exhaustively; table truncation every 11th offset); thorough tier: every byte position and every truncation offset".into(),
    ];
    let _ = std::fs::remove_dir_all(&root);
    run.finish(
        evaluations,
        classes.len() as u64,
        a.tier.pick(12, 16),
        "one evaluation = one altered copy of a database (one bit or one byte of one file changed, a range of 64 B .. 32 KiB of one file overwritten with zeros, or a table file cut) opened by the real code in a verifier subprocess: every key read, complete forward and backward scan, then flush + 3 compaction rounds and the same reads again; every read that succeeds must return the written data (for commit-log alterations: of an admissible commit prefix), anything else must be an error; a panic, a dead verifier process or wrong data is a violation, a silent verifier is killed after 120 s and counted inconclusive; distinct = distinct (file kind, alteration kind, outcome) triples",
        samples,
    )
}

fn unhex_plain(s: &str) -> Vec<u8> {
    (0..s.len() / 2).map(|i| u8::from_str_radix(&s[2 * i..2 * i + 2], 16).unwrap_or(0)).collect()
}

fn hex_plain(b: &[u8]) -> String {
    b.iter().map(|x| format!("{:02x}", x)).collect()
}

pub fn replay(j: &J) -> i32 {
    crate::panics::install();
    surrealkv::verif::set_manual_background(true);
    let root = crate::e1::scratch_root();
    let _ = std::fs::create_dir_all(&root);
    let seed = j["replay"]["store_seed"].as_u64().unwrap_or(0);
    let src = root.join("c16-src");
    let Ok(states) = build(seed, &src) else {
        println!("replay: build failed");
        return 2;
    };
    let states_file = root.join("states.json");
    let sj: Vec<J> = states.iter().map(|s| json!(s.iter().map(|(k, v)| json!([hex_plain(k), hex_plain(v)])).collect::<Vec<_>>())).collect();
    let _ = std::fs::write(&states_file, serde_json::to_vec(&sj).unwrap());
    let jf = root.join("jobs.json");
    let _ = std::fs::write(&jf, serde_json::to_vec(&vec![j["replay"]["job"].clone()]).unwrap());
    let exe = std::env::current_exe().unwrap();
    let out = Command::new(exe).arg("c16-shard").arg(&src).arg(&states_file).arg(&jf).arg(root.join("work")).arg(seed.to_string()).output();
    let _ = std::fs::remove_dir_all(&root);
    match out {
        Ok(o) => {
            let s = String::from_utf8_lossy(&o.stdout).to_string();
            println!("{}", s.trim());
            if !o.status.success() || s.contains("wrong_data") || s.contains("\"panic\"") || !s.contains("DONE") {
                1
            } else {
                println!("replay did not reproduce a violation");
                0
            }
        }
        Err(_) => 2,
    }
}
