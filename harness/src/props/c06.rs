//! C06 - flush, compaction, caching and reopen never change query answers.
use crate::campaign::{self, Campaign};
use crate::cfg::{VerMode, VlogMode};
use crate::e1::{ExecOpts, GenParams};
use crate::evidence::Run;
use crate::Args;
use serde_json::json;

pub fn campaign(a: &Args) -> Campaign {
    Campaign {
        histories: a.tier.pick(60, 5000),
        variants: a.tier.pick(6, 24),
        gen: GenParams { steps: 90, nkeys: 12, readers: false, cursors: false, reader_pending: false, reopen: true, delete_pct: 40, ..Default::default() },
        ver: VerMode::Off,
        vlog: VlogMode::Any,
        exec: ExecOpts { fresh_battery: true, ..Default::default() },
        tweak: |_c, _r| {},
        nontrivial: |s| s.compactions_changed > 0 && s.reads > 0,
        minimise_budget: 120,
    }
}

/// Versioned stores: the query battery also holds time-travel reads and history listings
/// (with and without timestamp ranges), interleaved with the plain point reads and scans - what
/// one kind of query leaves in a cache must not change what another kind answers.
pub fn campaign_versioned(a: &Args) -> Campaign {
    Campaign {
        histories: a.tier.pick(50, 2500),
        variants: a.tier.pick(4, 12),
        gen: GenParams {
            steps: 70,
            nkeys: 8,
            readers: true,
            max_readers: 2,
            cursors: false,
            reader_pending: false,
            reopen: true,
            explicit_ts: true,
            delete_pct: 30,
            placement_pct: 40,
            ..Default::default()
        },
        ver: VerMode::On,
        vlog: VlogMode::Any,
        exec: ExecOpts { fresh_battery: true, versioned: true, ..Default::default() },
        tweak: |c, r| {
            c.cache = *r.pick(&[4096, 1 << 20, 1 << 20]);
        },
        nontrivial: |s| s.compactions_changed > 0 && s.reads > 0 && s.hist_checks > 0,
        minimise_budget: 120,
    }
}

pub fn run(a: &Args) -> i32 {
    surrealkv::verif::set_manual_background(true);
    let mut run = Run::new("C06", a.tier, a.seed, "exploration");
    let c = campaign(a);
    let mut out = campaign::run_campaign(&c, a.seed, "c06");
    campaign::report_failures(&mut run, &out, &c.exec);
    {
        let cv = campaign_versioned(a);
        let outv = campaign::run_campaign(&cv, a.seed ^ 0x06, "c06v");
        campaign::report_failures(&mut run, &outv, &cv.exec);
        run.cov("observed_versioned_stores", campaign::stats_json(&outv.stats));
        out.evaluations += outv.evaluations;
        out.distinct.extend(outv.distinct.iter().cloned());
    }
    run.cov("observed", campaign::stats_json(&out.stats));
    run.cov("option_sets", json!(out.cfg_sigs.len()));
    run.cov("logical_histories", json!(c.histories));
    run.cov("placement_variants_per_history", json!(c.variants));
    run.assumptions = vec![
        "single driver thread; background tasks in manual mode so that the placement schedule is the generated one".into(),
        "reference model = sequential MVCC map; commit sequence numbers read back through the verif hook".into(),
    ];
    let floor = a.tier.pick(40, 400);
    run.finish(
        out.evaluations,
        out.distinct.len() as u64,
        floor,
        "one evaluation = one execution of a generated logical history under one placement schedule and option set, every query answer compared with the model after every step; non-trivial = at least one compaction round changed the table set and reads followed; distinct = distinct (option signature, set of level-shape signatures seen)",
        out.samples,
    )
}
