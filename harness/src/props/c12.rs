//! C12: commit log reads back as an exact prefix; repair keeps all valid records.
//!
//! Part A drives the real `Wal` / `Reader` / `repair_corrupted_wal_segment` through the H5
//! hooks: generated record-length sequences (0-length, 1 byte .. several blocks, lengths that
//! leave 0..7 bytes before a block boundary), session splits, optional compression; then EVERY
//! truncation offset and EVERY single-byte and single-bit damage position of small files, and
//! all positions around record / block boundaries plus sampled positions of large ones.
//! Part B does the same through a store: commits -> close -> alter the segment -> reopen in
//! both recovery modes -> commit -> reopen.

use crate::campaign::par_for;
use crate::cfg::Cfg;
use crate::evidence::Run;
use crate::model::hex;
use crate::rng::{prg_bytes, Rng};
use crate::Args;
use serde_json::{json, Value as J};
use std::collections::{BTreeMap, BTreeSet};
use std::path::{Path, PathBuf};
use std::sync::atomic::{AtomicU64, Ordering};
use std::sync::Mutex;
use surrealkv::verif::{verif_wal_read_segment, verif_wal_repair, VerifWal, VerifWalEnd};
use surrealkv::Mode;

const BLOCK: u64 = 32 * 1024;
const HEADER: u64 = 7;

#[derive(Clone, Debug)]
pub struct Case {
    pub seed: u64,
    pub lens: Vec<usize>,
    /// index of the first record of every session after the first
    pub session_starts: Vec<usize>,
    pub lz4: bool,
    pub exhaustive: bool,
}

#[derive(Clone, Copy, Debug, PartialEq)]
pub enum Alt {
    Truncate(u64),
    Byte(u64),
    Bit(u64, u8),
    /// a range overwritten with zeros (a lost write: whole block, part of a block, a few bytes)
    Zero(u64, u64),
}

impl Alt {
    fn pos(&self) -> u64 {
        match self {
            Alt::Truncate(t) => *t,
            Alt::Byte(p) | Alt::Bit(p, _) | Alt::Zero(p, _) => *p,
        }
    }
    fn to_json(self) -> J {
        match self {
            Alt::Truncate(t) => json!({"kind": "truncate", "at": t}),
            Alt::Byte(p) => json!({"kind": "byte", "at": p}),
            Alt::Bit(p, b) => json!({"kind": "bit", "at": p, "bit": b}),
            Alt::Zero(p, n) => json!({"kind": "zero", "at": p, "len": n}),
        }
    }
    fn from_json(j: &J) -> Alt {
        let at = j["at"].as_u64().unwrap_or(0);
        match j["kind"].as_str() {
            Some("truncate") => Alt::Truncate(at),
            Some("bit") => Alt::Bit(at, j["bit"].as_u64().unwrap_or(0) as u8),
            Some("zero") => Alt::Zero(at, j["len"].as_u64().unwrap_or(0)),
            _ => Alt::Byte(at),
        }
    }
    fn apply(&self, bytes: &mut Vec<u8>) {
        match self {
            Alt::Truncate(t) => bytes.truncate(*t as usize),
            Alt::Byte(p) => bytes[*p as usize] ^= 0xff,
            Alt::Bit(p, b) => bytes[*p as usize] ^= 1 << b,
            Alt::Zero(p, n) => {
                let end = ((*p + *n) as usize).min(bytes.len());
                bytes[(*p as usize).min(end)..end].iter_mut().for_each(|b| *b = 0);
            }
        }
    }
}

fn record(case_seed: u64, i: usize, len: usize) -> Vec<u8> {
    prg_bytes(case_seed, 12, i as u64, len)
}

/// position after appending a record of `len` bytes at file position `pos` (mirror of the
/// writer's framing, used only to aim record lengths at block boundaries)
fn advance(mut pos: u64, len: usize) -> u64 {
    let mut left = len as u64;
    loop {
        let rem = BLOCK - pos % BLOCK;
        if rem < HEADER {
            pos += rem;
            continue;
        }
        let take = left.min(rem - HEADER);
        pos += HEADER + take;
        left -= take;
        if left == 0 {
            return pos;
        }
    }
}

pub fn gen_case(seed: u64, exhaustive: bool) -> Case {
    let mut r = Rng::new(seed);
    let lz4 = r.chance(1, 4);
    let mut lens = vec![];
    let mut pos = 0u64;
    if exhaustive {
        // small file: every offset is swept
        for _ in 0..r.range(1, 7) {
            let l = *r.pick(&[0usize, 0, 1, 2, 7, 8, 30, 100, 300]);
            lens.push(l);
        }
    } else {
        for _ in 0..r.range(3, 14) {
            let l = match r.below(10) {
                0 => 0,
                1 => 1,
                2 | 3 => r.range(2, 600) as usize,
                4 | 5 | 6 => {
                    // leave 0..7 bytes (and a few more) before the block boundary
                    let rem = BLOCK - pos % BLOCK;
                    let leave = r.range(0, 9);
                    if rem >= HEADER + leave {
                        (rem - HEADER - leave) as usize
                    } else {
                        r.range(1, 50) as usize
                    }
                }
                7 => r.range(BLOCK - 20, BLOCK + 20) as usize,
                8 => r.range(BLOCK, 3 * BLOCK + 100) as usize,
                _ => r.range(600, 9000) as usize,
            };
            pos = advance(pos, l);
            lens.push(l);
        }
    }
    let mut session_starts = BTreeSet::new();
    for _ in 0..r.below(3) {
        if lens.len() > 1 {
            session_starts.insert(r.range(1, lens.len() as u64 - 1) as usize);
        }
    }
    Case { seed, lens, session_starts: session_starts.into_iter().collect(), lz4, exhaustive }
}

pub fn case_json(c: &Case) -> J {
    json!({"seed": c.seed, "lens": c.lens, "session_starts": c.session_starts, "lz4": c.lz4, "exhaustive": c.exhaustive})
}
pub fn case_from_json(j: &J) -> Case {
    Case {
        seed: j["seed"].as_u64().unwrap_or(0),
        lens: j["lens"].as_array().map(|a| a.iter().map(|x| x.as_u64().unwrap_or(0) as usize).collect()).unwrap_or_default(),
        session_starts: j["session_starts"].as_array().map(|a| a.iter().map(|x| x.as_u64().unwrap_or(0) as usize).collect()).unwrap_or_default(),
        lz4: j["lz4"].as_bool().unwrap_or(false),
        exhaustive: j["exhaustive"].as_bool().unwrap_or(false),
    }
}

fn segment_file(dir: &Path) -> Result<PathBuf, String> {
    let mut v: Vec<PathBuf> = std::fs::read_dir(dir).map_err(|e| e.to_string())?.flatten().map(|e| e.path()).filter(|p| p.extension().map(|x| x == "wal").unwrap_or(false)).collect();
    v.sort();
    match v.len() {
        1 => Ok(v.pop().unwrap()),
        n => Err(format!("{} segment files in {}", n, dir.display())),
    }
}

fn segment_id(p: &Path) -> usize {
    p.file_stem().and_then(|s| s.to_str()).and_then(|s| s.parse().ok()).unwrap_or(0)
}

/// Writes the case into `dir` (sessions = open / append / close). Returns the records.
fn write_case(c: &Case, dir: &Path) -> Result<Vec<Vec<u8>>, String> {
    let _ = std::fs::remove_dir_all(dir);
    std::fs::create_dir_all(dir).map_err(|e| e.to_string())?;
    let mut recs = vec![];
    let mut w = VerifWal::open(dir, 1 << 40, c.lz4).map_err(|e| format!("open: {e}"))?;
    for (i, l) in c.lens.iter().enumerate() {
        if c.session_starts.contains(&i) {
            w.close().map_err(|e| format!("close: {e}"))?;
            drop(w);
            w = VerifWal::open(dir, 1 << 40, c.lz4).map_err(|e| format!("reopen: {e}"))?;
        }
        let rec = record(c.seed, i, *l);
        match w.append(&rec) {
            Ok(_) => recs.push(rec),
            // the log refuses an empty payload with an error: nothing was appended
            Err(_) if *l == 0 => {}
            Err(e) => return Err(format!("append of record {i} ({l} bytes): {e}")),
        }
    }
    w.close().map_err(|e| format!("close: {e}"))?;
    Ok(recs)
}

pub struct Problem {
    pub class: &'static str,
    pub what: String,
    pub alt: Option<Alt>,
}

fn end_name(e: &VerifWalEnd) -> &'static str {
    match e {
        VerifWalEnd::Eof => "eof",
        VerifWalEnd::Corruption { .. } => "corruption",
        VerifWalEnd::Other(_) => "other",
    }
}

/// Checks one reading of an altered (or pristine) segment against the appended records.
fn check_read(recs: &[Vec<u8>], ends: &[u64], got: &[(Vec<u8>, u64)], must_have: usize, what: &str) -> Option<(&'static str, String)> {
    for (i, (g, _)) in got.iter().enumerate() {
        if i >= recs.len() {
            return Some(("garbage", format!("{what}: the reader returned {} records, only {} were appended (extra record of {} bytes)", got.len(), recs.len(), g.len())));
        }
        if *g != recs[i] {
            // is it another appended record (out of order) or garbage?
            let other = recs.iter().position(|r| r == g && !r.is_empty());
            return Some(match other {
                Some(j) => ("out_of_order", format!("{what}: record #{i} read back is appended record #{j} (a record was skipped)")),
                None => ("garbage", format!("{what}: record #{i} read back differs from what was appended ({} vs {} bytes)", g.len(), recs[i].len())),
            });
        }
    }
    if got.len() < must_have {
        return Some(("valid_record_lost", format!("{what}: {} records lie wholly before the alteration (ends {:?}) but only {} were read back", must_have, &ends[..must_have.min(ends.len())].iter().rev().take(2).collect::<Vec<_>>(), got.len())));
    }
    None
}

#[derive(Default)]
pub struct Counters {
    pub evaluations: AtomicU64,
    pub repairs: AtomicU64,
    pub appends_after: AtomicU64,
    pub ends: Mutex<BTreeMap<String, u64>>,
    pub classes: Mutex<BTreeSet<String>>,
}

fn pos_class(alt: &Alt, ends: &[u64], file_len: u64) -> String {
    let p = alt.pos();
    let kind = match alt {
        Alt::Truncate(_) => "trunc",
        Alt::Byte(_) => "byte",
        Alt::Bit(..) => "bit",
        Alt::Zero(_, n) => {
            if *n >= BLOCK {
                "zero_block"
            } else {
                "zero_range"
            }
        }
    };
    // offset inside the physical record that contains p (first fragment header = bytes 0..6)
    let rec_start = ends.iter().rev().find(|e| **e <= p).copied().unwrap_or(0);
    let in_rec = p - rec_start;
    let blk = p % BLOCK;
    let place = if p >= file_len.saturating_sub(0) && matches!(alt, Alt::Truncate(_)) {
        "at_end".to_string()
    } else if ends.contains(&p) {
        "record_boundary".to_string()
    } else if in_rec < 4 {
        "hdr_crc".to_string()
    } else if in_rec < 6 {
        "hdr_len".to_string()
    } else if in_rec == 6 {
        "hdr_type".to_string()
    } else if blk < HEADER && p >= BLOCK {
        format!("fragment_hdr{}", if blk < 4 { "_crc" } else if blk < 6 { "_len" } else { "_type" })
    } else if blk >= BLOCK - HEADER {
        "block_tail".to_string()
    } else {
        "payload".to_string()
    };
    format!("{kind}/{place}")
}

fn alterations(c: &Case, ends: &[u64], file_len: u64, r: &mut Rng, sample: usize) -> Vec<Alt> {
    let mut v = vec![];
    if c.exhaustive {
        for t in 0..=file_len {
            v.push(Alt::Truncate(t));
        }
        for p in 0..file_len {
            v.push(Alt::Byte(p));
            for b in 0..8 {
                v.push(Alt::Bit(p, b));
            }
        }
        return v;
    }
    let mut pos: BTreeSet<u64> = BTreeSet::new();
    let mut marks: Vec<u64> = ends.to_vec();
    marks.push(0);
    let mut b = BLOCK;
    while b < file_len + BLOCK {
        marks.push(b);
        b += BLOCK;
    }
    for m in marks {
        for d in 0..=9u64 {
            pos.insert(m.saturating_sub(d));
            pos.insert(m + d);
        }
    }
    for _ in 0..sample {
        pos.insert(r.below(file_len.max(1)));
    }
    // zeroed ranges: every whole block, the halves of every block, a few bytes around every
    // block and record boundary, and random ranges
    let mut b = 0;
    while b < file_len {
        v.push(Alt::Zero(b, BLOCK));
        v.push(Alt::Zero(b, BLOCK / 2));
        v.push(Alt::Zero(b + BLOCK / 2, BLOCK / 2));
        v.push(Alt::Zero(b, HEADER));
        if b >= 40 {
            v.push(Alt::Zero(b - 40, 80));
        }
        b += BLOCK;
    }
    for e in ends {
        v.push(Alt::Zero(*e, HEADER));
        v.push(Alt::Zero(e.saturating_sub(3), 10));
    }
    for _ in 0..sample / 4 {
        let p = r.below(file_len.max(1));
        v.push(Alt::Zero(p, *r.pick(&[1u64, 7, 64, 300, 5000])));
    }
    v.retain(|a| a.pos() < file_len);
    for p in pos {
        if p <= file_len {
            v.push(Alt::Truncate(p));
        }
        if p < file_len {
            v.push(Alt::Byte(p));
            v.push(Alt::Bit(p, r.below(8) as u8));
            if r.chance(1, 3) {
                v.push(Alt::Bit(p, r.below(8) as u8));
            }
        }
    }
    v
}

/// Runs one case: pristine round trip, then every alteration. `only` restricts to one alteration.
pub fn run_case(c: &Case, root: &Path, cnt: &Counters, sample: usize, repair_every: u64, only: Option<Alt>) -> Vec<Problem> {
    let mut problems = vec![];
    let dir = root.join(format!("c12-{:x}", c.seed));
    let recs = match write_case(c, &dir) {
        Ok(r) => r,
        Err(e) => {
            problems.push(Problem { class: "append_failed", what: format!("writing the records failed: {e}"), alt: None });
            let _ = std::fs::remove_dir_all(&dir);
            return problems;
        }
    };
    let seg = match segment_file(&dir) {
        Ok(s) => s,
        Err(e) => {
            problems.push(Problem { class: "harness", what: e, alt: None });
            let _ = std::fs::remove_dir_all(&dir);
            return problems;
        }
    };
    let seg_name = seg.file_name().unwrap().to_owned();
    let pristine = std::fs::read(&seg).unwrap_or_default();
    // round trip
    let (got, end) = match verif_wal_read_segment(&seg) {
        Ok(x) => x,
        Err(e) => {
            problems.push(Problem { class: "roundtrip", what: format!("reading the pristine segment failed: {e}"), alt: None });
            let _ = std::fs::remove_dir_all(&dir);
            return problems;
        }
    };
    cnt.evaluations.fetch_add(1, Ordering::Relaxed);
    if got.len() != recs.len() || end != VerifWalEnd::Eof {
        problems.push(Problem {
            class: "roundtrip",
            what: format!("{} records appended over {} sessions (lz4 {}), {} read back, reading ended with {:?}", recs.len(), c.session_starts.len() + 1, c.lz4, got.len(), end),
            alt: None,
        });
    }
    let ends: Vec<u64> = got.iter().map(|g| g.1).collect();
    if let Some((cl, w)) = check_read(&recs, &ends, &got, recs.len().min(got.len()), "pristine segment") {
        problems.push(Problem { class: cl, what: w, alt: None });
    }
    if !problems.is_empty() {
        let _ = std::fs::remove_dir_all(&dir);
        return problems;
    }
    let file_len = pristine.len() as u64;
    let mut r = Rng::new(c.seed ^ 0xa17);
    let alts = match only {
        Some(a) => vec![a],
        None => alterations(c, &ends, file_len, &mut r, sample),
    };
    let work = dir.join("alt");
    let mut n = 0u64;
    for alt in alts {
        n += 1;
        let mut bytes = pristine.clone();
        alt.apply(&mut bytes);
        let _ = std::fs::remove_dir_all(&work);
        let _ = std::fs::create_dir_all(&work);
        let f = work.join(&seg_name);
        if std::fs::write(&f, &bytes).is_err() {
            continue;
        }
        let must_have = ends.iter().filter(|e| **e <= alt.pos()).count();
        let what = format!("{:?} of a {}-byte segment holding {} records (ends {:?}{})", alt, file_len, recs.len(), &ends[..ends.len().min(6)], if ends.len() > 6 { ", .." } else { "" });
        let res = std::panic::catch_unwind(|| verif_wal_read_segment(&f));
        cnt.evaluations.fetch_add(1, Ordering::Relaxed);
        cnt.classes.lock().unwrap().insert(pos_class(&alt, &ends, file_len));
        let (got, end) = match res {
            Err(_) => {
                problems.push(Problem { class: "panic", what: format!("{what}: the reader panicked: {}", crate::panics::take_last()), alt: Some(alt) });
                continue;
            }
            Ok(Err(e)) => {
                problems.push(Problem { class: "harness", what: format!("{what}: cannot open the altered file: {e}"), alt: Some(alt) });
                continue;
            }
            Ok(Ok(x)) => x,
        };
        *cnt.ends.lock().unwrap().entry(end_name(&end).to_string()).or_insert(0) += 1;
        if let Some((cl, w)) = check_read(&recs, &ends, &got, must_have, &what) {
            problems.push(Problem { class: cl, what: w, alt: Some(alt) });
            continue;
        }
        // repair + append + read again (every `repair_every`-th alteration, and always when replaying)
        if only.is_some() || n % repair_every == 0 {
            let prefix_before = got.len();
            if matches!(end, VerifWalEnd::Corruption { .. }) {
                let rr = std::panic::catch_unwind(|| verif_wal_repair(&work, segment_id(&f)));
                cnt.repairs.fetch_add(1, Ordering::Relaxed);
                match rr {
                    Err(_) => {
                        problems.push(Problem { class: "panic", what: format!("{what}: repair panicked: {}", crate::panics::take_last()), alt: Some(alt) });
                        continue;
                    }
                    Ok(Err(e)) => {
                        problems.push(Problem { class: "repair_failed", what: format!("{what}: repair failed: {e}"), alt: Some(alt) });
                        continue;
                    }
                    Ok(Ok(())) => {}
                }
                // a segment without any valid record is removed by repair: that is the empty prefix
                let reread = if f.exists() { verif_wal_read_segment(&f) } else { Ok((vec![], VerifWalEnd::Eof)) };
                match reread {
                    Ok((g2, e2)) => {
                        if let Some((cl, w)) = check_read(&recs, &ends, &g2, must_have, &format!("{what}, after repair")) {
                            problems.push(Problem { class: cl, what: w, alt: Some(alt) });
                            continue;
                        }
                        if e2 != VerifWalEnd::Eof {
                            problems.push(Problem { class: "repair_left_damage", what: format!("{what}: after repair reading still ends with {:?}", e2), alt: Some(alt) });
                            continue;
                        }
                        if g2.len() != prefix_before {
                            problems.push(Problem { class: "repair_changed_prefix", what: format!("{what}: {} records were readable before repair, {} after", prefix_before, g2.len()), alt: Some(alt) });
                            continue;
                        }
                    }
                    Err(e) => {
                        problems.push(Problem { class: "repair_failed", what: format!("{what}: segment unreadable after repair: {e}"), alt: Some(alt) });
                        continue;
                    }
                }
            }
            // records appended after opening (a clean-EOF or repaired segment) are read back
            // three shapes of the appending session: two small records, one record longer than
            // a block, enough records to cross the next block boundary
            let appended: Vec<Vec<u8>> = match n % 3 {
                0 => (0..2).map(|k| record(c.seed ^ 0x77, 1000 + k, if k == 0 { 5 } else { 700 })).collect(),
                1 => vec![record(c.seed ^ 0x77, 1000, 5), record(c.seed ^ 0x77, 1001, 40_000)],
                _ => (0..50).map(|k| record(c.seed ^ 0x77, 1000 + k, 700)).collect(),
            };
            let na = appended.len();
            let ar = std::panic::catch_unwind(|| -> Result<(), String> {
                let mut w = VerifWal::open(&work, 1 << 40, c.lz4).map_err(|e| format!("open: {e}"))?;
                for a in &appended {
                    w.append(a).map_err(|e| format!("append: {e}"))?;
                }
                w.close().map_err(|e| format!("close: {e}"))
            });
            cnt.appends_after.fetch_add(1, Ordering::Relaxed);
            match ar {
                Err(_) => {
                    problems.push(Problem { class: "panic", what: format!("{what}: open/append after the alteration panicked: {}", crate::panics::take_last()), alt: Some(alt) });
                    continue;
                }
                Ok(Err(e)) => {
                    // a directory whose tail is damaged but not yet repaired may refuse appends; the
                    // store repairs before it appends, so only the repaired / clean-EOF cases count
                    if !matches!(end, VerifWalEnd::Other(_)) {
                        problems.push(Problem { class: "append_after_failed", what: format!("{what}: open + append failed: {e}"), alt: Some(alt) });
                    }
                    continue;
                }
                Ok(Ok(())) => {}
            }
            // the directory may now hold one or two segments; read them in order
            let mut segs: Vec<PathBuf> = std::fs::read_dir(&work).map(|rd| rd.flatten().map(|e| e.path()).filter(|p| p.extension().map(|x| x == "wal").unwrap_or(false)).collect()).unwrap_or_default();
            segs.sort();
            let mut all: Vec<Vec<u8>> = vec![];
            let mut last_end = VerifWalEnd::Eof;
            for s in &segs {
                if let Ok((g, e)) = verif_wal_read_segment(s) {
                    all.extend(g.into_iter().map(|x| x.0));
                    last_end = e;
                }
            }
            let tail_ok = all.len() >= na && all[all.len() - na..] == appended[..];
            // whatever the segment looked like (clean end, torn tail read as end-of-log, or
            // repaired), a session that opened it and appended must find its records again
            let clean_tail = !matches!(end, VerifWalEnd::Other(_));
            if clean_tail && (!tail_ok || last_end != VerifWalEnd::Eof || all.len() != prefix_before + na) {
                problems.push(Problem {
                    class: "appended_after_lost",
                    what: format!("{what}: {} records readable, then {} records appended in a new session; reading now yields {} records, ends with {:?}, appended records at the tail: {}", prefix_before, na, all.len(), last_end, tail_ok),
                    alt: Some(alt),
                });
            }
        }
        if problems.len() >= 6 {
            break;
        }
    }
    let _ = std::fs::remove_dir_all(&dir);
    problems
}

// ---------------------------------------------------------------------------------------
// Part B: through the store
// ---------------------------------------------------------------------------------------

fn store_value(seed: u64, i: usize) -> Vec<u8> {
    let mut r = Rng::new(seed ^ (i as u64).wrapping_mul(0x9E37));
    let len = match r.below(8) {
        0 => 0,
        1 => 1,
        2 | 3 | 4 => r.range(2, 400) as usize,
        5 => r.range(30_000, 34_000) as usize,
        6 => r.range(66_000, 70_000) as usize,
        _ => r.range(400, 5000) as usize,
    };
    let mut v = (i as u64).to_be_bytes().to_vec();
    v.extend(prg_bytes(seed, 13, i as u64, len));
    v
}

async fn scan_store(t: &surrealkv::Tree) -> Result<BTreeMap<Vec<u8>, Vec<u8>>, String> {
    crate::e2::scan_all(t).map_err(|e| format!("scan: {e}"))
}

fn expect_prefix(seed: u64, n: usize) -> BTreeMap<Vec<u8>, Vec<u8>> {
    let mut m = BTreeMap::new();
    for i in 0..n {
        m.insert(format!("k{:04}", i).into_bytes(), store_value(seed, i));
        m.insert(b"shared".to_vec(), store_value(seed, i));
        if i % 3 == 2 {
            m.remove(format!("k{:04}", i - 1).as_bytes());
        }
    }
    m
}

/// which prefix (number of commits) does this state equal, if any
fn which_prefix(seed: u64, total: usize, got: &BTreeMap<Vec<u8>, Vec<u8>>) -> Option<usize> {
    (0..=total).find(|n| expect_prefix(seed, *n) == *got)
}

pub fn run_store_case(seed: u64, root: &Path, cnt: &Counters, sample: usize) -> Vec<Problem> {
    let mut problems = vec![];
    let base = root.join(format!("c12s-{:x}", seed));
    let _ = std::fs::remove_dir_all(&base);
    let src = base.join("src");
    let mut r = Rng::new(seed);
    let total = r.range(4, 12) as usize;
    let cfg = Cfg { flush_on_close: false, max_memtable_size: 8 << 20, ..Cfg::default() };
    let rt = tokio::runtime::Builder::new_current_thread().enable_all().build().unwrap();
    let built: Result<(), String> = rt.block_on(async {
        let t = cfg.open(&src).map_err(|e| format!("open: {e}"))?;
        for i in 0..total {
            let mut tx = t.begin_with_mode(Mode::WriteOnly).map_err(|e| e.to_string())?;
            tx.set(format!("k{:04}", i).as_bytes(), &store_value(seed, i)).map_err(|e| e.to_string())?;
            tx.set(&b"shared"[..], &store_value(seed, i)).map_err(|e| e.to_string())?;
            if i % 3 == 2 {
                tx.delete(format!("k{:04}", i - 1).as_bytes()).map_err(|e| e.to_string())?;
            }
            tx.commit().await.map_err(|e| format!("commit {i}: {e}"))?;
        }
        crate::e2::close_tree(t).await;
        Ok(())
    });
    if let Err(e) = built {
        problems.push(Problem { class: "harness", what: format!("building the store failed: {e}"), alt: None });
        let _ = std::fs::remove_dir_all(&base);
        return problems;
    }
    let seg = match segment_file(&src.join("wal")) {
        Ok(s) => s,
        Err(e) => {
            problems.push(Problem { class: "harness", what: e, alt: None });
            let _ = std::fs::remove_dir_all(&base);
            return problems;
        }
    };
    let pristine = std::fs::read(&seg).unwrap_or_default();
    let Ok((recs, _)) = verif_wal_read_segment(&seg) else {
        let _ = std::fs::remove_dir_all(&base);
        return problems;
    };
    let ends: Vec<u64> = recs.iter().map(|x| x.1).collect();
    if ends.len() != total {
        problems.push(Problem { class: "harness", what: format!("{} commits but {} log records", total, ends.len()), alt: None });
        let _ = std::fs::remove_dir_all(&base);
        return problems;
    }
    let file_len = pristine.len() as u64;
    let c = Case { seed, lens: vec![], session_starts: vec![], lz4: false, exhaustive: false };
    let alts = alterations(&c, &ends, file_len, &mut r, sample);
    // keep the store part affordable: all boundary-adjacent truncations + a sample of the rest
    let alts: Vec<Alt> = alts.into_iter().filter(|a| matches!(a, Alt::Truncate(t) if ends.contains(t)) || r.chance(1, 6)).collect();
    for alt in alts {
        let mut bytes = pristine.clone();
        alt.apply(&mut bytes);
        let must_have = ends.iter().filter(|e| **e <= alt.pos()).count();
        let what = format!("{} commits, then {:?} of the {}-byte segment (record ends {:?})", total, alt, file_len, ends);
        // what does the component reader say about this image?
        let probe = base.join("probe.wal");
        let _ = std::fs::write(&probe, &bytes);
        let detected = matches!(verif_wal_read_segment(&probe), Ok((_, VerifWalEnd::Corruption { .. })));
        for absolute in [false, true] {
            let work = base.join("work");
            let _ = std::fs::remove_dir_all(&work);
            if copy_dir(&src, &work).is_err() {
                continue;
            }
            let _ = std::fs::remove_file(work.join("LOCK"));
            let _ = std::fs::write(work.join("wal").join(seg.file_name().unwrap()), &bytes);
            let cfg2 = Cfg { absolute_consistency: absolute, ..cfg.clone() };
            cnt.evaluations.fetch_add(1, Ordering::Relaxed);
            cnt.classes.lock().unwrap().insert(format!("store{}/{}", if absolute { "-absolute" } else { "" }, pos_class(&alt, &ends, file_len)));
            let res = std::panic::catch_unwind(std::panic::AssertUnwindSafe(|| {
                rt.block_on(async {
                    let t = match cfg2.open(&work) {
                        Ok(t) => t,
                        Err(e) => return Ok::<_, String>(Err(e.to_string())),
                    };
                    let st = scan_store(&t).await?;
                    // a commit made now must be there after the next reopen
                    let mut tx = t.begin_with_mode(Mode::WriteOnly).map_err(|e| e.to_string())?;
                    tx.set(&b"zz-after"[..], &b"x"[..]).map_err(|e| e.to_string())?;
                    let cr = tx.commit().await.map_err(|e| e.to_string());
                    crate::e2::close_tree(t).await;
                    let t2 = cfg2.open(&work).map_err(|e| format!("second open: {e}"))?;
                    let st2 = scan_store(&t2).await?;
                    crate::e2::close_tree(t2).await;
                    Ok(Ok((st, cr, st2)))
                })
            }));
            match res {
                Err(_) => problems.push(Problem { class: "panic", what: format!("{what}: open/scan/commit panicked (absolute consistency {}): {}", absolute, crate::panics::take_last()), alt: Some(alt) }),
                Ok(Err(e)) => problems.push(Problem { class: "store_recovery", what: format!("{what}: {e} (absolute consistency {})", absolute), alt: Some(alt) }),
                Ok(Ok(Err(e))) => {
                    if !(absolute && detected) {
                        problems.push(Problem { class: "store_open_failed", what: format!("{what}: open failed in {} mode: {e}", if absolute { "absolute-consistency (no damage detected by the reader)" } else { "tolerant" }), alt: Some(alt) });
                    }
                }
                Ok(Ok(Ok((st, cr, st2)))) => {
                    if absolute && detected {
                        problems.push(Problem { class: "absolute_mode_opened", what: format!("{what}: the reader reports corruption, yet the store opened in absolute-consistency mode"), alt: Some(alt) });
                        continue;
                    }
                    // a byte or bit changed inside the segment (no cut, no zeroed tail) that makes
                    // commits disappear is damage the checksums see: in absolute-consistency
                    // mode the store may not open with less than everything
                    if absolute && matches!(alt, Alt::Byte(_) | Alt::Bit(..)) {
                        if let Some(n) = which_prefix(seed, total, &st) {
                            if n < total {
                                problems.push(Problem { class: "absolute_mode_lost_commits", what: format!("{what}: opened in absolute-consistency mode without an error, with {} of {} commits", n, total), alt: Some(alt) });
                                continue;
                            }
                        }
                    }
                    match which_prefix(seed, total, &st) {
                        None => problems.push(Problem { class: "store_not_prefix", what: format!("{what}: the recovered state ({} keys) is not the state after any prefix of the commits", st.len()), alt: Some(alt) }),
                        Some(n) if n < must_have => problems.push(Problem { class: "valid_record_lost", what: format!("{what}: {} commits lie wholly before the alteration, the recovered state holds {}", must_have, n), alt: Some(alt) }),
                        Some(n) => {
                            if let Err(e) = cr {
                                problems.push(Problem { class: "store_commit_after", what: format!("{what}: commit after recovery failed: {e}"), alt: Some(alt) });
                            } else {
                                let mut exp = expect_prefix(seed, n);
                                exp.insert(b"zz-after".to_vec(), b"x".to_vec());
                                if st2 != exp {
                                    problems.push(Problem { class: "appended_after_lost", what: format!("{what}: recovered {} commits, committed one more, closed; after reopen the state has {} keys, expected {} ({}present: zz-after)", n, st2.len(), exp.len(), if st2.contains_key(&b"zz-after"[..]) { "" } else { "not " }), alt: Some(alt) });
                                }
                            }
                        }
                    }
                }
            }
            let _ = std::fs::remove_dir_all(&work);
        }
        if problems.len() >= 4 {
            break;
        }
    }
    let _ = hex(&[]);
    let _ = std::fs::remove_dir_all(&base);
    problems
}

pub fn copy_dir(src: &Path, dst: &Path) -> std::io::Result<()> {
    std::fs::create_dir_all(dst)?;
    for e in std::fs::read_dir(src)? {
        let e = e?;
        let to = dst.join(e.file_name());
        if e.file_type()?.is_dir() {
            copy_dir(&e.path(), &to)?;
        } else {
            std::fs::copy(e.path(), &to)?;
        }
    }
    Ok(())
}

pub fn run(a: &Args) -> i32 {
    surrealkv::verif::set_manual_background(true);
    crate::panics::install();
    let mut run = Run::new("C12", a.tier, a.seed, "fault_enumeration");
    crate::scenarios::run_for(&mut run, "C12");
    let root = crate::e1::scratch_root();
    let _ = std::fs::create_dir_all(&root);
    let cnt = Counters::default();
    let small = a.tier.pick(40, 2000);
    let large = a.tier.pick(16, 600);
    let stores = a.tier.pick(8, 200);
    let sample = a.tier.pick(60, 400);
    let found: Mutex<Vec<(J, Problem)>> = Mutex::new(vec![]);
    let samples: Mutex<Vec<J>> = Mutex::new(vec![]);
    par_for(small + large, |i| {
        let seed = a.seed.wrapping_mul(0x2545_F491_4F6C_DD1D).wrapping_add(i as u64 * 7919 + 3);
        let c = gen_case(seed, i < small);
        let ps = run_case(&c, &root, &cnt, sample, if c.exhaustive { 37 } else { 5 }, None);
        if i % 16 == 0 {
            samples.lock().unwrap().push(json!({"case": case_json(&c), "problems": ps.len()}));
        }
        let mut f = found.lock().unwrap();
        for p in ps {
            f.push((json!({"engine": "c12", "part": "component", "case": case_json(&c), "alteration": p.alt.map(|x| x.to_json())}), p));
        }
    });
    par_for(stores, |i| {
        let seed = a.seed.wrapping_mul(0x2545_F491_4F6C_DD1D).wrapping_add(i as u64 * 104_723 + 11);
        let ps = run_store_case(seed, &root, &cnt, sample / 4);
        let mut f = found.lock().unwrap();
        for p in ps {
            f.push((json!({"engine": "c12", "part": "store", "seed": seed, "alteration": p.alt.map(|x| x.to_json())}), p));
        }
    });
    let found = found.into_inner().unwrap();
    let mut reported: BTreeMap<&'static str, usize> = BTreeMap::new();
    for (rep, p) in &found {
        let n = reported.entry(p.class).or_insert(0);
        *n += 1;
        if *n <= 3 {
            run.violation(&format!("[{}] {}", p.class, p.what), rep.clone());
        }
    }
    let classes = cnt.classes.lock().unwrap().clone();
    run.cov("cases_small_exhaustive", json!(small));
    run.cov("cases_large_targeted", json!(large));
    run.cov("store_cases", json!(stores));
    run.cov("repairs", json!(cnt.repairs.load(Ordering::Relaxed)));
    run.cov("append_sessions_after_alteration", json!(cnt.appends_after.load(Ordering::Relaxed)));
    run.cov("read_endings", json!(*cnt.ends.lock().unwrap()));
    run.cov("alteration_classes", json!(classes));
    run.cov("problem_classes", json!(reported));
    run.assumptions = vec![
        "the component part drives the crate-private Wal / Reader / repair_corrupted_wal_segment through the H5 hooks (thin wrappers, no logic)".into(),
        "small files (< 2 KiB) are swept exhaustively (every truncation offset, every byte, every bit); files that span blocks are swept at every offset within 9 bytes of a record end or block boundary plus a seeded sample".into(),
        "'wholly before the damage' is decided on the record end offsets the reader reports for the pristine file".into(),
    ];
    let _ = std::fs::remove_dir_all(&root);
    run.finish(
        cnt.evaluations.load(Ordering::Relaxed),
        classes.len() as u64,
        a.tier.pick(20, 30),
        "one evaluation = one reading (by the real Reader, or by a store reopened in one recovery mode) of one altered copy of a segment; checked: records returned are byte-identical to a prefix of the appended ones, every record ending at or before the alteration is among them, reading ends with end-of-log or a corruption report, no panic; every 5th (37th for exhaustive files) alteration is also repaired, re-read, appended to in a new session and read again; store part: state after open equals a commit prefix, absolute-consistency mode fails exactly when the reader reports corruption, a commit after recovery survives another reopen; distinct = distinct (alteration kind, position class) pairs exercised",
        samples.into_inner().unwrap(),
    )
}

pub fn replay(j: &J) -> i32 {
    crate::panics::install();
    surrealkv::verif::set_manual_background(true);
    let root = crate::e1::scratch_root();
    let _ = std::fs::create_dir_all(&root);
    let cnt = Counters::default();
    let rep = &j["replay"];
    let ps = if rep["part"].as_str() == Some("store") {
        run_store_case(rep["seed"].as_u64().unwrap_or(0), &root, &cnt, 100)
    } else {
        let c = case_from_json(&rep["case"]);
        let alt = if rep["alteration"].is_null() { None } else { Some(Alt::from_json(&rep["alteration"])) };
        run_case(&c, &root, &cnt, 0, 1, alt)
    };
    let _ = std::fs::remove_dir_all(&root);
    if ps.is_empty() {
        println!("replay did not reproduce a violation");
        0
    } else {
        for p in &ps {
            println!("  reproduced: [{}] {}", p.class, p.what);
        }
        1
    }
}
