//! C03 - crash recovery is atomic and prefix-consistent.
use crate::evidence::Run;
use crate::Args;

pub fn run(a: &Args) -> i32 {
    let mut run = Run::new("C03", a.tier, a.seed, "fault_enumeration");
    crate::scenarios::run_for(&mut run, "C03");
    crate::matrix::run_for(&mut run, "C03");
    let (ev, dn, samples) = crate::props::crash::run_part(&mut run, a, "C03");
    run.assumptions = vec![
        "same traces and image plans as C02; the verdict here is: the recovered key/value state equals the model state after some prefix of the commit order (whole transactions, no gaps, nothing resurrected)".into(),
    ];
    run.finish(
        ev,
        dn,
        a.tier.pick(40, 200),
        "one evaluation = one synthesised crash image opened by the real code and compared, key by key with self-identifying values, against every prefix of the commit order; non-trivial = at least one acknowledged transaction before the crash point; distinct as for C02",
        samples,
    )
}
