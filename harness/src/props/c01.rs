//! C01 - transactions read from a stable snapshot.
use crate::campaign::{self, Campaign};
use crate::cfg::{VerMode, VlogMode};
use crate::e1::{ExecOpts, GenParams};
use crate::evidence::Run;
use crate::Args;
use serde_json::json;

pub fn campaign(a: &Args) -> Campaign {
    Campaign {
        histories: a.tier.pick(400, 6000),
        variants: a.tier.pick(3, 6),
        gen: GenParams {
            steps: 120,
            nkeys: 10,
            max_readers: 6,
            readers: true,
            cursors: true,
            reader_pending: true,
            reopen: false,
            delete_pct: 45,
            placement_pct: 40,
            ..Default::default()
        },
        ver: VerMode::Any,
        vlog: VlogMode::Any,
        // versioned: on stores with versioning (unlimited retention, no version index) the open
        // readers also run time-travel reads and history listings at their horizon
        exec: ExecOpts { fresh_battery: false, readers_after_placement: true, versioned: true, ..Default::default() },
        tweak: |c, r| {
            // small level counts make bottom-level tombstone handling frequent
            if r.chance(1, 2) {
                c.level_count = r.range(1, 3) as u8;
            }
        },
        nontrivial: |s| s.compactions_changed > 0 && s.reader_reads_after_placement > 0,
        minimise_budget: 150,
    }
}

pub fn run(a: &Args) -> i32 {
    surrealkv::verif::set_manual_background(true);
    let mut run = Run::new("C01", a.tier, a.seed, "exploration");
    crate::scenarios::run_for(&mut run, "C01");
    crate::matrix::run_for(&mut run, "C01");
    let c = campaign(a);
    let out = campaign::run_campaign(&c, a.seed, "c01");
    campaign::report_failures(&mut run, &out, &c.exec);
    run.cov("observed", campaign::stats_json(&out.stats));
    run.cov("option_sets", json!(out.cfg_sigs.len()));
    // concurrent part (E3): begin racing with commits, flushes and compaction rounds issued by a
    // maintenance task, seeded delays at the txn.begin.* / compact.* / flush.* yield points
    let o = crate::props::conc::run_conc(&mut run, a, "C01", a.tier.pick(60, 800), 4);
    run.cov("concurrent_histories", json!(o.histories));
    run.cov("concurrent_totals", json!(o.totals));
    run.cov("concurrent_distinct_interleaving_signatures", json!(o.sigs.len()));
    run.cov("concurrent_yield_point_hits", json!(o.point_hits));
    run.assumptions = vec![
        "E1 part: single driver thread; the begin/commit/compaction thread-interleaving axis is covered by the concurrent part (E3: sampled schedules with seeded delays, not all interleavings)".into(),
        "reader horizon read through Transaction::verif_start_seq".into(),
    ];
    let floor = a.tier.pick(100, 1000);
    run.finish(
        out.evaluations,
        out.distinct.len() as u64,
        floor,
        "one evaluation = one generated history with up to 6 overlapping long-lived readers (some sharing a start point, some with pending writes, some holding a range cursor) executed with rotate/flush/compaction steps in between; every get / scan element / cursor step of every open reader compared with the model at that reader's horizon; non-trivial = a reader was read after at least one later compaction changed the table set; distinct = distinct (option signature, level-shape signature set)",
        out.samples,
    )
}
