//! C11 - separated large values stay intact and reachable.
use crate::campaign::{self, Campaign};
use crate::cfg::{VerMode, VlogMode};
use crate::e1::{ExecOpts, GenParams};
use crate::evidence::Run;
use crate::Args;
use serde_json::json;

pub fn campaign(a: &Args) -> Campaign {
    Campaign {
        histories: a.tier.pick(150, 2500),
        variants: a.tier.pick(4, 8),
        gen: GenParams {
            steps: 110,
            nkeys: 10,
            max_readers: 4,
            readers: true,
            cursors: true,
            reader_pending: false,
            reopen: true,
            delete_pct: 35,
            placement_pct: 45,
            big_values: true,
            huge_values: true,
            ..Default::default()
        },
        ver: VerMode::Any,
        vlog: VlogMode::On,
        exec: ExecOpts { fresh_battery: true, readers_after_placement: true, vlog_invariant: true, versioned: true, ..Default::default() },
        tweak: |c, r| {
            c.max_memtable_size = 4 << 20;
            c.vlog_max_file = *r.pick(&[256, 1024, 4096, 200_000]);
            if !c.versioning {
                c.vlog_threshold = *r.pick(&[0, 16, 64]);
            }
        },
        nontrivial: |s| s.compactions_changed > 0 && s.vlog_invariant_checks > 0,
        minimise_budget: 120,
    }
}

pub fn run(a: &Args) -> i32 {
    surrealkv::verif::set_manual_background(true);
    let mut run = Run::new("C11", a.tier, a.seed, "exploration");
    crate::scenarios::run_for(&mut run, "C11");
    crate::matrix::run_for(&mut run, "C11");
    let c = campaign(a);
    let out = campaign::run_campaign(&c, a.seed, "c11");
    campaign::report_failures(&mut run, &out, &c.exec);
    run.cov("observed", campaign::stats_json(&out.stats));
    run.cov("option_sets", json!(out.cfg_sigs.len()));
    // crash clause: traced runs with the value log on, every crash image, values read back
    let crash = crate::props::crash::run_part_with(&mut run, a, "C11", VlogMode::On);
    run.assumptions = vec![
        "live part: every value read by fresh transactions, by readers opened before flush/compaction/clean-up and by cursors is compared byte for byte with the self-identifying value that was written; after each placement step every value-log file between the oldest one a live table points into and the newest must exist".into(),
        "crash part: the crash-image engine with the value log always on; a value that cannot be read after recovery is attributed to this property".into(),
    ];
    let mut samples = out.samples.clone();
    samples.extend(crash.2);
    run.finish(
        out.evaluations + crash.0,
        out.distinct.len() as u64 + crash.1,
        a.tier.pick(100, 1000),
        "live part: one evaluation = one generated history (value sizes 0, 1, threshold-1, threshold, threshold+1, multi-block, 80 KiB; value-log files of 256 B..200 KB so that rotation happens inside one flush) under one placement schedule; non-trivial = a compaction changed the table set and the file invariant was checked; crash part: one evaluation = one crash image",
        samples,
    )
}
