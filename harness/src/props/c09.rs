//! C09 - range cursors enumerate exactly the live keys, in order, in both directions.
//! Layouts come from E1 placement primitives; on each layout ALL cursor programs up to a
//! length bound are enumerated for several bound shapes and compared with a cursor over the
//! model's sorted list of live keys.
use crate::campaign::par_for;
use crate::cfg::{Cfg, VerMode, VlogMode};
use crate::e1::{self, CurOp, Exec, ExecOpts, GenParams, Generator, Step, Violation, HI_ALL, LO_ALL};
use crate::evidence::Run;
use crate::model::{hex, Kind, WriteOp};
use crate::rng::Rng;
use crate::Args;
use serde_json::{json, Value as J};
use std::collections::{BTreeMap, BTreeSet};
use std::sync::Mutex;
use surrealkv::{LSMIterator, Mode, ReadOptions, Transaction};

type Bounds = (Option<Vec<u8>>, Option<Vec<u8>>);

struct Agg {
    layouts: u64,
    programs: u64,
    cursor_ops: u64,
    reversals: u64,
    bound_shapes: BTreeSet<String>,
    distinct: BTreeSet<String>,
    shapes: BTreeSet<String>,
    failures: Vec<J>,
    fail_what: Vec<String>,
    samples: Vec<J>,
    exhaustive_len: usize,
}

fn run_program(
    txn: &Transaction,
    b: &Bounds,
    list: &[(Vec<u8>, Vec<u8>)],
    prog: &[CurOp],
) -> Result<(u64, u64), String> {
    let mut ro = ReadOptions::new();
    ro.set_iterate_lower_bound(b.0.clone());
    ro.set_iterate_upper_bound(b.1.clone());
    let mut it = txn.range_with_options(&ro).map_err(|e| format!("range_with_options failed: {e}"))?;
    let mut pos: Option<usize> = None;
    let mut last_dir = 0i8;
    let mut reversals = 0u64;
    for (i, op) in prog.iter().enumerate() {
        let res = match op {
            CurOp::SeekFirst => {
                pos = if list.is_empty() { None } else { Some(0) };
                last_dir = 1;
                it.seek_first()
            }
            CurOp::SeekLast => {
                pos = if list.is_empty() { None } else { Some(list.len() - 1) };
                last_dir = -1;
                it.seek_last()
            }
            CurOp::Seek(k) => {
                let p = list.partition_point(|(lk, _)| lk < k);
                pos = if p < list.len() { Some(p) } else { None };
                last_dir = 1;
                it.seek(k)
            }
            CurOp::Next => {
                let p = pos.unwrap();
                pos = if p + 1 < list.len() { Some(p + 1) } else { None };
                if last_dir == -1 {
                    reversals += 1;
                }
                last_dir = 1;
                it.next()
            }
            CurOp::Prev => {
                let p = pos.unwrap();
                pos = if p > 0 { Some(p - 1) } else { None };
                if last_dir == 1 {
                    reversals += 1;
                }
                last_dir = -1;
                it.prev()
            }
        };
        let ret = res.map_err(|e| format!("step {} ({:?}) returned error {e}", i, op))?;
        let valid = it.valid();
        if valid != pos.is_some() || ret != valid {
            return Err(format!("after step {} ({:?}): valid()={} returned={} but the model cursor is at {:?}", i, op, valid, ret, pos.map(|p| hex(&list[p].0))));
        }
        if let Some(p) = pos {
            let k = it.key().user_key().to_vec();
            let v = it.value().map_err(|e| format!("step {}: value() failed: {e}", i))?;
            if k != list[p].0 {
                return Err(format!("after step {} ({:?}): cursor at {} but the model cursor is at {}", i, op, hex(&k), hex(&list[p].0)));
            }
            if v != list[p].1 {
                return Err(format!("after step {} ({:?}): value of {} has {} bytes, differs from the value in the transaction's view ({} bytes)", i, op, hex(&k), v.len(), list[p].1.len()));
            }
        }
    }
    Ok((prog.len() as u64, reversals))
}

/// All programs up to `maxlen`; Next/Prev only while the model cursor is valid.
fn enumerate(
    txn: &Transaction,
    b: &Bounds,
    list: &[(Vec<u8>, Vec<u8>)],
    targets: &[Vec<u8>],
    maxlen: usize,
    agg: &mut (u64, u64, u64),
) -> Result<(), (Vec<CurOp>, String)> {
    let mut alphabet: Vec<CurOp> = vec![CurOp::SeekFirst, CurOp::SeekLast, CurOp::Next, CurOp::Prev];
    for t in targets {
        alphabet.push(CurOp::Seek(t.clone()));
    }
    // model position after a program (to know whether next/prev are allowed)
    fn model_pos(list: &[(Vec<u8>, Vec<u8>)], prog: &[CurOp]) -> Option<Option<usize>> {
        let mut pos: Option<usize> = None;
        let mut positioned = false;
        for op in prog {
            match op {
                CurOp::SeekFirst => {
                    pos = if list.is_empty() { None } else { Some(0) };
                    positioned = true;
                }
                CurOp::SeekLast => {
                    pos = if list.is_empty() { None } else { Some(list.len() - 1) };
                    positioned = true;
                }
                CurOp::Seek(k) => {
                    let p = list.partition_point(|(lk, _)| lk < k);
                    pos = if p < list.len() { Some(p) } else { None };
                    positioned = true;
                }
                CurOp::Next => {
                    if !positioned || pos.is_none() {
                        return None;
                    }
                    let p = pos.unwrap();
                    pos = if p + 1 < list.len() { Some(p + 1) } else { None };
                }
                CurOp::Prev => {
                    if !positioned || pos.is_none() {
                        return None;
                    }
                    let p = pos.unwrap();
                    pos = if p > 0 { Some(p - 1) } else { None };
                }
            }
        }
        Some(pos)
    }
    let mut stack: Vec<Vec<CurOp>> = vec![vec![]];
    while let Some(prog) = stack.pop() {
        if !prog.is_empty() {
            // only maximal programs need to run: every prefix is checked step by step anyway
            let extendable = prog.len() < maxlen;
            if !extendable {
                match run_program(txn, b, list, &prog) {
                    Ok((n, r)) => {
                        agg.0 += 1;
                        agg.1 += n;
                        agg.2 += r;
                    }
                    Err(e) => return Err((prog, e)),
                }
                continue;
            }
        }
        let mut extended = false;
        for op in &alphabet {
            let mut p2 = prog.clone();
            p2.push(op.clone());
            if model_pos(list, &p2).is_some() {
                stack.push(p2);
                extended = true;
            }
        }
        if !extended && !prog.is_empty() {
            match run_program(txn, b, list, &prog) {
                Ok((n, r)) => {
                    agg.0 += 1;
                    agg.1 += n;
                    agg.2 += r;
                }
                Err(e) => return Err((prog, e)),
            }
        }
    }
    Ok(())
}

fn bound_shapes(r: &mut Rng, keys: &[Vec<u8>]) -> Vec<(String, Bounds)> {
    let mut a = r.pick(keys).clone();
    let mut b = r.pick(keys).clone();
    if a > b {
        std::mem::swap(&mut a, &mut b);
    }
    if a == b {
        b.push(0xff);
    }
    vec![
        ("both".into(), (Some(a.clone()), Some(b.clone()))),
        ("both_wide".into(), (Some(LO_ALL.to_vec()), Some(HI_ALL.to_vec()))),
        ("lower_only".into(), (Some(a.clone()), None)),
        ("upper_only".into(), (None, Some(b.clone()))),
        ("unbounded".into(), (None, None)),
        ("empty".into(), (Some(a.clone()), Some(a.clone()))),
        ("inverted".into(), (Some(b), Some(a))),
    ]
}

fn targets_for(r: &mut Rng, keys: &[Vec<u8>], b: &Bounds, n: usize) -> Vec<Vec<u8>> {
    let inside = |k: &Vec<u8>| b.0.as_ref().map(|l| k >= l).unwrap_or(true) && b.1.as_ref().map(|h| k < h).unwrap_or(true);
    let mut c: Vec<Vec<u8>> = keys.iter().filter(|k| inside(k)).cloned().collect();
    // absent keys between stored ones
    for k in keys.iter().filter(|k| inside(k)) {
        let mut k2 = k.clone();
        k2.push(0x01);
        if inside(&k2) && !keys.contains(&k2) {
            c.push(k2);
        }
    }
    if let Some(l) = &b.0 {
        if inside(l) {
            c.push(l.clone());
        }
    }
    c.sort();
    c.dedup();
    r.shuffle(&mut c);
    c.truncate(n);
    c
}

pub fn run(a: &Args) -> i32 {
    surrealkv::verif::set_manual_background(true);
    let mut run = Run::new("C09", a.tier, a.seed, "exploration");
    crate::scenarios::run_for(&mut run, "C09");
    let layouts = a.tier.pick(160, 400);
    let maxlen = a.tier.pick(5, 6);
    let ntargets = 3;
    let long_programs = a.tier.pick(40, 200);
    let agg = Mutex::new(Agg {
        layouts: 0,
        programs: 0,
        cursor_ops: 0,
        reversals: 0,
        bound_shapes: BTreeSet::new(),
        distinct: BTreeSet::new(),
        shapes: BTreeSet::new(),
        failures: vec![],
        fail_what: vec![],
        samples: vec![],
        exhaustive_len: maxlen,
    });
    let root = e1::scratch_root().join("c09");
    let _ = std::fs::create_dir_all(&root);
    crate::panics::install();
    par_for(layouts, |li| {
        let lseed = a.seed.wrapping_mul(7_777_777).wrapping_add(li as u64 * 31 + 5);
        let mut r = Rng::new(lseed);
        let mut cfg = Cfg::random(&mut r.fork(1), VerMode::Off, VlogMode::Any);
        // block and partition boundaries everywhere
        cfg.block_size = *r.pick(&[64, 128, 256]);
        cfg.restart = r.range(1, 4) as usize;
        cfg.index_partition_size = *r.pick(&[64, 128]);
        let gp = GenParams {
            steps: 70,
            nkeys: r.range(6, 22) as usize,
            readers: false,
            cursors: false,
            reader_pending: false,
            reopen: false,
            delete_pct: 40,
            placement_pct: 45,
            ..Default::default()
        };
        let (keys, steps) = {
            let mut gr = r.fork(2);
            let mut g = Generator::new(&mut gr, gp, &cfg, lseed);
            let s = g.generate();
            (g.keys.clone(), s)
        };
        let dir = root.join(format!("l{}", li));
        let _ = std::fs::remove_dir_all(&dir);
        let rt = tokio::runtime::Builder::new_current_thread().enable_all().build().unwrap();
        let outcome: Result<(u64, u64, u64, BTreeSet<String>, BTreeSet<String>, Option<J>), (String, J)> = std::panic::catch_unwind(std::panic::AssertUnwindSafe(|| {
            rt.block_on(async {
                let opts = ExecOpts { fresh_battery: false, readers_after_placement: false, ..Default::default() };
                let mut ex = Exec::new(&cfg, &dir, keys.clone(), opts, lseed).map_err(|v| (v.what, json!({})))?;
                let cut = steps.len() * 2 / 3;
                let mut fail: Option<Violation> = None;
                for (i, s) in steps.iter().enumerate().take(cut) {
                    ex.step_no = i;
                    if let Err(v) = ex.step(s).await {
                        fail = Some(v);
                        break;
                    }
                }
                if let Some(v) = fail {
                    ex.finish().await;
                    return Err((format!("layout construction failed: {}", v.what), json!({})));
                }
                // an older reader, then more history, then a reader with pending writes
                let old = ex.tree().begin_with_mode(Mode::ReadOnly).map_err(|e| (e.to_string(), json!({})))?;
                let old_h = old.verif_start_seq();
                for (i, s) in steps.iter().enumerate().skip(cut) {
                    ex.step_no = i;
                    if let Err(v) = ex.step(s).await {
                        drop(old);
                        ex.finish().await;
                        return Err((format!("layout construction failed: {}", v.what), json!({})));
                    }
                }
                let mut newr = ex.tree().begin().map_err(|e| (e.to_string(), json!({})))?;
                let new_h = newr.verif_start_seq();
                let mut pending: BTreeMap<Vec<u8>, Option<Vec<u8>>> = BTreeMap::new();
                let mut pr = r.fork(3);
                for i in 0..pr.range(0, 5) {
                    let k = pr.pick(&keys).clone();
                    if pr.chance(1, 3) {
                        let _ = newr.delete(&k);
                        pending.insert(k, None);
                    } else {
                        let v = crate::model::mk_value(lseed, 9_000_000, i as u32, pr.range(12, 40) as usize);
                        let _ = newr.set(&k, &v);
                        pending.insert(k, Some(v));
                    }
                }
                let lay = ex.tree().verif_layout().map_err(|e| (e.to_string(), json!({})))?;
                let mut per_level = vec![0usize; lay.level_count];
                for t in &lay.tables {
                    per_level[t.level as usize] += 1;
                }
                let shape = format!("L{}:{}|imm{}|act{}|ws{}", lay.level_count, per_level.iter().map(|n| n.min(&3).to_string()).collect::<Vec<_>>().join(","), lay.immutables.min(3), !lay.active_empty as u8, pending.len().min(3));
                let mut counts = (0u64, 0u64, 0u64);
                let mut shapes_seen = BTreeSet::new();
                let mut bshapes = BTreeSet::new();
                let mut sample = None;
                let empty = BTreeMap::new();
                let mut first_err: Option<(String, J)> = None;
                'outer: for (rname, txn, horizon, pend) in [("older", &old, old_h, &empty), ("pending", &newr, new_h, &pending)] {
                    for (bname, b) in bound_shapes(&mut pr, &keys) {
                        let list = e1::overlay_scan(&ex.model, pend, b.0.as_deref(), b.1.as_deref(), horizon);
                        let targets = if bname == "empty" || bname == "inverted" { vec![] } else { targets_for(&mut pr, &keys, &b, ntargets) };
                        let res = std::panic::catch_unwind(std::panic::AssertUnwindSafe(|| enumerate(txn, &b, &list, &targets, maxlen, &mut counts)));
                        let res = match res {
                            Ok(r) => r,
                            Err(_) => Err((vec![], format!("panic: {}", crate::panics::take_last()))),
                        };
                        if let Err((prog, what)) = res {
                            let j = json!({"engine": "c09", "options": cfg.to_json(), "layout_seed": lseed, "reader": rname, "bounds": [b.0.as_ref().map(|k| hex(k)), b.1.as_ref().map(|k| hex(k))], "bound_shape": bname,
                                "program": prog.iter().map(|o| format!("{:?}", o)).collect::<Vec<_>>(), "layout_steps": steps.iter().map(|s| s.short()).collect::<Vec<_>>(),
                                "model_list": list.iter().map(|(k, _)| hex(k)).collect::<Vec<_>>(), "pending": pend.iter().map(|(k, v)| format!("{}={}", hex(k), if v.is_some() { "set" } else { "del" })).collect::<Vec<_>>(), "shape": shape});
                            first_err = Some((format!("{} reader, bounds {} [{:?},{:?}): program {:?}: {}", rname, bname, b.0.as_ref().map(|k| hex(k)), b.1.as_ref().map(|k| hex(k)), prog, what), j));
                            break 'outer;
                        }
                        // seeded long programs with a reversal at every position
                        for _ in 0..(long_programs / 14).max(1) {
                            let mut prog = vec![];
                            let mut posd: Option<usize> = None;
                            for _ in 0..pr.range(8, 40) {
                                let valid = posd.is_some();
                                let op = match pr.below(10) {
                                    0 => CurOp::SeekFirst,
                                    1 => CurOp::SeekLast,
                                    2 if !targets.is_empty() => CurOp::Seek(pr.pick(&targets).clone()),
                                    3..=6 if valid => CurOp::Next,
                                    _ if valid => CurOp::Prev,
                                    _ => CurOp::SeekFirst,
                                };
                                match &op {
                                    CurOp::SeekFirst => posd = if list.is_empty() { None } else { Some(0) },
                                    CurOp::SeekLast => posd = if list.is_empty() { None } else { Some(list.len() - 1) },
                                    CurOp::Seek(k) => {
                                        let p = list.partition_point(|(lk, _)| lk < k);
                                        posd = if p < list.len() { Some(p) } else { None };
                                    }
                                    CurOp::Next => posd = posd.and_then(|p| if p + 1 < list.len() { Some(p + 1) } else { None }),
                                    CurOp::Prev => posd = posd.and_then(|p| if p > 0 { Some(p - 1) } else { None }),
                                }
                                prog.push(op);
                            }
                            match std::panic::catch_unwind(std::panic::AssertUnwindSafe(|| run_program(txn, &b, &list, &prog))) {
                                Ok(Ok((n, rv))) => {
                                    counts.0 += 1;
                                    counts.1 += n;
                                    counts.2 += rv;
                                }
                                other => {
                                    let what = match other {
                                        Ok(Err(e)) => e,
                                        _ => format!("panic: {}", crate::panics::take_last()),
                                    };
                                    let j = json!({"engine": "c09", "options": cfg.to_json(), "layout_seed": lseed, "reader": rname, "bound_shape": bname, "program": prog.iter().map(|o| format!("{:?}", o)).collect::<Vec<_>>(),
                                        "layout_steps": steps.iter().map(|s| s.short()).collect::<Vec<_>>(), "model_list": list.iter().map(|(k, _)| hex(k)).collect::<Vec<_>>()});
                                    first_err = Some((format!("{} reader, bounds {}: long program: {}", rname, bname, what), j));
                                    break 'outer;
                                }
                            }
                        }
                        bshapes.insert(bname.clone());
                        shapes_seen.insert(format!("{}|{}|{}|n{}", shape, rname, bname, list.len().min(4)));
                        if sample.is_none() && bname == "both" && list.len() >= 2 {
                            sample = Some(json!({"options": cfg.to_json(), "shape": shape, "reader": rname, "bounds": [b.0.as_ref().map(|k| hex(k)), b.1.as_ref().map(|k| hex(k))],
                                "live_keys_in_view": list.iter().map(|(k, _)| hex(k)).collect::<Vec<_>>(), "seek_targets": targets.iter().map(|k| hex(k)).collect::<Vec<_>>(),
                                "program_alphabet": "seek_first, seek_last, next, prev, seek(target)", "all_programs_up_to_length": maxlen}));
                        }
                    }
                }
                drop(old);
                drop(newr);
                ex.finish().await;
                if let Some(e) = first_err {
                    return Err(e);
                }
                Ok((counts.0, counts.1, counts.2, shapes_seen, bshapes, sample))
            })
        }))
        .unwrap_or_else(|_| Err((format!("panic: {}", crate::panics::take_last()), json!({"engine": "c09", "layout_seed": lseed}))));
        drop(rt);
        let _ = std::fs::remove_dir_all(&dir);
        let mut g = agg.lock().unwrap();
        g.layouts += 1;
        match outcome {
            Ok((p, o, rv, shapes, bsh, sample)) => {
                g.programs += p;
                g.cursor_ops += o;
                g.reversals += rv;
                for s in shapes {
                    g.distinct.insert(format!("{}|{}", cfg.sig(), s));
                    g.shapes.insert(s);
                }
                for b in bsh {
                    g.bound_shapes.insert(b);
                }
                if let Some(s) = sample {
                    if g.samples.len() < 3 {
                        g.samples.push(s);
                    }
                }
            }
            Err((what, j)) => {
                if g.failures.len() < 6 {
                    g.failures.push(j);
                    g.fail_what.push(what);
                }
            }
        }
    });
    let _ = std::fs::remove_dir_all(&root);
    let g = agg.into_inner().unwrap();
    for (j, w) in g.failures.iter().zip(g.fail_what.iter()) {
        run.violation(w, j.clone());
    }
    run.cov("layouts", json!(g.layouts));
    run.cov("programs_run", json!(g.programs));
    run.cov("cursor_steps_checked", json!(g.cursor_ops));
    run.cov("direction_reversals", json!(g.reversals));
    run.cov("bound_shapes", json!(g.bound_shapes));
    run.cov("exhaustive_program_length", json!(g.exhaustive_len));
    run.cov("exhaustive", json!(false));
    run.cov("distinct_layout_shapes", json!(g.shapes.len()));
    run.assumptions = vec![
        "layouts built by the E1 executor (commits + rotate/flush/compaction), two readers per layout: an older read-only one and a read-write one with pending sets/deletes".into(),
        "after the cursor has run off an end only seek operations are issued, as the property says".into(),
    ];
    let samples = if g.samples.is_empty() { vec![json!({"note": "no sample collected"})] } else { g.samples.clone() };
    run.finish(
        g.programs,
        g.distinct.len() as u64,
        a.tier.pick(150, 1500),
        "one evaluation = one cursor program (every step compared: valid(), key, value); per (layout, reader, bound shape) ALL programs up to the stated length over {seek_first, seek_last, next, prev, seek(t) for 3-4 targets} are enumerated, plus seeded programs up to length 40; non-trivial/distinct = distinct (option signature, level shape, reader kind, bound shape, size bucket of the live list)",
        samples,
    )
}
