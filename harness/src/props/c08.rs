//! C08 - inside a transaction: read-your-writes, savepoints, rollback, modes.
//! Generated (and, for short ones, exhaustively enumerated) transaction programs over the
//! public API; every return value compared with an overlay model; an observer transaction
//! opened before the program and a fresh one after commit/rollback check isolation.
use crate::campaign::par_for;
use crate::cfg::Cfg;
use crate::e1::{self, ManualClock};
use crate::evidence::Run;
use crate::model::{hex, Kind, Model};
use crate::rng::Rng;
use crate::Args;
use serde_json::{json, Value as J};
use std::collections::{BTreeMap, BTreeSet};
use std::sync::atomic::{AtomicU64, Ordering};
use std::sync::{Arc, Mutex};
use surrealkv::{HistoryOptions, LSMIterator, Mode, Transaction, Tree};

#[derive(Clone, Debug, PartialEq)]
enum Op {
    Set(usize, usize),         // key index, value length
    SetAt(usize, usize, u64),  // key, len, ts offset
    Delete(usize),
    SoftDelete(usize),
    Replace(usize, usize),
    Get(usize),
    Scan,
    Savepoint,
    RollbackTo,
    Commit,
    Rollback,
    EmptyKeySet,
    /// another transaction writes this key and commits (first committer: the program's
    /// transaction, if it has written the key too, must then be refused at commit)
    Foreign(usize),
    /// time-travel read inside the transaction: key, timestamp = clock - offset (or ahead of it)
    GetAt(usize, i64),
    /// soft delete stamped with an explicit timestamp (clock - offset)
    SoftDeleteAt(usize, u64),
}

#[derive(Clone, Debug)]
struct PW {
    key: Vec<u8>,
    kind: Kind,
    value: Vec<u8>,
    ts: Option<u64>,
}

struct TxModel {
    mode: Mode,
    closed: bool,
    pending: Vec<PW>,
    marks: Vec<usize>,
}

impl TxModel {
    fn latest(&self, k: &[u8]) -> Option<&PW> {
        self.pending.iter().rev().find(|w| w.key == k)
    }
    fn overlay(&self) -> BTreeMap<Vec<u8>, Option<Vec<u8>>> {
        let mut m = BTreeMap::new();
        for w in &self.pending {
            m.insert(w.key.clone(), if w.kind.is_tombstone() { None } else { Some(w.value.clone()) });
        }
        m
    }
}

fn keys_alphabet() -> Vec<Vec<u8>> {
    vec![b"a".to_vec(), b"a\x00".to_vec(), b"a\xff".to_vec(), b"ab".to_vec(), b"\x01".to_vec(), b"k".to_vec(), vec![b'p'; 300], b"\xfe\xff".to_vec()]
}

struct Stats {
    programs: u64,
    ops: u64,
    commits: u64,
    rollbacks: u64,
    drops: u64,
    mode_rejections: u64,
    closed_rejections: u64,
    savepoint_rollbacks: u64,
    multi_version_commits: u64,
    distinct: BTreeSet<String>,
    samples: Vec<J>,
    failures: Vec<(String, J)>,
    exhaustive_programs: u64,
}

struct Store {
    tree: Tree,
    model: Model,
    clock: Arc<ManualClock>,
    cfg: Cfg,
    next_txn: u64,
    seed: u64,
    /// keys that some committed transaction wrote more than once: the model keeps only the last
    /// write per key of a commit, so it does not know every version of these keys
    multi: BTreeMap<Vec<u8>, u64>,
}

fn scan_tx(tx: &Transaction) -> Result<Vec<(Vec<u8>, Vec<u8>)>, String> {
    let mut it = tx.range(e1::LO_ALL, e1::HI_ALL).map_err(|e| e.to_string())?;
    let mut out = vec![];
    let mut ok = it.seek_first().map_err(|e| e.to_string())?;
    while ok {
        out.push((it.key().user_key().to_vec(), it.value().map_err(|e| e.to_string())?));
        ok = it.next().map_err(|e| e.to_string())?;
    }
    Ok(out)
}

/// Executes one program. Returns Err(description) on a violation.
async fn run_program(st: &mut Store, mode: Mode, prog: &[Op], stats: &mut (u64, u64, u64, u64, u64, u64, u64, u64)) -> Result<String, String> {
    let keys = keys_alphabet();
    // observer opened BEFORE the program
    let observer = st.tree.begin_with_mode(Mode::ReadOnly).map_err(|e| e.to_string())?;
    let obs_h = observer.verif_start_seq();
    let mut tx = st.tree.begin_with_mode(mode).map_err(|e| e.to_string())?;
    let h = tx.verif_start_seq();
    let mut m = TxModel { mode, closed: false, pending: vec![], marks: vec![] };
    let txn_id = st.next_txn;
    st.next_txn += 1;
    let mut sig = String::new();
    let mut committed = false;
    let writable = mode != Mode::ReadOnly;
    let readable = mode != Mode::WriteOnly;
    let mut before_seq = st.tree.verif_visible_seq();
    // keys committed by other transactions since this one began
    let mut foreign: BTreeSet<Vec<u8>> = BTreeSet::new();
    for (i, op) in prog.iter().enumerate() {
        stats.0 += 1;
        let now = st.clock.0.load(Ordering::SeqCst);
        let mut write = |m: &mut TxModel, key: &Vec<u8>, kind: Kind, value: Vec<u8>, ts: Option<u64>, res: surrealkv::Result<()>| -> Result<(), String> {
            let allowed = writable && !m.closed && !key.is_empty();
            match (allowed, res) {
                (true, Ok(())) => {
                    m.pending.push(PW { key: key.clone(), kind, value, ts });
                    Ok(())
                }
                (false, Err(_)) => Ok(()),
                (true, Err(e)) => Err(format!("op {} {:?}: a permitted write was rejected: {e}", i, op)),
                (false, Ok(())) => Err(format!("op {} {:?}: a write was accepted by a {} transaction", i, op, if m.closed { "closed".to_string() } else { format!("{:?}", m.mode) })),
            }
        };
        match op {
            Op::Set(k, len) => {
                let v = crate::model::mk_value(st.seed, txn_id, i as u32, *len);
                let r = tx.set(&keys[*k], &v);
                write(&mut m, &keys[*k], Kind::Set, v, None, r)?;
            }
            Op::SetAt(k, len, off) => {
                let v = crate::model::mk_value(st.seed, txn_id, i as u32, *len);
                let ts = now.saturating_sub(*off).max(1);
                let r = tx.set_at(&keys[*k], &v, ts);
                write(&mut m, &keys[*k], Kind::Set, v, Some(ts), r)?;
            }
            Op::Delete(k) => {
                let r = tx.delete(&keys[*k]);
                write(&mut m, &keys[*k], Kind::Delete, vec![], None, r)?;
            }
            Op::SoftDelete(k) => {
                let r = tx.soft_delete(&keys[*k]);
                write(&mut m, &keys[*k], Kind::SoftDelete, vec![], None, r)?;
            }
            Op::Replace(k, len) => {
                let v = crate::model::mk_value(st.seed, txn_id, i as u32, *len);
                let r = tx.replace(&keys[*k], &v);
                write(&mut m, &keys[*k], Kind::Replace, v, None, r)?;
            }
            Op::EmptyKeySet => {
                let r = tx.set(&b""[..], &b"x"[..]);
                if r.is_ok() {
                    return Err(format!("op {}: set with an empty key was accepted", i));
                }
            }
            Op::SoftDeleteAt(k, off) => {
                let ts = now.saturating_sub(*off).max(1);
                let r = tx.soft_delete_with_options(&keys[*k], &surrealkv::WriteOptions::default().with_timestamp(Some(ts)));
                write(&mut m, &keys[*k], Kind::SoftDelete, vec![], Some(ts), r)?;
            }
            Op::GetAt(k, off) if st.cfg.versioning => {
                let t = if *off >= 0 { now.saturating_sub(*off as u64).max(1) } else { now + (-*off) as u64 };
                let r = tx.get_at(&keys[*k], t);
                let allowed = readable && !m.closed;
                match (allowed, r) {
                    (false, Err(_)) => {}
                    (false, Ok(_)) => return Err(format!("op {}: get_at was accepted by a {} transaction", i, if m.closed { "closed".to_string() } else { format!("{:?}", m.mode) })),
                    (true, Err(e)) => return Err(format!("op {}: get_at({}, {}) failed: {e}", i, hex(&keys[*k]), t)),
                    (true, Ok(got)) => {
                        // the transaction's latest pending write to the key decides if it is a
                        // hard delete or stamped at or before t; a write stamped later than t is
                        // "from the future" and the snapshot answers. A write that will be
                        // stamped at commit time is judged only for t at or after the clock.
                        let from_pending = |w: &PW| if w.kind.is_tombstone() { None } else { Some(w.value.clone()) };
                        // The snapshot's own answer is only judged for keys whose committed
                        // history is plain (sets and soft deletes, timestamps increasing in
                        // commit order): these programs also stamp writes in the past and use
                        // hard deletes / replaces, for which time-travel answers are C10's
                        // business and partly unspecified.
                        let plain = st.model.keys.get(&keys[*k]).map_or(true, |vs| {
                            let vs: Vec<_> = vs.iter().filter(|v| v.seq <= h).collect();
                            // what a hard delete or a replace erased does not matter any more
                            let start = vs.iter().rposition(|v| matches!(v.kind, Kind::Delete | Kind::Replace)).unwrap_or(0);
                            let barrier_seq = if vs.get(start).is_some_and(|v| matches!(v.kind, Kind::Delete | Kind::Replace)) { vs[start].seq } else { 0 };
                            let tail = &vs[start.min(vs.len())..];
                            st.multi.get(&keys[*k]).map_or(true, |ms| *ms < barrier_seq) && tail.iter().skip(1).all(|v| matches!(v.kind, Kind::Set | Kind::SoftDelete)) && tail.windows(2).all(|w| w[0].ts < w[1].ts)
                        });
                        let snapshot_answers = if plain { Some(st.model.get_at_acceptable(&keys[*k], t, h, &|_, _| true)) } else { None };
                        let exp: Option<Vec<Option<Vec<u8>>>> = match m.latest(&keys[*k]) {
                            Some(w) if w.kind == Kind::Delete => Some(vec![None]),
                            Some(w) => match w.ts {
                                Some(ts) if ts <= t => Some(vec![from_pending(w)]),
                                Some(_) => snapshot_answers,
                                None if t >= now => Some(vec![from_pending(w)]),
                                None => None,
                            },
                            None => snapshot_answers,
                        };
                        if let Some(exp) = exp {
                            if !exp.contains(&got) {
                                return Err(format!(
                                    "op {}: get_at({}, {}) inside the transaction = {:?} but its own view (latest pending write {:?}, snapshot at horizon {}) allows {:?}",
                                    i,
                                    hex(&keys[*k]),
                                    t,
                                    got.as_ref().map(|v| v.len()),
                                    m.latest(&keys[*k]).map(|w| (w.kind.name(), w.ts, w.value.len())),
                                    h,
                                    exp.iter().map(|v| v.as_ref().map(|v| v.len())).collect::<Vec<_>>()
                                ));
                            }
                        }
                    }
                }
            }
            Op::GetAt(..) => {}
            Op::Get(k) => {
                let r = tx.get(&keys[*k]);
                let allowed = readable && !m.closed;
                match (allowed, r) {
                    (false, Err(_)) => {
                        if m.closed {
                            stats.5 += 1;
                        } else {
                            stats.4 += 1;
                        }
                    }
                    (false, Ok(_)) => return Err(format!("op {}: get was accepted by a {} transaction", i, if m.closed { "closed".to_string() } else { format!("{:?}", m.mode) })),
                    (true, Err(e)) => return Err(format!("op {}: get({}) failed: {e}", i, hex(&keys[*k]))),
                    (true, Ok(got)) => {
                        let exp = match m.latest(&keys[*k]) {
                            Some(w) => {
                                if w.kind.is_tombstone() {
                                    None
                                } else {
                                    Some(w.value.clone())
                                }
                            }
                            None => st.model.get(&keys[*k], h).map(|v| v.to_vec()),
                        };
                        if got != exp {
                            return Err(format!(
                                "op {}: get({}) = {:?} but the transaction's own view holds {:?} (pending writes to the key: {:?})",
                                i,
                                hex(&keys[*k]),
                                got.as_ref().map(|v| v.len()),
                                exp.as_ref().map(|v| v.len()),
                                m.pending.iter().filter(|w| w.key == keys[*k]).map(|w| w.kind.name()).collect::<Vec<_>>()
                            ));
                        }
                    }
                }
            }
            Op::Scan => {
                let allowed = readable && !m.closed;
                let r = scan_tx(&tx);
                match (allowed, r) {
                    (false, Err(_)) => {}
                    (false, Ok(_)) => return Err(format!("op {}: range scan accepted by a transaction that must reject reads", i)),
                    (true, Err(e)) => return Err(format!("op {}: range scan failed: {e}", i)),
                    (true, Ok(got)) => {
                        let exp = e1::overlay_scan(&st.model, &m.overlay(), Some(e1::LO_ALL), Some(e1::HI_ALL), h);
                        if got != exp {
                            return Err(format!("op {}: scan differs from snapshot + pending writes: got {} expected {}", i, e1::fmt_list(&got), e1::fmt_list(&exp)));
                        }
                        // the same view entered by seek(k) for every key of the alphabet (a pending
                        // write on k itself must be the first thing the cursor shows), and backward
                        for k in &keys {
                            let from = (|| -> Result<Vec<(Vec<u8>, Vec<u8>)>, String> {
                                let mut it = tx.range(e1::LO_ALL, e1::HI_ALL).map_err(|e| e.to_string())?;
                                let mut out = vec![];
                                let mut ok = it.seek(k).map_err(|e| e.to_string())?;
                                while ok {
                                    out.push((it.key().user_key().to_vec(), it.value().map_err(|e| e.to_string())?));
                                    ok = it.next().map_err(|e| e.to_string())?;
                                }
                                Ok(out)
                            })()
                            .map_err(|e| format!("op {}: seek({}) scan failed: {e}", i, hex(k)))?;
                            let want: Vec<(Vec<u8>, Vec<u8>)> = exp.iter().filter(|e| e.0.as_slice() >= k.as_slice()).cloned().collect();
                            if from != want {
                                return Err(format!("op {}: scan entered by seek({}) differs from snapshot + pending writes: got {} expected {}", i, hex(k), e1::fmt_list(&from), e1::fmt_list(&want)));
                            }
                        }
                        let back = (|| -> Result<Vec<(Vec<u8>, Vec<u8>)>, String> {
                            let mut it = tx.range(e1::LO_ALL, e1::HI_ALL).map_err(|e| e.to_string())?;
                            let mut out = vec![];
                            let mut ok = it.seek_last().map_err(|e| e.to_string())?;
                            while ok {
                                out.push((it.key().user_key().to_vec(), it.value().map_err(|e| e.to_string())?));
                                ok = it.prev().map_err(|e| e.to_string())?;
                            }
                            Ok(out)
                        })()
                        .map_err(|e| format!("op {}: backward scan failed: {e}", i))?;
                        let mut wantb = exp.clone();
                        wantb.reverse();
                        if back != wantb {
                            return Err(format!("op {}: backward scan differs from snapshot + pending writes: got {} expected {}", i, e1::fmt_list(&back), e1::fmt_list(&wantb)));
                        }
                        // turn-arounds: forward onto the last entry and all the way back; backward
                        // onto the first entry and all the way forward (the entry the cursor
                        // turns on may be a pending write beyond every committed key, or the
                        // other way round)
                        if exp.len() >= 2 {
                            let turn = (|| -> Result<(Vec<Vec<u8>>, Vec<Vec<u8>>), String> {
                                let mut it = tx.range(e1::LO_ALL, e1::HI_ALL).map_err(|e| e.to_string())?;
                                let mut a = vec![];
                                let mut ok = it.seek_first().map_err(|e| e.to_string())?;
                                for _ in 1..exp.len() {
                                    if !ok {
                                        break;
                                    }
                                    ok = it.next().map_err(|e| e.to_string())?;
                                }
                                while ok {
                                    a.push(it.key().user_key().to_vec());
                                    ok = it.prev().map_err(|e| e.to_string())?;
                                }
                                let mut it = tx.range(e1::LO_ALL, e1::HI_ALL).map_err(|e| e.to_string())?;
                                let mut b = vec![];
                                let mut ok = it.seek_last().map_err(|e| e.to_string())?;
                                for _ in 1..exp.len() {
                                    if !ok {
                                        break;
                                    }
                                    ok = it.prev().map_err(|e| e.to_string())?;
                                }
                                while ok {
                                    b.push(it.key().user_key().to_vec());
                                    ok = it.next().map_err(|e| e.to_string())?;
                                }
                                Ok((a, b))
                            })()
                            .map_err(|e| format!("op {}: turn-around scan failed: {e}", i))?;
                            let fwd_keys: Vec<Vec<u8>> = exp.iter().map(|e| e.0.clone()).collect();
                            let mut bwd_keys = fwd_keys.clone();
                            bwd_keys.reverse();
                            let show = |v: &Vec<Vec<u8>>| v.iter().map(|k| hex(k)).collect::<Vec<_>>().join(" ");
                            if turn.0 != bwd_keys {
                                return Err(format!("op {}: cursor walked forward onto the last entry and then back lists [{}], snapshot + pending writes hold (backward) [{}]", i, show(&turn.0), show(&bwd_keys)));
                            }
                            if turn.1 != fwd_keys {
                                return Err(format!("op {}: cursor walked backward onto the first entry and then forward lists [{}], snapshot + pending writes hold [{}]", i, show(&turn.1), show(&fwd_keys)));
                            }
                        }
                    }
                }
            }
            Op::Savepoint => {
                let r = tx.set_savepoint();
                let allowed = writable && !m.closed;
                match (allowed, r) {
                    (true, Ok(())) => m.marks.push(m.pending.len()),
                    (false, Err(_)) => {}
                    (true, Err(e)) => return Err(format!("op {}: set_savepoint rejected: {e}", i)),
                    (false, Ok(())) => return Err(format!("op {}: set_savepoint accepted by a transaction that must reject it", i)),
                }
            }
            Op::RollbackTo => {
                let r = tx.rollback_to_savepoint();
                let allowed = writable && !m.closed && !m.marks.is_empty();
                match (allowed, r) {
                    (true, Ok(())) => {
                        let mark = m.marks.pop().unwrap();
                        m.pending.truncate(mark);
                        stats.6 += 1;
                    }
                    (false, Err(_)) => {}
                    (true, Err(e)) => return Err(format!("op {}: rollback_to_savepoint rejected: {e}", i)),
                    (false, Ok(())) => return Err(format!("op {}: rollback_to_savepoint accepted although {}", i, if m.marks.is_empty() { "no savepoint is set" } else { "the transaction must reject it" })),
                }
            }
            Op::Foreign(k) => {
                let fid = st.next_txn;
                st.next_txn += 1;
                let v = crate::model::mk_value(st.seed, fid, 0, 16);
                let fm = TxModel { mode: Mode::ReadWrite, closed: false, pending: vec![PW { key: keys[*k].clone(), kind: Kind::Set, value: v.clone(), ts: None }], marks: vec![] };
                let b = st.tree.verif_visible_seq();
                let mut ftx = st.tree.begin().map_err(|e| e.to_string())?;
                ftx.set(&keys[*k], &v).map_err(|e| e.to_string())?;
                st.clock.0.fetch_add(1, Ordering::SeqCst);
                let fnow = st.clock.0.load(Ordering::SeqCst);
                ftx.commit().await.map_err(|e| format!("op {}: commit of an independent transaction failed: {e}", i))?;
                let after = st.tree.verif_visible_seq();
                verify_commit(st, &fm, fid, b, after, fnow)?;
                before_seq = after;
                foreign.insert(keys[*k].clone());
            }
            Op::Commit if writable && !m.closed && m.pending.iter().any(|w| foreign.contains(&w.key)) => {
                // first committer wins: another transaction committed one of the written keys
                // after this one began
                let r = tx.commit().await;
                match r {
                    Err(surrealkv::Error::TransactionWriteConflict) | Err(surrealkv::Error::TransactionRetry) => {
                        // the transaction is over; nothing of it is applied
                        m.closed = true;
                        m.pending.clear();
                        m.marks.clear();
                        let after = st.tree.verif_visible_seq();
                        if after != before_seq {
                            return Err(format!("op {}: a refused commit moved the visible sequence number from {} to {}", i, before_seq, after));
                        }
                    }
                    Err(e) => return Err(format!("op {}: commit of a transaction that overlaps a committed writer of one of its keys failed with {e}, expected a write conflict", i)),
                    Ok(()) => return Err(format!("op {}: commit accepted although another transaction committed one of its keys after it began (lost update)", i)),
                }
            }
            Op::Commit => {
                st.clock.0.fetch_add(1, Ordering::SeqCst);
                let now = st.clock.0.load(Ordering::SeqCst);
                let r = tx.commit().await;
                let allowed = writable && !m.closed;
                match (allowed, r) {
                    (true, Ok(())) => {
                        m.closed = true;
                        committed = true;
                        stats.1 += 1;
                        let after = st.tree.verif_visible_seq();
                        verify_commit(st, &m, txn_id, before_seq, after, now)?;
                    }
                    (false, Err(_)) => {}
                    (true, Err(e)) => return Err(format!("op {}: commit failed: {e}", i)),
                    (false, Ok(())) => return Err(format!("op {}: commit accepted by a transaction that must reject it", i)),
                }
            }
            Op::Rollback => {
                tx.rollback();
                m.closed = true;
                m.pending.clear();
                stats.2 += 1;
            }
        }
        // the observer never sees anything of this transaction
        if i % 3 == 2 || matches!(op, Op::Commit | Op::Rollback) {
            for k in &keys {
                let exp = st.model_at_observer(k, obs_h);
                let got = observer.get(k).map_err(|e| e.to_string())?;
                if got != exp {
                    return Err(format!("op {}: a concurrent transaction begun earlier sees get({}) = {:?}, expected its own snapshot {:?}", i, hex(k), got.map(|v| v.len()), exp.map(|v| v.len())));
                }
            }
        }
        sig.push(match op {
            Op::Set(..) | Op::SetAt(..) | Op::Replace(..) => 's',
            Op::Delete(_) | Op::SoftDelete(_) => 'd',
            Op::Get(_) | Op::Scan => 'g',
            Op::Savepoint => 'S',
            Op::RollbackTo => 'R',
            Op::Commit => 'C',
            Op::Rollback => 'X',
            Op::EmptyKeySet => 'e',
            Op::Foreign(_) => 'F',
            Op::GetAt(..) => 'g',
            Op::SoftDeleteAt(..) => 'd',
        });
    }
    if !m.closed {
        drop(tx);
        stats.3 += 1;
    } else {
        drop(tx);
    }
    drop(observer);
    // a fresh transaction sees the committed state and nothing of a rolled back / dropped one
    let fresh = st.tree.begin_with_mode(Mode::ReadOnly).map_err(|e| e.to_string())?;
    let fh = fresh.verif_start_seq();
    let got = scan_tx(&fresh)?;
    let exp = st.model.scan(Some(e1::LO_ALL), Some(e1::HI_ALL), fh);
    if got != exp {
        return Err(format!(
            "after the program ({}), a fresh transaction sees {} but the committed history says {}",
            if committed { "committed" } else { "rolled back / dropped" },
            e1::fmt_list(&got),
            e1::fmt_list(&exp)
        ));
    }
    Ok(format!("{:?}|{}", mode, sig))
}

impl Store {
    fn model_at_observer(&self, k: &[u8], h: u64) -> Option<Vec<u8>> {
        self.model.get(k, h).map(|v| v.to_vec())
    }
}

/// After a successful commit: record it in the model (surviving writes in issue order) and,
/// with versioning, check that the versions the commit produced appear in issue order.
fn verify_commit(st: &mut Store, m: &TxModel, txn_id: u64, before: u64, after: u64, now: u64) -> Result<(), String> {
    if m.pending.is_empty() {
        if after != before {
            return Err(format!("an empty commit moved the visible sequence number from {} to {}", before, after));
        }
        return Ok(());
    }
    let n_real = after - before;
    if n_real == 0 || n_real as usize > m.pending.len() {
        return Err(format!("commit of {} issued writes consumed {} sequence numbers", m.pending.len(), n_real));
    }
    // Which of the issued writes survived is the implementation's choice as long as, per key,
    // they form a subsequence of the issue order that ends with the last issued write. The
    // final state only depends on the last write per key; record exactly those in the model,
    // then (versioning) compare the version list.
    let mut last: BTreeMap<Vec<u8>, usize> = BTreeMap::new();
    for (i, w) in m.pending.iter().enumerate() {
        last.insert(w.key.clone(), i);
    }
    if st.cfg.versioning {
        let tx = st.tree.begin_with_mode(Mode::ReadOnly).map_err(|e| e.to_string())?;
        let mut assigned: Vec<(u64, usize)> = vec![]; // (seq, issue index)
        for (k, _) in &last {
            let mut hi = k.clone();
            hi.push(0);
            let mut it = tx.history_with_options(&k[..], &hi[..], &HistoryOptions::new().with_tombstones(true)).map_err(|e| e.to_string())?;
            // raw versions are needed (including those below a barrier): walk the plain history and
            // take only what this commit produced
            let mut vers: Vec<(u64, bool, Vec<u8>)> = vec![];
            let mut ok = it.seek_first().map_err(|e| e.to_string())?;
            while ok {
                let kr = it.key();
                if kr.seq_num() > before && kr.seq_num() <= after {
                    let tomb = kr.is_tombstone();
                    let v = if tomb { vec![] } else { it.value().map_err(|e| e.to_string())? };
                    vers.push((kr.seq_num(), tomb, v));
                }
                ok = it.next().map_err(|e| e.to_string())?;
            }
            vers.sort();
            let issued: Vec<(usize, &PW)> = m.pending.iter().enumerate().filter(|(_, w)| &w.key == k).collect();
            // match versions (ascending seq) to issued writes (ascending issue number) as a subsequence
            let mut j = 0usize;
            for (seq, tomb, v) in &vers {
                let mut found = None;
                while j < issued.len() {
                    let w = issued[j].1;
                    let same = if w.kind.is_tombstone() { *tomb && w.kind == Kind::SoftDelete } else { !*tomb && &w.value == v };
                    j += 1;
                    if same {
                        found = Some(issued[j - 1].0);
                        break;
                    }
                }
                match found {
                    // only self-identifying values (>= 12 bytes: transaction id + issue index) can be
                    // attributed to one specific write; shorter ones may equal another write's value
                    Some(ix) => {
                        if !*tomb && v.len() >= 12 {
                            assigned.push((*seq, ix))
                        }
                    }
                    None => {
                        return Err(format!(
                            "commit produced versions of {} that are not in the order the writes were issued (versions by sequence number: {:?}; issued: {:?})",
                            hex(k),
                            vers.iter().map(|(s, t, v)| (s, t, v.len())).collect::<Vec<_>>(),
                            issued.iter().map(|(i, w)| (i, w.kind.name(), w.value.len())).collect::<Vec<_>>()
                        ))
                    }
                }
            }
        }
        // across keys: sequence numbers follow issue numbers
        assigned.sort();
        for w in assigned.windows(2) {
            if w[1].1 < w[0].1 {
                return Err(format!("commit applied write #{} (seq {}) before write #{} (seq {}) although it was issued later", w[0].1, w[0].0, w[1].1, w[1].0));
            }
        }
    }
    for (i, w) in m.pending.iter().enumerate() {
        if last.get(&w.key) != Some(&i) {
            st.multi.insert(w.key.clone(), after);
        }
    }
    // model: the surviving set is not observable without versioning; use last-write-per-key in issue order
    let mut ops: Vec<(usize, (Kind, Vec<u8>, Vec<u8>, u64))> = last.iter().map(|(k, i)| (*i, (m.pending[*i].kind, k.clone(), m.pending[*i].value.clone(), m.pending[*i].ts.unwrap_or(now)))).collect();
    ops.sort_by_key(|x| x.0);
    // place them at the top of the consumed range so that they are newer than anything older
    let ops: Vec<_> = ops.into_iter().map(|x| x.1).collect();
    let first = after + 1 - ops.len() as u64;
    st.model.apply(txn_id, first, &ops);
    Ok(())
}

fn gen_program(r: &mut Rng, len: usize) -> Vec<Op> {
    let mut p = vec![];
    let nk = 5; // small alphabet so that same-key interactions are frequent
    for _ in 0..len {
        let k = r.usize(nk);
        let vlen = *r.pick(&[0usize, 1, 12, 13, 40, 300]);
        p.push(match r.below(100) {
            0..=24 => Op::Set(k, vlen),
            25..=32 => Op::SetAt(k, vlen.max(12), r.below(5)),
            33..=42 => Op::Delete(k),
            43..=48 => Op::SoftDelete(k),
            49..=54 => Op::Replace(k, vlen),
            55..=62 => Op::Get(k),
            63..=66 => Op::GetAt(k, r.below(8) as i64 - 2),
            67..=68 => Op::SoftDeleteAt(k, r.below(5)),
            69..=73 => Op::Scan,
            74..=83 => Op::Savepoint,
            84..=93 => Op::RollbackTo,
            94..=95 => Op::Commit,
            96 => Op::Rollback,
            97 => Op::EmptyKeySet,
            98 => Op::Foreign(k),
            _ => match r.below(3) {
                0 => Op::SoftDeleteAt(k, r.below(5)),
                _ => Op::GetAt(k, r.below(8) as i64 - 2),
            },
        });
    }
    match r.below(10) {
        0..=6 => p.push(Op::Commit),
        7 => p.push(Op::Rollback),
        _ => {}
    }
    // a few calls after the end exercise the closed state
    if r.chance(1, 3) {
        p.push(Op::Get(r.usize(nk)));
        p.push(Op::Set(r.usize(nk), 12));
        p.push(Op::Commit);
    }
    // one program in eight: another transaction commits a key this one has written (or will
    // write), somewhere before the end; the commit is then refused and may be tried again
    if r.chance(1, 8) && !p.is_empty() {
        let at = r.usize(p.len());
        p.insert(at, Op::Foreign(r.usize(nk)));
        p.push(Op::Commit);
        p.push(Op::Commit);
    }
    p
}

fn small_alphabet() -> Vec<Op> {
    vec![Op::Set(0, 12), Op::Set(1, 13), Op::Delete(0), Op::SoftDelete(1), Op::Replace(0, 14), Op::SetAt(0, 15, 2), Op::Get(0), Op::Savepoint, Op::RollbackTo, Op::Scan, Op::Foreign(0), Op::Commit]
}

pub fn run(a: &Args) -> i32 {
    surrealkv::verif::set_manual_background(true);
    crate::panics::install();
    let mut run = Run::new("C08", a.tier, a.seed, "exploration");
    crate::scenarios::run_for(&mut run, "C08");
    let stores = a.tier.pick(32, 64);
    let programs_per_store = a.tier.pick(6_000, 14_000);
    let maxlen = a.tier.pick(40, 120);
    let exhaustive_len = a.tier.pick(4, 5);
    let stats = Mutex::new(Stats {
        programs: 0,
        ops: 0,
        commits: 0,
        rollbacks: 0,
        drops: 0,
        mode_rejections: 0,
        closed_rejections: 0,
        savepoint_rollbacks: 0,
        multi_version_commits: 0,
        distinct: BTreeSet::new(),
        samples: vec![],
        failures: vec![],
        exhaustive_programs: 0,
    });
    let root = e1::scratch_root().join("c08");
    let _ = std::fs::create_dir_all(&root);
    par_for(stores, |si| {
        let sseed = a.seed.wrapping_mul(1_000_003).wrapping_add(si as u64 + 17);
        let mut r = Rng::new(sseed);
        let mut cfg = Cfg { flush_on_close: false, ..Cfg::default() };
        cfg.versioning = si % 2 == 1;
        cfg.index = si % 4 == 3;
        cfg.vlog = cfg.versioning || si % 3 == 0;
        cfg.vlog_threshold = if cfg.versioning { 0 } else { 16 };
        cfg.max_memtable_size = 1 << 20;
        // with versioning every version of the few keys is kept, so reads get slower with
        // every commit (quadratic overall): versioned stores get fewer programs
        let programs_per_store = if cfg.versioning { programs_per_store.min(4_000) } else { programs_per_store };
        let dir = root.join(format!("s{}", si));
        let _ = std::fs::remove_dir_all(&dir);
        let rt = tokio::runtime::Builder::new_current_thread().enable_all().build().unwrap();
        let res = std::panic::catch_unwind(std::panic::AssertUnwindSafe(|| {
            rt.block_on(async {
                let clock = Arc::new(ManualClock(AtomicU64::new(1000)));
                let tree = match cfg.open_with_clock(&dir, clock.clone()) {
                    Ok(t) => t,
                    Err(e) => return Err((format!("open failed: {e}"), json!({}))),
                };
                let mut st = Store { tree, model: Model::new(), clock, cfg: cfg.clone(), next_txn: 1, seed: sseed, multi: BTreeMap::new() };
                let mut local = (0u64, 0u64, 0u64, 0u64, 0u64, 0u64, 0u64, 0u64);
                let mut sigs = BTreeSet::new();
                let mut nprog = 0u64;
                let mut nexh = 0u64;
                let mut sample = None;
                // exhaustive short programs (stores 0..2 of each flavour only), each followed by commit
                let mut todo: Vec<(Mode, Vec<Op>, bool)> = vec![];
                if si < 4 {
                    let alpha = small_alphabet();
                    // versioned stores keep every version: one length less there, or the
                    // 100 000 programs of length 5 make every later read crawl
                    let exhaustive_len = if cfg.versioning { exhaustive_len.min(4) } else { exhaustive_len };
                    let mut idx = vec![0usize; exhaustive_len];
                    'e: loop {
                        let mut p: Vec<Op> = idx.iter().map(|i| alpha[*i].clone()).collect();
                        p.push(Op::Commit);
                        todo.push((Mode::ReadWrite, p, true));
                        let mut d = 0;
                        loop {
                            idx[d] += 1;
                            if idx[d] < alpha.len() {
                                break;
                            }
                            idx[d] = 0;
                            d += 1;
                            if d == exhaustive_len {
                                break 'e;
                            }
                        }
                    }
                }
                for _ in 0..programs_per_store {
                    let mode = match r.below(10) {
                        0 => Mode::ReadOnly,
                        1 => Mode::WriteOnly,
                        _ => Mode::ReadWrite,
                    };
                    let len = if r.chance(1, 10) { r.range(20, maxlen as u64) as usize } else { r.range(1, 12) as usize };
                    todo.push((mode, gen_program(&mut r, len), false));
                }
                for (pi, (mode, prog, exh)) in todo.iter().enumerate() {
                    match run_program(&mut st, *mode, prog, &mut local).await {
                        Ok(sig) => {
                            nprog += 1;
                            if *exh {
                                nexh += 1;
                            }
                            sigs.insert(sig);
                            if sample.is_none() && prog.len() >= 6 && prog.iter().any(|o| *o == Op::RollbackTo) {
                                sample = Some(json!({"mode": format!("{:?}", mode), "program": prog.iter().map(|o| format!("{:?}", o)).collect::<Vec<_>>(), "versioning": cfg.versioning}));
                            }
                        }
                        Err(what) => {
                            let j = json!({"engine": "c08", "store_seed": sseed, "program_index": pi, "mode": format!("{:?}", mode), "versioning": cfg.versioning, "index": cfg.index,
                                "program": prog.iter().map(|o| format!("{:?}", o)).collect::<Vec<_>>(), "keys": keys_alphabet().iter().map(|k| hex(k)).collect::<Vec<_>>()});
                            e1_close(st).await;
                            return Err((format!("{:?} transaction, program {:?}: {}", mode, prog, what), j));
                        }
                    }
                    // keep placement moving: flush / compact now and then
                    if pi % 97 == 96 {
                        let _ = st.tree.verif_flush();
                        let _ = st.tree.verif_compact_once();
                    }
                }
                e1_close(st).await;
                Ok((local, sigs, nprog, nexh, sample))
            })
        }))
        .unwrap_or_else(|_| Err((format!("panic: {}", crate::panics::take_last()), json!({"engine": "c08", "store_seed": sseed}))));
        drop(rt);
        let _ = std::fs::remove_dir_all(&dir);
        let mut g = stats.lock().unwrap();
        match res {
            Ok((l, sigs, nprog, nexh, sample)) => {
                g.programs += nprog;
                g.exhaustive_programs += nexh;
                g.ops += l.0;
                g.commits += l.1;
                g.rollbacks += l.2;
                g.drops += l.3;
                g.mode_rejections += l.4;
                g.closed_rejections += l.5;
                g.savepoint_rollbacks += l.6;
                for s in sigs {
                    g.distinct.insert(s);
                }
                if let Some(s) = sample {
                    if g.samples.len() < 3 {
                        g.samples.push(s);
                    }
                }
            }
            Err((w, j)) => {
                if g.failures.len() < 6 {
                    g.failures.push((w, j));
                }
            }
        }
    });
    let _ = std::fs::remove_dir_all(&root);
    let g = stats.into_inner().unwrap();
    for (w, j) in &g.failures {
        run.violation(w, j.clone());
    }
    run.cov("programs", json!(g.programs));
    run.cov("exhaustively_enumerated_programs", json!(g.exhaustive_programs));
    run.cov("exhaustive_length", json!(exhaustive_len));
    run.cov("calls_checked", json!(g.ops));
    run.cov("commits", json!(g.commits));
    run.cov("rollbacks", json!(g.rollbacks));
    run.cov("drops_without_commit", json!(g.drops));
    run.cov("mode_rejections_observed", json!(g.mode_rejections));
    run.cov("closed_rejections_observed", json!(g.closed_rejections));
    run.cov("savepoint_rollbacks", json!(g.savepoint_rollbacks));
    run.assumptions = vec![
        "overlay model = snapshot + append-only list of pending writes with savepoint marks; which overwritten pending writes 'survive' to commit is left to the implementation as long as, per key, the committed versions are a subsequence of the issue order ending with the last write".into(),
        "error kinds are not compared, only accept/reject".into(),
    ];
    let samples = if g.samples.is_empty() { vec![json!({"note": "no sample"})] } else { g.samples.clone() };
    run.finish(
        g.programs,
        g.distinct.len() as u64,
        a.tier.pick(500, 5000),
        "one evaluation = one transaction program (every call's result compared with the overlay model; observer transaction begun before; fresh transaction after); all programs up to the stated length over a 10-operation alphabet are enumerated on four stores, the rest are seeded; distinct = distinct (mode, operation-class string) of programs",
        samples,
    )
}

async fn e1_close(st: Store) {
    let _ = st.tree.close().await;
    drop(st);
    for _ in 0..4 {
        tokio::task::yield_now().await;
    }
}
