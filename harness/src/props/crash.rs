//! Crash-image part shared by C02 / C03 / C07 / C11 (engine E2): campaign + directed
//! crash scenarios.
use crate::cfg::{Cfg, VerMode, VlogMode};
use crate::e2::{self, ImagePlan, Job, TraceRun, Workload};
use crate::evidence::{finding_open, load_findings, Run, Tier};
use crate::rng::Rng;
use crate::trace::Loss;
use crate::Args;
use serde_json::{json, Value as J};
use std::collections::{BTreeMap, BTreeSet};
use std::path::Path;

pub fn classes_of(prop: &str) -> &'static [&'static str] {
    match prop {
        "C02" => &["durability", "later_session", "vlog_read", "read"],
        "C03" => &["prefix"],
        "C07" => &["open", "probe", "reopen_differs", "panic", "read", "crash"],
        // the crash runs of C11 have the value log on: a store that does not open (again) leaves
        // every separated value unreachable
        "C11" => &["vlog_read", "open"],
        "C15" => &["failed_visible"],
        "C10" => &["history_after_crash", "open", "read", "vlog_read", "prefix", "durability"],
        _ => &[],
    }
}

pub fn e2_cfg(r: &mut Rng, vlog: VlogMode) -> Cfg {
    let mut c = Cfg::random(r, VerMode::Off, vlog);
    c.max_memtable_size = *r.pick(&[8 * 1024, 16 * 1024, 32 * 1024]);
    c.level_count = r.range(1, 4) as u8;
    c.l0_max_files = r.range(1, 3) as usize;
    c.max_bytes_for_level = *r.pick(&[512, 2048, 8192]);
    c.memtable_stall = r.range(2, 4) as usize;
    c.l0_stall = c.l0_max_files * 3 + 1;
    c.block_size = *r.pick(&[256, 1024, 4096]);
    c.vlog_max_file = *r.pick(&[1024, 4096, 65536]);
    c
}

pub fn e2_workload(r: &mut Rng, cfg: &Cfg, txns: usize, committers: usize) -> Workload {
    Workload {
        txns,
        committers,
        nkeys: r.range(6, 30) as usize,
        max_value: *r.pick(&[48, 300, cfg.max_memtable_size / 6]),
        immediate_pct: *r.pick(&[0, 15, 50]),
        sync_every: *r.pick(&[0, 5, 12]),
        close_at_end: r.chance(2, 3),
        delete_pct: *r.pick(&[10, 30]),
        first_txn: 1,
        big_batch_pct: *r.pick(&[0, 5, 15]),
        manual_flush_every: 0,
        hook_rotate_pct: 0,
        hook_flush_pct: 0,
        stale_writer_after_failure: false,
    }
}

pub struct TraceOutcome {
    pub t: TraceRun,
    pub plans: Vec<ImagePlan>,
    pub results: Vec<J>,
    pub crashed: Vec<(usize, String)>,
    pub inconclusive: Vec<String>,
}

#[allow(clippy::too_many_arguments)]
pub fn trace_and_verify(
    scratch: &Path,
    name: &str,
    cfg: &Cfg,
    w: &Workload,
    seed: u64,
    dense: bool,
    filter: &dyn Fn(&ImagePlan) -> bool,
    probe_every: usize,
    fault: Option<&str>,
) -> Result<TraceOutcome, String> {
    let t = e2::run_worker(scratch, name, cfg, w, seed, fault, None)?;
    if let Some(e) = t.worker_out["open_error"].as_str() {
        return Err(format!("worker could not open a fresh store: {e}"));
    }
    let mut pr = Rng::new(seed ^ 0x9147);
    let mut plans = e2::plan_images(&t, &mut pr, dense, 1);
    plans.retain(|p| filter(p));
    let keep = scratch.join(format!("{}-keep", name));
    let job = Job {
        trace_file: scratch.join(format!("{}.trace", name)),
        root: t.root.clone(),
        cfg: cfg.clone(),
        txns: t.txns.clone(),
        failed: t.failed.iter().map(|f| f.id).collect(),
        failed_recs: vec![],
base_required: 0,
        plans: plans.clone(),
        probe_every,
        base_dir: None,
        keep_dir: Some(keep),
    };
    let jobfile = scratch.join(format!("{}.job.json", name));
    std::fs::write(&jobfile, serde_json::to_vec(&job.to_json()).unwrap()).map_err(|e| e.to_string())?;
    let pool = e2::run_pool(&jobfile, plans.len(), crate::campaign::threads());
    let _ = std::fs::remove_file(&jobfile);
    let _ = std::fs::remove_file(scratch.join(format!("{}.trace", name)));
    let _ = std::fs::remove_file(scratch.join(format!("{}.out.json", name)));
    let _ = std::fs::remove_dir_all(&t.dir);
    Ok(TraceOutcome { t, plans, results: pool.results, crashed: pool.crashed, inconclusive: pool.inconclusive })
}

pub fn cleanup_keep(scratch: &Path, name: &str) {
    let _ = std::fs::remove_dir_all(scratch.join(format!("{}-keep", name)));
}

// ---------------------------------------------------------------------------------------
// directed crash scenarios (deterministic worker: manual flush mode)
// ---------------------------------------------------------------------------------------

pub struct E2Scenario {
    pub id: &'static str,
    pub property: &'static str,
    pub title: &'static str,
    pub cfg: Cfg,
    pub w: Workload,
    pub classes: &'static [&'static str],
    pub filter: fn(&ImagePlan) -> bool,
    /// every n-th image also gets the commit-after-recovery + second-reopen probe (0 = none)
    pub probe_every: usize,
}

fn base_w() -> Workload {
    Workload {
        txns: 12,
        committers: 1,
        nkeys: 6,
        max_value: 100,
        immediate_pct: 100,
        sync_every: 0,
        close_at_end: true,
        delete_pct: 0,
        first_txn: 1,
        big_batch_pct: 0,
        manual_flush_every: 6,
        hook_rotate_pct: 0,
        hook_flush_pct: 0,
        stale_writer_after_failure: false,
    }
}

pub fn e2_scenarios() -> Vec<E2Scenario> {
    vec![E2Scenario {
        id: "C11-vlog-rotation-inside-flush-not-synced",
        property: "C11",
        title: "power loss after a flush that rotated the value log: values in the rotated-away file",
        cfg: Cfg {
            vlog: true,
            vlog_threshold: 0,
            vlog_max_file: 256,
            max_memtable_size: 64 * 1024,
            flush_on_close: false,
            level_count: 3,
            l0_max_files: 4,
            max_bytes_for_level: 1 << 20,
            ..Cfg::default()
        },
        w: base_w(),
        classes: &["vlog_read", "durability", "prefix"],
        filter: |p| p.loss == Loss::PowerNone,
        probe_every: 0,
    },
    E2Scenario {
        id: "C07-compaction-output-not-synced",
        property: "C07",
        title: "power loss after a compaction installed its output table",
        cfg: Cfg {
            vlog: false,
            max_memtable_size: 64 * 1024,
            flush_on_close: false,
            level_count: 3,
            l0_max_files: 1,
            max_bytes_for_level: 1 << 20,
            ..Cfg::default()
        },
        w: base_w(),
        classes: &["open", "read", "durability", "prefix"],
        filter: |p| p.loss == Loss::PowerNone,
        probe_every: 0,
    },
    E2Scenario {
        id: "C07-torn-multi-block-record",
        property: "C07",
        title: "power cut inside a commit-log record that spans several blocks, then a commit and another reopen",
        cfg: Cfg { vlog: false, max_memtable_size: 2 * 1024 * 1024, flush_on_close: false, level_count: 3, l0_max_files: 4, max_bytes_for_level: 1 << 20, ..Cfg::default() },
        w: Workload { txns: 14, nkeys: 8, max_value: 150_000, immediate_pct: 0, big_batch_pct: 0, manual_flush_every: 1000, close_at_end: false, ..base_w() },
        classes: &["open", "probe", "reopen_differs", "read", "prefix", "durability"],
        filter: |p| matches!(&p.loss, Loss::PowerCut { file, .. } if file.ends_with(".wal")),
        probe_every: 1,
    }]
}

/// Runs the directed crash scenarios that belong to `prop`.
pub fn run_scenarios(run: &mut Run, prop: &str) {
    let findings = load_findings();
    let scratch = crate::e1::scratch_root().join(format!("e2s-{}", prop));
    let _ = std::fs::create_dir_all(&scratch);
    let mut results = vec![];
    for s in e2_scenarios().into_iter().filter(|s| s.property == prop) {
        let out = match trace_and_verify(&scratch, "scen", &s.cfg, &s.w, 1, true, &s.filter, s.probe_every, None) {
            Ok(o) => o,
            Err(e) => {
                run.inconclusive(&format!("directed crash scenario {}: {}", s.id, e));
                continue;
            }
        };
        let mut bad: Option<(usize, String)> = None;
        for r in &out.results {
            if let Some(ps) = r["problems"].as_array() {
                for p in ps {
                    if s.classes.contains(&p[0].as_str().unwrap_or("")) && bad.is_none() {
                        bad = Some((r["idx"].as_u64().unwrap_or(0) as usize, format!("[{}] {}", p[0].as_str().unwrap_or(""), p[1].as_str().unwrap_or(""))));
                    }
                }
            }
        }
        results.push(json!({"scenario": s.id, "title": s.title, "images": out.results.len(), "holds": bad.is_none(), "detail": bad.as_ref().map(|b| b.1.clone())}));
        if let Some((idx, what)) = bad {
            let plan = &out.plans[idx.min(out.plans.len() - 1)];
            let msg = format!("{}: crash after {} ({:?}): {}", s.title, rec_short(&out.t.recs[plan.upto]), plan.loss, what);
            if finding_open(&findings, s.id) {
                run.known_finding(s.id, &msg);
            } else {
                run.violation(&format!("directed crash scenario {}: {}", s.id, msg), json!({"engine": "e2-scenario", "scenario": s.id, "image_index": idx}));
            }
        }
        cleanup_keep(&scratch, "scen");
    }
    let _ = std::fs::remove_dir_all(&scratch);
    run.cov("directed_crash_scenarios", json!(results));
}

// ---------------------------------------------------------------------------------------
// campaign
// ---------------------------------------------------------------------------------------

pub struct CrashStats {
    pub traces: usize,
    pub trace_ops: usize,
    pub images: u64,
    pub nontrivial: u64,
    pub by_loss: BTreeMap<String, u64>,
    pub sigs: BTreeSet<String>,
    pub probes: u64,
    pub open_failures: u64,
    pub samples: Vec<J>,
    pub commits: usize,
    pub concurrent_traces: usize,
    pub gen2_runs: u64,
    pub gen2_images: u64,
}

/// Runs the crash-image campaign and reports the violations that belong to `prop`.
/// returns (evaluations, distinct non-trivial)
pub fn run_part(run: &mut Run, a: &Args, prop: &str) -> (u64, u64, Vec<J>) {
    run_part_with(run, a, prop, VlogMode::Any)
}

pub fn run_part_with(run: &mut Run, a: &Args, prop: &str, vlog: VlogMode) -> (u64, u64, Vec<J>) {
    run_scenarios(run, prop);
    let scratch = crate::e1::scratch_root().join(format!("e2-{}", prop));
    let _ = std::fs::create_dir_all(&scratch);
    let ntraces = a.tier.pick(16, 80);
    let mut r = Rng::new(a.seed ^ 0xE2E2);
    let mut st = CrashStats {
        traces: 0,
        trace_ops: 0,
        images: 0,
        nontrivial: 0,
        by_loss: BTreeMap::new(),
        sigs: BTreeSet::new(),
        probes: 0,
        open_failures: 0,
        samples: vec![],
        commits: 0,
        concurrent_traces: 0,
        gen2_runs: 0,
        gen2_images: 0,
    };
    let mine: BTreeSet<&str> = classes_of(prop).iter().cloned().collect();
    let mut reported = 0usize;
    let only_trace: Option<usize> = std::env::var("VERIF_E2_TRACE").ok().and_then(|v| v.parse().ok()); // debug
    for ti in 0..ntraces {
        let mut tr = r.fork(ti as u64);
        if only_trace.is_some_and(|o| o != ti) {
            continue;
        }
        let cfg = e2_cfg(&mut tr, vlog);
        let committers = if ti % 3 == 2 { tr.range(2, 6) as usize } else { 1 };
        let mut w = e2_workload(&mut tr, &cfg, a.tier.pick(70, 160), committers);
        // every 4th trace: rotations injected between a commit's WAL write and its apply;
        // half of those in deterministic mode with flushes of the oldest immutable memtable
        // injected after publishes (so the older memtable is flushed while the newer is not)
        let mut cfg = cfg;
        if ti % 8 == 5 {
            // commit-log records that span several 32 KiB blocks (batches of ~ a third of a
            // 256 KiB memtable): crash points and power cuts inside such a record
            cfg.max_memtable_size = 512 * 1024;
            w = e2_workload(&mut tr, &cfg, a.tier.pick(40, 90), committers);
            w.max_value = 100_000; // one value in ten is up to 100 KB
            w.nkeys = 10;
        }
        if ti % 4 == 1 {
            w.hook_rotate_pct = *tr.pick(&[10, 25, 50]);
        } else if ti % 4 == 3 {
            w.manual_flush_every = *tr.pick(&[7, 13]);
            w.hook_rotate_pct = *tr.pick(&[15, 35]);
            w.hook_flush_pct = *tr.pick(&[20, 50]);
        }
        let name = format!("t{}", ti);
        let dense = a.tier == Tier::Thorough;
        let out = match trace_and_verify(&scratch, &name, &cfg, &w, a.seed.wrapping_add(ti as u64), dense, &|_| true, a.tier.pick(7, 3), None) {
            Ok(o) => o,
            Err(e) => {
                run.inconclusive(&format!("trace {}: {}", ti, e));
                continue;
            }
        };
        let t = &out.t;
        let plans = &out.plans;
        st.traces += 1;
        st.trace_ops += t.recs.len();
        st.commits += t.txns.len();
        if committers > 1 {
            st.concurrent_traces += 1;
        }
        for m in &out.inconclusive {
            run.inconclusive(&format!("trace {}: {}", ti, m));
        }
        for (i, status) in &out.crashed {
            st.images += 1;
            if mine.contains("crash") && reported < 6 {
                reported += 1;
                run.violation(
                    &format!("verifier process died ({}) while opening crash image {} of trace {} ({:?}), also when re-run alone", status, i, ti, plans[*i].loss),
                    replay_json(t, &w, &plans[*i], *i),
                );
            }
        }
        for res in &out.results {
            st.images += 1;
            let idx = res["idx"].as_u64().unwrap_or(0) as usize;
            let plan = &plans[idx.min(plans.len() - 1)];
            let lk = e2::loss_json(&plan.loss)["k"].as_str().unwrap_or("?").to_string();
            *st.by_loss.entry(lk).or_insert(0) += 1;
            if res["nontrivial"].as_bool().unwrap_or(false) {
                st.nontrivial += 1;
                if let Some(s) = res["sig"].as_str() {
                    st.sigs.insert(format!("{}|{}", cfg.sig(), s));
                }
            }
            if res["probe"].as_bool().unwrap_or(false) {
                st.probes += 1;
            }
            if !res["open_ok"].as_bool().unwrap_or(true) {
                st.open_failures += 1;
            }
            if st.samples.len() < 4 && res["nontrivial"].as_bool().unwrap_or(false) && (idx % 97 == 3 || st.samples.is_empty()) {
                st.samples.push(json!({"trace": ti, "options": cfg.to_json(), "workload": w.to_json(), "crash_after_trace_record": plan.upto,
                    "record": rec_short(&t.recs[plan.upto]), "loss": e2::loss_json(&plan.loss), "required_prefix": res["required"], "recovered_prefix": res["prefix"]}));
            }
            if let Some(ps) = res["problems"].as_array() {
                for p in ps {
                    let class = p[0].as_str().unwrap_or("");
                    if mine.contains(class) && reported < 6 {
                        reported += 1;
                        let mut rj = replay_json(t, &w, plan, idx);
                        if let Some(k) = res["kept"].as_str() {
                            let dst = Path::new(crate::evidence::VERIF_DIR).join("replays").join(prop).join(format!("image-{}-{}-{}", a.seed, ti, idx));
                            let _ = std::fs::remove_dir_all(&dst);
                            if crate::e1::copy_dir(Path::new(k), &dst).is_ok() {
                                rj["image_dir"] = json!(dst);
                            }
                        }
                        run.violation(
                            &format!(
                                "[{}] trace {} crash after record {} ({}) model {:?}: {}",
                                class,
                                ti,
                                plan.upto,
                                rec_short(&t.recs[plan.upto]),
                                plan.loss,
                                p[1].as_str().unwrap_or("")
                            ),
                            rj,
                        );
                    }
                }
            }
        }
        // ---- second generation: crash -> recover -> commit -> crash ----
        // A few verified images of this trace become the starting directory of another traced
        // run (its open = the recovery is traced too, so crash points inside recovery are
        // enumerated); every image of that run must keep what the first recovery returned plus
        // what the second session acknowledged.
        let mut g2r = tr.fork(0x62);
        let mut clean: Vec<(usize, usize)> = out
            .results
            .iter()
            .filter(|r| r["problems"].as_array().map(|p| p.is_empty()).unwrap_or(false) && r["open_ok"].as_bool().unwrap_or(false) && r["prefix"].is_u64())
            .map(|r| (r["idx"].as_u64().unwrap_or(0) as usize, r["prefix"].as_u64().unwrap_or(0) as usize))
            .filter(|(i, n)| *i < plans.len() && *n > 0)
            .collect();
        for i in (1..clean.len()).rev() {
            let j = g2r.usize(i + 1);
            clean.swap(i, j);
        }
        // images whose commit log ends in a torn tail come first - above all a tail that is the
        // only content of a fresh segment (the next session appends right behind whatever the
        // recovery left there); the rest stays in its shuffled order
        let torn_rank = |idx: usize| match &plans[idx].loss {
            Loss::PowerCut { file, writes, .. } if file.ends_with(".wal") && *writes == 0 => 0,
            Loss::PowerCut { file, .. } if file.ends_with(".wal") => 1,
            _ => 2,
        };
        let mut picked: Vec<(usize, usize)> = vec![];
        for rank in 0..2 {
            if let Some(x) = clean.iter().find(|(i, _)| torn_rank(*i) == rank) {
                picked.push(*x);
            }
        }
        for x in &clean {
            if picked.len() >= a.tier.pick(3, 6) {
                break;
            }
            if !picked.contains(x) {
                picked.push(*x);
            }
        }
        for (gi, (idx, n)) in picked.into_iter().enumerate() {
            let plan = &plans[idx];
            let imgdir = scratch.join(format!("{}-g2img{}", name, gi));
            let mut fs = t.base.clone();
            for r in t.recs.iter().take(plan.upto + 1) {
                fs.apply(&t.root, r);
            }
            if fs.write_image(&imgdir, &plan.loss).is_err() {
                continue;
            }
            let mut w2 = e2_workload(&mut g2r, &cfg, a.tier.pick(20, 40), 1);
            w2.first_txn = 100_000;
            w2.nkeys = w.nkeys;
            if gi % 2 == 0 {
                // enough data for a memtable rotation inside the second session: what it logged
                // before and after the rotation lies in different segments
                w2.max_value = cfg.max_memtable_size / 6;
                w2.txns = a.tier.pick(30, 50);
            }
            let name2 = format!("{}g{}", name, gi);
            let t2 = match e2::run_worker(&scratch, &name2, &cfg, &w2, a.seed.wrapping_add(7000 + ti as u64 * 10 + gi as u64), None, Some(&imgdir)) {
                Ok(t2) => t2,
                Err(e) => {
                    run.inconclusive(&format!("trace {} generation 2: {}", ti, e));
                    let _ = std::fs::remove_dir_all(&imgdir);
                    continue;
                }
            };
            if let Some(e) = t2.worker_out["open_error"].as_str() {
                if mine.contains("open") && reported < 6 {
                    reported += 1;
                    run.violation(&format!("[open] trace {} generation 2: the image after record {} ({:?}) opened in the verifier but not in the second-generation run: {}", ti, plan.upto, plan.loss, e), replay_json(t, &w, plan, idx));
                }
                let _ = std::fs::remove_dir_all(&imgdir);
                let _ = std::fs::remove_dir_all(&t2.dir);
                continue;
            }
            let mut combined: Vec<e2::TxnRec> = t.txns.iter().take(n).cloned().collect();
            combined.extend(t2.txns.iter().filter(|x| x.first_seq > 0).cloned());
            let mut pr = g2r.fork(gi as u64);
            let plans2 = e2::plan_images(&t2, &mut pr, false, 1);
            let job = Job {
                trace_file: scratch.join(format!("{}.trace", name2)),
                root: t2.root.clone(),
                cfg: cfg.clone(),
                txns: combined,
                failed: t2.failed.iter().map(|f| f.id).collect(),
                failed_recs: vec![],
                base_required: n,
                plans: plans2.clone(),
                probe_every: a.tier.pick(13, 5),
                base_dir: Some(imgdir.clone()),
                keep_dir: None,
            };
            let jobfile = scratch.join(format!("{}.job.json", name2));
            let _ = std::fs::write(&jobfile, serde_json::to_vec(&job.to_json()).unwrap());
            let pool = e2::run_pool(&jobfile, plans2.len(), crate::campaign::threads());
            for m in &pool.inconclusive {
                run.inconclusive(&format!("trace {} generation 2: {}", ti, m));
            }
            st.gen2_runs += 1;
            for res in &pool.results {
                st.images += 1;
                st.gen2_images += 1;
                let i2 = res["idx"].as_u64().unwrap_or(0) as usize;
                let p2 = &plans2[i2.min(plans2.len() - 1)];
                if res["nontrivial"].as_bool().unwrap_or(false) {
                    st.nontrivial += 1;
                    if let Some(sg) = res["sig"].as_str() {
                        st.sigs.insert(format!("{}|g2|{}", cfg.sig(), sg));
                    }
                }
                if let Some(ps) = res["problems"].as_array() {
                    for p in ps {
                        let class = p[0].as_str().unwrap_or("");
                        if mine.contains(class) && reported < 6 {
                            reported += 1;
                            let mut rj = replay_json(&t2, &w2, p2, i2);
                            rj["generation"] = json!(2);
                            rj["first_generation"] = replay_json(t, &w, plan, idx);
                            run.violation(
                                &format!(
                                    "[{}] trace {} generation 2 (started from the image after record {} under {:?}, which had recovered {} transactions), crash after record {} ({}) model {:?}: {}",
                                    class, ti, plan.upto, plan.loss, n, p2.upto, rec_short(&t2.recs[p2.upto]), p2.loss, p[1].as_str().unwrap_or("")
                                ),
                                rj,
                            );
                        }
                    }
                }
            }
            let _ = std::fs::remove_file(&jobfile);
            let _ = std::fs::remove_file(scratch.join(format!("{}.trace", name2)));
            let _ = std::fs::remove_file(scratch.join(format!("{}.out.json", name2)));
            let _ = std::fs::remove_dir_all(&t2.dir);
            let _ = std::fs::remove_dir_all(&imgdir);
        }
        cleanup_keep(&scratch, &name);
    }
    let _ = std::fs::remove_dir_all(&scratch);
    run.cov(
        "crash",
        json!({
            "traces": st.traces, "trace_records": st.trace_ops, "commits_traced": st.commits, "concurrent_committer_traces": st.concurrent_traces,
            "images_opened": st.images, "images_with_acknowledged_commits": st.nontrivial, "images_by_loss_model": st.by_loss,
            "probe_commit_checks": st.probes, "open_failures": st.open_failures, "second_generation_runs": st.gen2_runs, "second_generation_images": st.gen2_images, "distinct_signatures": st.sigs.len(),
            "samples": st.samples.clone(),
        }),
    );
    (st.images, st.sigs.len() as u64, st.samples)
}

pub fn rec_short(r: &crate::trace::Rec) -> String {
    let p = r.path.rsplit('/').next().unwrap_or("");
    match r.op {
        crate::trace::Op::Write | crate::trace::Op::Pwrite => format!("{:?} {} off={} len={}", r.op, p, r.off, r.len),
        crate::trace::Op::Rename => format!("Rename {} -> {}", p, r.path2.rsplit('/').next().unwrap_or("")),
        crate::trace::Op::Mark => format!("Mark {}", String::from_utf8_lossy(&r.data)),
        _ => format!("{:?} {}", r.op, p),
    }
}

fn replay_json(t: &TraceRun, w: &Workload, plan: &ImagePlan, idx: usize) -> J {
    json!({"engine": "e2", "options": t.cfg.to_json(), "workload": w.to_json(), "worker_seed": t.seed,
        "image_index": idx, "crash_after_trace_record": plan.upto, "ack_reference_record": plan.ref_pos, "loss": e2::loss_json(&plan.loss),
        "record": rec_short(&t.recs[plan.upto]),
        "note": "image_dir holds the pristine crash image; `./check <prop> --replay <this file>` opens a copy of it with the recorded options and repeats the checks"})
}
