//! C10 - time-travel reads and version history are exact and permanent.
use crate::campaign::{self, Campaign};
use crate::cfg::{VerMode, VlogMode};
use crate::e1::{ExecOpts, GenParams};
use crate::evidence::Run;
use crate::Args;
use serde_json::json;

fn base(a: &Args) -> Campaign {
    Campaign {
        histories: a.tier.pick(120, 2000),
        variants: a.tier.pick(4, 12),
        gen: GenParams {
            steps: 80,
            nkeys: 8,
            // readers held open across compactions: history must not shrink because of them
            readers: true,
            max_readers: 2,
            cursors: false,
            reader_pending: false,
            reopen: true,
            explicit_ts: true,
            out_of_order_ts: false,
            clock_advance: false,
            delete_pct: 45,
            placement_pct: 40,
            big_values: false,
            ..Default::default()
        },
        ver: VerMode::On,
        vlog: VlogMode::On,
        exec: ExecOpts { fresh_battery: true, versioned: true, ..Default::default() },
        tweak: |c, r| {
            if r.chance(1, 2) {
                c.level_count = r.range(1, 3) as u8;
            }
        },
        nontrivial: |s| s.compactions_changed > 0 && s.hist_checks > 0,
        minimise_budget: 150,
    }
}

const F_INDEX_CRASH: &str = "C10-version-index-not-crash-consistent";

/// Traced runs of a versioned store (sets only, so every version is retained), flushes every
/// few commits; every process-crash image is opened by the real code: commit prefix + the
/// version history of every key exactly as the prefix wrote it.
fn crash_part(run: &mut Run, a: &Args) -> (u64, u64) {
    use crate::e2::Workload;
    use crate::trace::Loss;
    let scratch = crate::e1::scratch_root().join("c10-crash");
    let _ = std::fs::create_dir_all(&scratch);
    let mine: std::collections::BTreeSet<&str> = crate::props::crash::classes_of("C10").iter().cloned().collect();
    let mut evals = 0u64;
    let mut sigs = std::collections::BTreeSet::new();
    let mut reported = 0;
    let mut by_backend = std::collections::BTreeMap::new();
    let findings = crate::evidence::load_findings();
    let f_index_open = crate::evidence::finding_open(&findings, F_INDEX_CRASH);
    let mut index_crash_hits = 0u64;
    let mut index_crash_first: Option<String> = None;
    for ti in 0..a.tier.pick(4, 24) {
        let index = ti % 2 == 0;
        let cfg = crate::cfg::Cfg {
            versioning: true,
            vlog: true,
            vlog_threshold: 0,
            index,
            flush_on_close: ti % 4 < 2,
            max_memtable_size: 64 * 1024,
            level_count: 3,
            l0_max_files: 2,
            max_bytes_for_level: 2048,
            ..crate::cfg::Cfg::default()
        };
        let w = Workload {
            txns: a.tier.pick(30, 60),
            committers: 1,
            nkeys: 6,
            max_value: 80,
            immediate_pct: 20,
            sync_every: 0,
            close_at_end: true,
            delete_pct: 0,
            first_txn: 1,
            big_batch_pct: 0,
            manual_flush_every: [4, 7][ti % 2],
            hook_rotate_pct: 0,
            hook_flush_pct: 0,
            stale_writer_after_failure: false,
        };
        let out = match crate::props::crash::trace_and_verify(&scratch, &format!("v{}", ti), &cfg, &w, a.seed.wrapping_add(500 + ti as u64), false, &|p| p.loss == Loss::Process, 0, None) {
            Ok(o) => o,
            Err(e) => {
                run.inconclusive(&format!("versioned trace {}: {}", ti, e));
                continue;
            }
        };
        for m in &out.inconclusive {
            run.inconclusive(&format!("versioned trace {}: {}", ti, m));
        }
        for res in &out.results {
            evals += 1;
            *by_backend.entry(if index { "index" } else { "lsm" }).or_insert(0u64) += 1;
            if let Some(sg) = res["sig"].as_str() {
                sigs.insert(format!("{}|{}", index, sg));
            }
            let idx = res["idx"].as_u64().unwrap_or(0) as usize;
            let plan = &out.plans[idx.min(out.plans.len() - 1)];
            for p in res["problems"].as_array().cloned().unwrap_or_default() {
                let class = p[0].as_str().unwrap_or("");
                let text = p[1].as_str().unwrap_or("");
                // open known finding: the version index file is updated in place without any
                // crash protection; a crash between its page writes leaves a tree that does
                // not load. Exactly that pattern (index on, the error comes from the B+tree
                // loader) is attributed to the finding.
                if index && text.contains("B+ tree error") && (class == "open" || class == "history_after_crash" || class == "read") {
                    if f_index_open {
                        index_crash_hits += 1;
                        if index_crash_first.is_none() {
                            index_crash_first = Some(format!("versioned store with the version index, process crash after trace record {} ({}): {}", plan.upto, crate::props::crash::rec_short(&out.t.recs[plan.upto]), text));
                        }
                        continue;
                    }
                }
                if mine.contains(class) && reported < 6 {
                    reported += 1;
                    run.violation(
                        &format!("[{}] versioned trace {} (version index {}), process crash after record {} ({}): {}", class, ti, if index { "on" } else { "off" }, plan.upto, crate::props::crash::rec_short(&out.t.recs[plan.upto]), p[1].as_str().unwrap_or("")),
                        json!({"engine": "e2", "part": "c10-crash", "options": cfg.to_json(), "workload": w.to_json(), "crash_after_trace_record": plan.upto}),
                    );
                }
            }
        }
        crate::props::crash::cleanup_keep(&scratch, &format!("v{}", ti));
    }
    let _ = std::fs::remove_dir_all(&scratch);
    if let Some(w) = index_crash_first {
        run.known_finding(F_INDEX_CRASH, &format!("{} ({} crash images of this run show it)", w, index_crash_hits));
    }
    run.cov("crash_images_versioned", json!({"images": evals, "by_backend": by_backend, "distinct_signatures": sigs.len(), "images_attributed_to_open_finding": index_crash_hits}));
    (evals, sigs.len() as u64)
}

pub fn run(a: &Args) -> i32 {
    surrealkv::verif::set_manual_background(true);
    let mut run = Run::new("C10", a.tier, a.seed, "exploration");
    let open = crate::scenarios::run_for(&mut run, "C10");
    // 1. both back-ends (the variants of one logical history alternate index on/off), unlimited retention
    let c1 = base(a);
    let out1 = campaign::run_campaign(&c1, a.seed, "c10a");
    campaign::report_failures(&mut run, &out1, &c1.exec);
    // 2. out-of-order timestamps, index back-end only
    let mut c2 = base(a);
    c2.histories = a.tier.pick(60, 800);
    c2.ver = VerMode::OnIndex;
    c2.gen.out_of_order_ts = true;
    let out2 = campaign::run_campaign(&c2, a.seed ^ 0x10, "c10b");
    campaign::report_failures(&mut run, &out2, &c2.exec);
    // 3. finite retention under a controlled clock
    let mut c3 = base(a);
    c3.histories = a.tier.pick(60, 800);
    c3.gen.clock_advance = true;
    c3.tweak = |c, r| {
        c.retention = *r.pick(&[20, 100, 400]);
        if r.chance(1, 2) {
            c.level_count = r.range(1, 3) as u8;
        }
    };
    // masks of open known findings (exactly the triggering pattern is excluded)
    let mut masks = vec![];
    if open.iter().any(|f| f == "C10-retention-drops-replace-barrier") {
        c3.gen.no_replace = true;
        masks.push("finite-retention histories write no Replace (C10-retention-drops-replace-barrier)");
    }
    if open.iter().any(|f| f == "C10-index-retention-barrier-cleaned") {
        c3.ver = VerMode::OnNoIndex;
        masks.push("finite-retention histories run on the LSM back-end only (C10-index-retention-barrier-cleaned)");
    }
    run.cov("generator_masks", json!(masks));
    let out3 = campaign::run_campaign(&c3, a.seed ^ 0x20, "c10c");
    campaign::report_failures(&mut run, &out3, &c3.exec);
    // 4. crash clause: process-crash images at every file-operation boundary of traced runs
    // with versioning on (both back-ends); the version index is updated in place during a flush
    let (crash_evals, crash_distinct) = crash_part(&mut run, a);
    run.cov("unlimited_retention_both_backends", campaign::stats_json(&out1.stats));
    run.cov("out_of_order_timestamps_index_backend", campaign::stats_json(&out2.stats));
    run.cov("finite_retention_manual_clock", campaign::stats_json(&out3.stats));
    run.cov("option_sets", json!(out1.cfg_sigs.len() + out2.cfg_sigs.len() + out3.cfg_sigs.len()));
    let mut distinct = out1.distinct.clone();
    distinct.extend(out2.distinct.iter().cloned());
    distinct.extend(out3.distinct.iter().cloned());
    let mut samples = out1.samples.clone();
    samples.extend(out3.samples.iter().cloned().take(1));
    run.assumptions = vec![
        "timestamps non-decreasing per key except in the index-only campaign; equal timestamps accept any tied version".into(),
        "finite retention: a version is required only if it was inside the window at the last compaction the harness ran (manual clock); older ones may be present or absent".into(),
        "the crash clause (process-crash images around index flushes) is part of the crash engine runs of this check".into(),
    ];
    let _ = crash_distinct;
    run.finish(
        out1.evaluations + out2.evaluations + out3.evaluations + crash_evals,
        distinct.len() as u64,
        a.tier.pick(100, 1000),
        "one evaluation = one execution of a generated timestamped history (sets, soft/hard deletes, replaces, explicit timestamps) under one placement schedule and option set (index on/off alternates between the variants of one logical history); after every step get_at at every interesting timestamp and complete forward/backward history traversals with option variants are compared with the retained-version model, or one process-crash image of a traced versioned run (both back-ends) opened by the real code and checked for commit-prefix state and per-key version history; non-trivial = a compaction changed the table set and history was checked; distinct = (option signature, level-shape set)",
        samples,
    )
}
