//! C10 - time-travel reads and version history are exact and permanent.
use crate::campaign::{self, Campaign};
use crate::cfg::{VerMode, VlogMode};
use crate::e1::{ExecOpts, GenParams};
use crate::evidence::Run;
use crate::Args;
use serde_json::json;

fn base(a: &Args) -> Campaign {
    Campaign {
        histories: a.tier.pick(120, 2000),
        variants: a.tier.pick(4, 12),
        gen: GenParams {
            steps: 80,
            nkeys: 8,
            // readers held open across compactions: history must not shrink because of them
            readers: true,
            max_readers: 2,
            cursors: false,
            reader_pending: false,
            reopen: true,
            explicit_ts: true,
            out_of_order_ts: false,
            clock_advance: false,
            delete_pct: 45,
            placement_pct: 40,
            big_values: false,
            ..Default::default()
        },
        ver: VerMode::On,
        vlog: VlogMode::On,
        exec: ExecOpts { fresh_battery: true, versioned: true, ..Default::default() },
        tweak: |c, r| {
            if r.chance(1, 2) {
                c.level_count = r.range(1, 3) as u8;
            }
        },
        nontrivial: |s| s.compactions_changed > 0 && s.hist_checks > 0,
        minimise_budget: 150,
    }
}

pub fn run(a: &Args) -> i32 {
    surrealkv::verif::set_manual_background(true);
    let mut run = Run::new("C10", a.tier, a.seed, "exploration");
    let open = crate::scenarios::run_for(&mut run, "C10");
    // 1. both back-ends (the variants of one logical history alternate index on/off), unlimited retention
    let c1 = base(a);
    let out1 = campaign::run_campaign(&c1, a.seed, "c10a");
    campaign::report_failures(&mut run, &out1, &c1.exec);
    // 2. out-of-order timestamps, index back-end only
    let mut c2 = base(a);
    c2.histories = a.tier.pick(60, 800);
    c2.ver = VerMode::OnIndex;
    c2.gen.out_of_order_ts = true;
    let out2 = campaign::run_campaign(&c2, a.seed ^ 0x10, "c10b");
    campaign::report_failures(&mut run, &out2, &c2.exec);
    // 3. finite retention under a controlled clock
    let mut c3 = base(a);
    c3.histories = a.tier.pick(60, 800);
    c3.gen.clock_advance = true;
    c3.tweak = |c, r| {
        c.retention = *r.pick(&[20, 100, 400]);
        if r.chance(1, 2) {
            c.level_count = r.range(1, 3) as u8;
        }
    };
    // masks of open known findings (exactly the triggering pattern is excluded)
    let mut masks = vec![];
    if open.iter().any(|f| f == "C10-retention-drops-replace-barrier") {
        c3.gen.no_replace = true;
        masks.push("finite-retention histories write no Replace (C10-retention-drops-replace-barrier)");
    }
    if open.iter().any(|f| f == "C10-index-retention-barrier-cleaned") {
        c3.ver = VerMode::OnNoIndex;
        masks.push("finite-retention histories run on the LSM back-end only (C10-index-retention-barrier-cleaned)");
    }
    run.cov("generator_masks", json!(masks));
    let out3 = campaign::run_campaign(&c3, a.seed ^ 0x20, "c10c");
    campaign::report_failures(&mut run, &out3, &c3.exec);
    run.cov("unlimited_retention_both_backends", campaign::stats_json(&out1.stats));
    run.cov("out_of_order_timestamps_index_backend", campaign::stats_json(&out2.stats));
    run.cov("finite_retention_manual_clock", campaign::stats_json(&out3.stats));
    run.cov("option_sets", json!(out1.cfg_sigs.len() + out2.cfg_sigs.len() + out3.cfg_sigs.len()));
    let mut distinct = out1.distinct.clone();
    distinct.extend(out2.distinct.iter().cloned());
    distinct.extend(out3.distinct.iter().cloned());
    let mut samples = out1.samples.clone();
    samples.extend(out3.samples.iter().cloned().take(1));
    run.assumptions = vec![
        "timestamps non-decreasing per key except in the index-only campaign; equal timestamps accept any tied version".into(),
        "finite retention: a version is required only if it was inside the window at the last compaction the harness ran (manual clock); older ones may be present or absent".into(),
        "the crash clause (process-crash images around index flushes) is part of the crash engine runs of this check".into(),
    ];
    run.finish(
        out1.evaluations + out2.evaluations + out3.evaluations,
        distinct.len() as u64,
        a.tier.pick(100, 1000),
        "one evaluation = one execution of a generated timestamped history (sets, soft/hard deletes, replaces, explicit timestamps) under one placement schedule and option set (index on/off alternates between the variants of one logical history); after every step get_at at every interesting timestamp and complete forward/backward history traversals with option variants are compared with the retained-version model; non-trivial = a compaction changed the table set and history was checked; distinct = (option signature, level-shape set)",
        samples,
    )
}
