//! C07 - the store can always reopen what it wrote (clean-close part; the crash part uses
//! the recorded-I/O engine, see c07 crash section).
use crate::campaign::{self, Campaign};
use crate::cfg::{VerMode, VlogMode};
use crate::e1::{ExecOpts, GenParams};
use crate::evidence::Run;
use crate::Args;
use serde_json::json;

pub fn campaign(a: &Args) -> Campaign {
    Campaign {
        histories: a.tier.pick(300, 5000),
        variants: a.tier.pick(4, 8),
        gen: GenParams {
            steps: 100,
            nkeys: 14,
            readers: false,
            cursors: false,
            reader_pending: false,
            reopen: true,
            delete_pct: 45,
            placement_pct: 45,
            ..Default::default()
        },
        ver: VerMode::Any,
        vlog: VlogMode::Any,
        exec: ExecOpts { fresh_battery: true, reopen_mutate: true, ..Default::default() },
        tweak: |_c, _r| {},
        nontrivial: |s| s.reopens > 0 && s.compactions_changed > 0,
        minimise_budget: 150,
    }
}

pub fn run(a: &Args) -> i32 {
    surrealkv::verif::set_manual_background(true);
    let mut run = Run::new("C07", a.tier, a.seed, "fault_enumeration");
    crate::scenarios::run_for(&mut run, "C07");
    crate::matrix::run_for(&mut run, "C07");
    let mut c = campaign(a);
    // reopen much more often than the generic generator does
    c.gen.placement_pct = 45;
    let out = campaign::run_campaign(&c, a.seed, "c07");
    campaign::report_failures(&mut run, &out, &c.exec);
    run.cov("clean_reopen_observed", campaign::stats_json(&out.stats));
    run.cov("option_sets", json!(out.cfg_sigs.len()));
    let crash = crate::props::crash::run_part(&mut run, a, "C07");
    run.assumptions = vec![
        "clean-close part: single driver, manual background mode; after every reopen the full query battery is compared with the model, and later commits are compared too (ordering after recovered data)".into(),
    ];
    let floor = a.tier.pick(100, 1000);
    run.finish(
        out.evaluations + crash.0,
        out.distinct.len() as u64 + crash.1,
        floor,
        "clean part: one evaluation = one generated history with close+reopen steps (sometimes twice in a row, sometimes with a different format-compatible option set) woven between commits, flushes and compaction rounds; non-trivial = reopened at least once after a compaction changed the table set; distinct = distinct (option signature, level-shape set). crash part: see coverage.crash",
        {
            let mut s = out.samples;
            s.extend(crash.2);
            s
        },
    )
}
