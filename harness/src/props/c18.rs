//! C18: the B+tree index is a persistent ordered map.
//!
//! The real `BPlusTree` (public module) runs generated operation sequences next to a sorted
//! vector kept in the order of the same comparator (the sequential model of an ordered map):
//! every insert / delete / get result and every range scan is compared, the tree is closed
//! and reopened at arbitrary points, and at quiescent points the H7 census accounts for
//! every page of the file (reachable from the root, in an overflow chain, or on the free list).

use crate::campaign::par_for;
use crate::evidence::Run;
use crate::model::hex;
use crate::rng::{prg_bytes, Rng};
use crate::Args;
use serde_json::{json, Value as J};
use std::cmp::Ordering as Ord_;
use std::collections::{BTreeMap, BTreeSet};
use std::ops::Bound;
use std::path::Path;
use std::sync::atomic::{AtomicU64, Ordering};
use std::sync::{Arc, Mutex};
use surrealkv::bplustree::tree::{new_disk_tree, DiskBPlusTree};
use surrealkv::{BytewiseComparator, Comparator, LSMIterator, TimestampComparator};

#[derive(Clone, Debug)]
pub enum Op {
    Insert(Vec<u8>, Vec<u8>),
    Delete(Vec<u8>),
    Get(Vec<u8>),
    Range(Bound<Vec<u8>>, Bound<Vec<u8>>),
    /// timestamp order only: LSMIterator seek + steps (forward when true)
    Cursor(Vec<u8>, bool, u8),
    Reopen,
    Census,
}

#[derive(Clone, Debug)]
pub struct Case {
    pub seed: u64,
    pub ts_order: bool,
    pub shape: u8,
    pub nops: usize,
}

fn ts_key(user: &[u8], ts: u64) -> Vec<u8> {
    // encoded internal key: user key ++ trailer (seq << 8 | kind) ++ timestamp; the trailer is a
    // function of (user key, ts) so that keys equal under the timestamp order are identical
    let seq = (ts ^ (user.len() as u64 * 131)) & 0xffff_ffff;
    let mut k = user.to_vec();
    k.extend_from_slice(&((seq << 8) | 2).to_be_bytes());
    k.extend_from_slice(&ts.to_be_bytes());
    k
}

pub fn gen_ops(c: &Case) -> Vec<Op> {
    let mut r = Rng::new(c.seed);
    let mut ops = vec![];
    // key universe: skewed so that overwrites and deletes hit
    let universe: Vec<Vec<u8>> = {
        let n = match c.shape {
            0 => 12,
            1 => 80,
            2 => 400,
            _ => 2000,
        };
        let mut u = BTreeSet::new();
        while u.len() < n {
            let user: Vec<u8> = match r.below(10) {
                0 => prg_bytes(c.seed, 31, r.below(5000), r.range(1, 6) as usize),
                1 => {
                    // large key (overflow chain for the key itself)
                    let mut k = format!("big{:04}", r.below(300)).into_bytes();
                    let maxk: u64 = std::env::var("VERIF_C18_MAXKEY").ok().and_then(|s| s.parse().ok()).unwrap_or(5000);
                    k.extend(std::iter::repeat(b'K').take(r.range(maxk.min(900), maxk) as usize));
                    k
                }
                2 => {
                    let mut k = vec![b'p'; r.range(100, 300) as usize];
                    k.extend_from_slice(format!("{:05}", r.below(3000)).as_bytes());
                    k
                }
                3 => vec![0xff; r.range(1, 5) as usize],
                _ => format!("key{:06}", r.below(if c.shape >= 2 { 100_000 } else { 500 })).into_bytes(),
            };
            if c.ts_order {
                u.insert(ts_key(&user, r.below(6) * 10 + 1));
            } else {
                u.insert(user);
            }
        }
        u.into_iter().collect()
    };
    let val = |r: &mut Rng, i: usize| -> Vec<u8> {
        let len = match r.below(12) {
            0 => 0,
            1 => r.range(4000, 4200) as usize, // around a page
            2 => r.range(8000, 30000) as usize, // several overflow pages
            3 | 4 => r.range(300, 1100) as usize,
            _ => r.range(1, 60) as usize,
        };
        prg_bytes(c.seed, 32, i as u64, len)
    };
    let pick = |r: &mut Rng| universe[r.usize(universe.len())].clone();
    let bound = |r: &mut Rng| match r.below(4) {
        0 => Bound::Unbounded,
        1 | 2 => Bound::Included(universe[r.usize(universe.len())].clone()),
        _ => Bound::Excluded(universe[r.usize(universe.len())].clone()),
    };
    // phases give the tree something to split, merge and reuse: grow, shrink, churn
    let mut i = 0usize;
    while ops.len() < c.nops {
        let phase = (ops.len() * 6 / c.nops.max(1)) % 3;
        let w = r.below(100);
        let op = match phase {
            0 => {
                if w < 70 {
                    Op::Insert(pick(&mut r), val(&mut r, i))
                } else if w < 80 {
                    Op::Delete(pick(&mut r))
                } else if w < 92 {
                    Op::Get(pick(&mut r))
                } else {
                    Op::Range(bound(&mut r), bound(&mut r))
                }
            }
            1 => {
                if w < 65 {
                    Op::Delete(pick(&mut r))
                } else if w < 75 {
                    Op::Insert(pick(&mut r), val(&mut r, i))
                } else if w < 90 {
                    Op::Get(pick(&mut r))
                } else {
                    Op::Range(bound(&mut r), bound(&mut r))
                }
            }
            _ => {
                if w < 40 {
                    Op::Insert(pick(&mut r), val(&mut r, i))
                } else if w < 75 {
                    Op::Delete(pick(&mut r))
                } else if w < 88 {
                    Op::Get(pick(&mut r))
                } else if w < 94 || !c.ts_order {
                    Op::Range(bound(&mut r), bound(&mut r))
                } else {
                    Op::Cursor(pick(&mut r), r.chance(1, 2), r.range(1, 12) as u8)
                }
            }
        };
        ops.push(op);
        i += 1;
        if r.chance(1, 60) {
            ops.push(Op::Reopen);
        }
        if r.chance(1, 40) {
            ops.push(Op::Census);
        }
    }
    ops.push(Op::Census);
    ops.push(Op::Reopen);
    ops.push(Op::Range(Bound::Unbounded, Bound::Unbounded));
    ops.push(Op::Census);
    ops
}

struct Model {
    cmp: Arc<dyn Comparator>,
    v: Vec<(Vec<u8>, Vec<u8>)>,
}
impl Model {
    fn find(&self, k: &[u8]) -> Result<usize, usize> {
        self.v.binary_search_by(|e| self.cmp.compare(&e.0, k))
    }
    fn insert(&mut self, k: Vec<u8>, val: Vec<u8>) {
        match self.find(&k) {
            Ok(i) => self.v[i] = (k, val),
            Err(i) => self.v.insert(i, (k, val)),
        }
    }
    fn delete(&mut self, k: &[u8]) -> Option<Vec<u8>> {
        match self.find(k) {
            Ok(i) => Some(self.v.remove(i).1),
            Err(_) => None,
        }
    }
    fn get(&self, k: &[u8]) -> Option<&Vec<u8>> {
        self.find(k).ok().map(|i| &self.v[i].1)
    }
    fn range(&self, lo: &Bound<Vec<u8>>, hi: &Bound<Vec<u8>>) -> Vec<(Vec<u8>, Vec<u8>)> {
        self.v
            .iter()
            .filter(|e| {
                (match lo {
                    Bound::Unbounded => true,
                    Bound::Included(l) => self.cmp.compare(&e.0, l) != Ord_::Less,
                    Bound::Excluded(l) => self.cmp.compare(&e.0, l) == Ord_::Greater,
                }) && (match hi {
                    Bound::Unbounded => true,
                    Bound::Included(h) => self.cmp.compare(&e.0, h) != Ord_::Greater,
                    Bound::Excluded(h) => self.cmp.compare(&e.0, h) == Ord_::Less,
                })
            })
            .cloned()
            .collect()
    }
}

pub struct Problem {
    pub class: &'static str,
    pub what: String,
    pub step: usize,
}

#[derive(Default)]
pub struct Counters {
    pub ops: AtomicU64,
    pub reopens: AtomicU64,
    pub censuses: AtomicU64,
    pub max_pages: AtomicU64,
    pub overflow_seen: AtomicU64,
    pub free_reuse_seen: AtomicU64,
    pub shapes: Mutex<BTreeSet<String>>,
}

fn short(k: &[u8]) -> String {
    if k.len() > 24 {
        format!("{}..({} bytes)", hex(&k[..12]), k.len())
    } else {
        hex(k)
    }
}

pub fn run_case(c: &Case, root: &Path, cnt: &Counters, upto: Option<usize>) -> Option<Problem> {
    run_ops(c, &gen_ops(c), root, cnt, upto)
}

/// Delta-debugging of the operation list of a failing case (same problem class).
pub fn minimise(c: &Case, root: &Path, class: &'static str) -> Vec<Op> {
    let cnt = Counters::default();
    let mut ops = gen_ops(c);
    if let Some(p) = run_ops(c, &ops, root, &cnt, None) {
        if p.step < ops.len() {
            ops.truncate(p.step + 1);
        }
    }
    let mut chunk = ops.len() / 2;
    while chunk >= 1 {
        let mut i = 0;
        while i < ops.len() {
            let mut cand = ops.clone();
            let end = (i + chunk).min(cand.len());
            cand.drain(i..end);
            match run_ops(c, &cand, root, &cnt, None) {
                Some(p) if p.class == class => ops = cand,
                _ => i += chunk,
            }
        }
        chunk /= 2;
    }
    ops
}

pub fn run_ops(c: &Case, ops: &[Op], root: &Path, cnt: &Counters, upto: Option<usize>) -> Option<Problem> {
    let ops = ops.to_vec();
    let dir = root.join(format!("c18-{:x}-{:?}", c.seed, std::thread::current().id()));
    let _ = std::fs::remove_dir_all(&dir);
    let _ = std::fs::create_dir_all(&dir);
    let path = dir.join("index.bpt");
    let cmp: Arc<dyn Comparator> = if c.ts_order { Arc::new(TimestampComparator::new(Arc::new(BytewiseComparator {}))) } else { Arc::new(BytewiseComparator {}) };
    let mut model = Model { cmp: cmp.clone(), v: vec![] };
    let res = std::panic::catch_unwind(std::panic::AssertUnwindSafe(|| -> Option<Problem> {
        let mut tree: DiskBPlusTree = match new_disk_tree(&path, cmp.clone()) {
            Ok(t) => t,
            Err(e) => return Some(Problem { class: "open", what: format!("creating the tree failed: {e}"), step: 0 }),
        };
        let mut max_total = 0u64;
        let mut had_free = false;
        for (si, op) in ops.iter().enumerate() {
            if let Some(u) = upto {
                if si > u {
                    break;
                }
            }
            cnt.ops.fetch_add(1, Ordering::Relaxed);
            match op {
                Op::Insert(k, v) => {
                    if let Err(e) = tree.insert(k, v) {
                        return Some(Problem { class: "insert_error", what: format!("insert({}, {} value bytes) failed: {e}", short(k), v.len()), step: si });
                    }
                    model.insert(k.clone(), v.clone());
                }
                Op::Delete(k) => {
                    let exp = model.delete(k);
                    match tree.delete(k) {
                        Err(e) => return Some(Problem { class: "delete_error", what: format!("delete({}) failed: {e}", short(k)), step: si }),
                        Ok(got) => {
                            if got.as_ref().map(|b| b.to_vec()) != exp {
                                return Some(Problem { class: "delete_result", what: format!("delete({}) returned {:?} bytes, an ordered map returns {:?} bytes", short(k), got.map(|b| b.len()), exp.map(|b| b.len())), step: si });
                            }
                        }
                    }
                }
                Op::Get(k) => match tree.get(k) {
                    Err(e) => return Some(Problem { class: "get_error", what: format!("get({}) failed: {e}", short(k)), step: si }),
                    Ok(got) => {
                        let exp = model.get(k);
                        if got.as_ref().map(|b| b.to_vec()).as_ref() != exp {
                            return Some(Problem { class: "get_result", what: format!("get({}) returned {:?} bytes, an ordered map returns {:?} bytes", short(k), got.map(|b| b.len()), exp.map(|b| b.len())), step: si });
                        }
                    }
                },
                Op::Range(lo, hi) => {
                    let exp = model.range(lo, hi);
                    let lo_r: Bound<&[u8]> = match lo {
                        Bound::Unbounded => Bound::Unbounded,
                        Bound::Included(k) => Bound::Included(k.as_slice()),
                        Bound::Excluded(k) => Bound::Excluded(k.as_slice()),
                    };
                    let hi_r: Bound<&[u8]> = match hi {
                        Bound::Unbounded => Bound::Unbounded,
                        Bound::Included(k) => Bound::Included(k.as_slice()),
                        Bound::Excluded(k) => Bound::Excluded(k.as_slice()),
                    };
                    // inverted bounds: an ordered map yields nothing
                    let it = match tree.range((lo_r, hi_r)) {
                        Ok(it) => it,
                        Err(e) => return Some(Problem { class: "range_error", what: format!("range({:?}, {:?}) failed: {e}", lo.as_ref().map(|k| short(k)), hi.as_ref().map(|k| short(k))), step: si }),
                    };
                    let mut got = vec![];
                    for item in it {
                        match item {
                            Ok((k, v)) => got.push((k.to_vec(), v.to_vec())),
                            Err(e) => return Some(Problem { class: "range_error", what: format!("range scan failed after {} entries: {e}", got.len()), step: si }),
                        }
                        if got.len() > exp.len() + 8 {
                            break;
                        }
                    }
                    if got != exp {
                        let first = got.iter().zip(exp.iter()).position(|(a, b)| a != b).unwrap_or(got.len().min(exp.len()));
                        return Some(Problem {
                            class: "range_result",
                            what: format!("range({:?}, {:?}) yields {} entries, an ordered map {}; first difference at #{}: tree {:?} / map {:?}", lo.as_ref().map(|k| short(k)), hi.as_ref().map(|k| short(k)), got.len(), exp.len(), first, got.get(first).map(|e| (short(&e.0), e.1.len())), exp.get(first).map(|e| (short(&e.0), e.1.len()))),
                            step: si,
                        });
                    }
                }
                Op::Cursor(k, fwd, steps) => {
                    let mut it = tree.internal_iterator();
                    let mut pos = match it.seek(k) {
                        Ok(ok) => {
                            let exp = model.v.iter().position(|e| cmp.compare(&e.0, k) != Ord_::Less);
                            if ok != exp.is_some() {
                                return Some(Problem { class: "cursor", what: format!("seek({}) valid={} but the ordered map has {} at/after it", short(k), ok, if exp.is_some() { "an entry" } else { "nothing" }), step: si });
                            }
                            exp
                        }
                        Err(e) => return Some(Problem { class: "cursor_error", what: format!("seek({}) failed: {e}", short(k)), step: si }),
                    };
                    for n in 0..=*steps {
                        let Some(p) = pos else { break };
                        let kk = it.key();
                        let mut enc = kk.user_key().to_vec();
                        enc.extend_from_slice(&((kk.seq_num() << 8) | kk.kind() as u64).to_be_bytes());
                        enc.extend_from_slice(&kk.timestamp().to_be_bytes());
                        let vv = it.value_encoded().map(|v| v.to_vec()).unwrap_or_default();
                        if enc != model.v[p].0 || vv != model.v[p].1 {
                            return Some(Problem { class: "cursor", what: format!("seek({}) then {} {} steps: cursor at {} ({} value bytes), the ordered map at {} ({} bytes)", short(k), n, if *fwd { "next" } else { "prev" }, short(&enc), vv.len(), short(&model.v[p].0), model.v[p].1.len()), step: si });
                        }
                        let r = if *fwd { it.next() } else { it.prev() };
                        let exp = if *fwd {
                            if p + 1 < model.v.len() {
                                Some(p + 1)
                            } else {
                                None
                            }
                        } else {
                            p.checked_sub(1)
                        };
                        match r {
                            Err(e) => return Some(Problem { class: "cursor_error", what: format!("cursor step failed: {e}"), step: si }),
                            Ok(ok) => {
                                if ok != exp.is_some() {
                                    return Some(Problem { class: "cursor", what: format!("seek({}) then {} {} steps: valid={} but the ordered map says {}", short(k), n + 1, if *fwd { "next" } else { "prev" }, ok, exp.is_some()), step: si });
                                }
                            }
                        }
                        pos = exp;
                    }
                }
                Op::Reopen => {
                    cnt.reopens.fetch_add(1, Ordering::Relaxed);
                    if let Err(e) = tree.flush() {
                        return Some(Problem { class: "reopen", what: format!("flush before close failed: {e}"), step: si });
                    }
                    drop(tree);
                    tree = match new_disk_tree(&path, cmp.clone()) {
                        Ok(t) => t,
                        Err(e) => return Some(Problem { class: "reopen", what: format!("reopening the tree file failed: {e}"), step: si }),
                    };
                }
                Op::Census => {
                    cnt.censuses.fetch_add(1, Ordering::Relaxed);
                    let cs = match tree.verif_census() {
                        Ok(c) => c,
                        Err(e) => return Some(Problem { class: "census", what: format!("walking the tree failed: {e}"), step: si }),
                    };
                    if cs.total_pages < max_total && false {
                        unreachable!();
                    }
                    max_total = max_total.max(cs.total_pages);
                    if cs.overflow_pages > 0 {
                        cnt.overflow_seen.fetch_add(1, Ordering::Relaxed);
                    }
                    if cs.free_listed + cs.trunk_pages > 0 {
                        had_free = true;
                    }
                    let mut bad = vec![];
                    if !cs.pages_seen_twice.is_empty() {
                        bad.push(format!("pages reachable twice (tree / overflow chain / free list): offsets {:?}", &cs.pages_seen_twice[..cs.pages_seen_twice.len().min(6)]));
                    }
                    if cs.out_of_file > 0 {
                        bad.push(format!("{} referenced pages lie outside the file", cs.out_of_file));
                    }
                    if cs.unaccounted_pages > 0 {
                        bad.push(format!("{} of {} pages are neither reachable nor on the free list (leaked)", cs.unaccounted_pages, cs.total_pages));
                    }
                    if cs.header_free_count != cs.free_listed {
                        bad.push(format!("header says {} free pages, the trunk pages list {}", cs.header_free_count, cs.free_listed));
                    }
                    if cs.keys != model.v.len() as u64 {
                        bad.push(format!("leaves hold {} keys, the ordered map {}", cs.keys, model.v.len()));
                    }
                    if !cs.leaf_chain_matches_tree {
                        bad.push("the leaf chain (next pointers from the header's first leaf) is not the left-to-right order of the leaves in the tree".to_string());
                    }
                    if !bad.is_empty() {
                        return Some(Problem { class: "page_accounting", what: format!("{} (census: {:?})", bad.join("; "), cs), step: si });
                    }
                    cnt.shapes.lock().unwrap().insert(format!("o{}i{}l{}ov{}f{}t{}", c.ts_order as u8, cs.internal_pages.min(9), (cs.leaf_pages / 4).min(20), (cs.overflow_pages / 4).min(20), (cs.free_listed / 4).min(20), cs.trunk_pages.min(3)));
                }
            }
        }
        cnt.max_pages.fetch_max(max_total, Ordering::Relaxed);
        if had_free {
            cnt.free_reuse_seen.fetch_add(1, Ordering::Relaxed);
        }
        None
    }));
    let _ = std::fs::remove_dir_all(&dir);
    match res {
        Ok(p) => p,
        Err(_) => Some(Problem { class: "panic", what: format!("the tree panicked: {}", crate::panics::take_last()), step: usize::MAX }),
    }
}

pub fn gen_case(seed: u64, thorough: bool) -> Case {
    let mut r = Rng::new(seed ^ 0xC18);
    Case { seed, ts_order: r.chance(1, 2), shape: r.below(4) as u8, nops: if thorough { r.range(300, 6000) as usize } else { r.range(100, 1500) as usize } }
}

pub fn run(a: &Args) -> i32 {
    crate::panics::install();
    let mut run = Run::new("C18", a.tier, a.seed, "exploration");
    crate::scenarios::run_for(&mut run, "C18");
    let root = crate::e1::scratch_root();
    let _ = std::fs::create_dir_all(&root);
    let cnt = Counters::default();
    let cases = a.tier.pick(240, 30000);
    let samples: Mutex<Vec<J>> = Mutex::new(vec![]);
    let thorough = a.tier == crate::evidence::Tier::Thorough;
    // The sequences run in shard subprocesses: a tree whose structure went wrong can recurse
    // without end or abort, which no in-process guard catches. A shard that dies is restarted
    // behind the sequence it was running, and that sequence is reported.
    let nshards = 16usize;
    let found: Mutex<Vec<(String, String, J)>> = Mutex::new(vec![]);
    let all_shapes: Mutex<BTreeSet<String>> = Mutex::new(BTreeSet::new());
    let exe = std::env::current_exe().unwrap();
    par_for(nshards, |k| {
        let mut from = 0usize;
        loop {
            let mut ch = match std::process::Command::new(&exe)
                .arg("c18-shard")
                .arg(a.seed.to_string())
                .arg(a.tier.name())
                .arg(k.to_string())
                .arg(nshards.to_string())
                .arg(cases.to_string())
                .arg(from.to_string())
                .stdout(std::process::Stdio::piped())
                .stderr(std::process::Stdio::null())
                .spawn()
            {
                Ok(c) => c,
                Err(_) => return,
            };
            let out = std::io::BufReader::new(ch.stdout.take().unwrap());
            let mut started: Option<(usize, u64)> = None;
            let mut finished = false;
            use std::io::BufRead;
            for l in out.lines().map_while(Result::ok) {
                if let Some(rest) = l.strip_prefix("START ") {
                    let mut it = rest.split(' ');
                    started = Some((it.next().and_then(|x| x.parse().ok()).unwrap_or(0), it.next().and_then(|x| x.parse().ok()).unwrap_or(0)));
                } else if let Some(rest) = l.strip_prefix("DONE ") {
                    if let Ok(j) = serde_json::from_str::<J>(rest) {
                        if !j["problem"].is_null() {
                            found.lock().unwrap().push((j["problem"]["class"].as_str().unwrap_or("?").to_string(), format!("step {}: {}", j["problem"]["step"], j["problem"]["what"].as_str().unwrap_or("")), json!({"engine": "c18", "seed": j["seed"], "thorough": thorough})));
                        }
                        if j["i"].as_u64().unwrap_or(1) % 64 == 0 {
                            samples.lock().unwrap().push(j.clone());
                        }
                    }
                    started = None;
                } else if let Some(rest) = l.strip_prefix("STATS ") {
                    if let Ok(j) = serde_json::from_str::<J>(rest) {
                        cnt.ops.fetch_add(j["ops"].as_u64().unwrap_or(0), Ordering::Relaxed);
                        cnt.reopens.fetch_add(j["reopens"].as_u64().unwrap_or(0), Ordering::Relaxed);
                        cnt.censuses.fetch_add(j["censuses"].as_u64().unwrap_or(0), Ordering::Relaxed);
                        cnt.overflow_seen.fetch_add(j["overflow_seen"].as_u64().unwrap_or(0), Ordering::Relaxed);
                        cnt.free_reuse_seen.fetch_add(j["free_reuse_seen"].as_u64().unwrap_or(0), Ordering::Relaxed);
                        cnt.max_pages.fetch_max(j["max_pages"].as_u64().unwrap_or(0), Ordering::Relaxed);
                        for sh in j["shapes"].as_array().cloned().unwrap_or_default() {
                            all_shapes.lock().unwrap().insert(sh.as_str().unwrap_or("").to_string());
                        }
                    }
                    finished = true;
                }
            }
            let status = ch.wait().ok();
            if finished {
                return;
            }
            match started {
                Some((i, seed)) => {
                    found.lock().unwrap().push(("process_died".into(), format!("the process running operation sequence #{} died ({:?}): the tree recursed without end, aborted or was killed", i, status), json!({"engine": "c18", "seed": seed, "thorough": thorough})));
                    from = i + 1;
                }
                None => return,
            }
        }
    });
    let found = found.into_inner().unwrap();
    let mut reported: BTreeMap<String, usize> = BTreeMap::new();
    for (class, what, rep) in &found {
        let k = reported.entry(class.clone()).or_insert(0);
        *k += 1;
        if *k <= 3 {
            run.violation(&format!("[{}] {}", class, what), rep.clone());
        }
    }
    let shapes = all_shapes.lock().unwrap().len() as u64;
    run.cov("operation_sequences", json!(cases));
    run.cov("operations", json!(cnt.ops.load(Ordering::Relaxed)));
    run.cov("reopens", json!(cnt.reopens.load(Ordering::Relaxed)));
    run.cov("censuses", json!(cnt.censuses.load(Ordering::Relaxed)));
    run.cov("censuses_with_overflow_chains", json!(cnt.overflow_seen.load(Ordering::Relaxed)));
    run.cov("sequences_with_free_list_use", json!(cnt.free_reuse_seen.load(Ordering::Relaxed)));
    run.cov("largest_file_pages", json!(cnt.max_pages.load(Ordering::Relaxed)));
    run.cov("problem_classes", json!(reported));
    run.assumptions = vec![
        "the model is a vector kept sorted with the same Comparator object the tree uses (an ordered map under the configured key order); keys equal under the timestamp order are byte-identical by construction".into(),
        "page accounting is read through the H7 hook BPlusTree::verif_census (walk from the root, overflow chains, trunk pages)".into(),
    ];
    let _ = std::fs::remove_dir_all(&root);
    run.finish(
        cnt.ops.load(Ordering::Relaxed),
        shapes,
        a.tier.pick(30, 100),
        "one evaluation = one operation (insert / overwrite / delete / get / bounded range scan / seek + steps of the internal iterator / close + reopen / page census) whose result is compared with an ordered map under the same comparator; census invariants: no page reachable twice, none outside the file, none unaccounted (leak), header free count = pages listed in trunk pages, leaves hold exactly the map's keys, leaf chain = left-to-right leaf order; distinct = distinct tree-shape signatures seen by the census (order, internal / leaf / overflow / free / trunk page counts, bucketed)",
        samples.into_inner().unwrap(),
    )
}

/// `vharness c18-shard <seed> <tier> <k> <n> <cases> <from>`
pub fn shard_main(args: &[String]) -> i32 {
    crate::panics::install();
    let seed0: u64 = args[0].parse().unwrap_or(1);
    let thorough = args[1] == "thorough";
    let k: usize = args[2].parse().unwrap_or(0);
    let n: usize = args[3].parse().unwrap_or(1);
    let cases: usize = args[4].parse().unwrap_or(0);
    let from: usize = args[5].parse().unwrap_or(0);
    let root = crate::e1::scratch_root();
    let _ = std::fs::create_dir_all(&root);
    let cnt = Counters::default();
    use std::io::Write;
    let out = std::io::stdout();
    for i in from..cases {
        if i % n != k {
            continue;
        }
        let seed = seed0.wrapping_mul(0xD6E8_FEB8_6659_FD93).wrapping_add(i as u64 * 4099 + 1);
        {
            let mut o = out.lock();
            let _ = writeln!(o, "START {} {}", i, seed);
            let _ = o.flush();
        }
        let c = gen_case(seed, thorough);
        let p = run_case(&c, &root, &cnt, None);
        let mut o = out.lock();
        let _ = writeln!(o, "DONE {}", json!({"i": i, "seed": seed, "ts_order": c.ts_order, "shape": c.shape, "ops": c.nops, "problem": p.as_ref().map(|p| json!({"class": p.class, "step": p.step, "what": p.what}))}));
        let _ = o.flush();
    }
    println!(
        "STATS {}",
        json!({"ops": cnt.ops.load(Ordering::Relaxed), "reopens": cnt.reopens.load(Ordering::Relaxed), "censuses": cnt.censuses.load(Ordering::Relaxed),
               "overflow_seen": cnt.overflow_seen.load(Ordering::Relaxed), "free_reuse_seen": cnt.free_reuse_seen.load(Ordering::Relaxed),
               "max_pages": cnt.max_pages.load(Ordering::Relaxed), "shapes": cnt.shapes.lock().unwrap().iter().cloned().collect::<Vec<_>>()})
    );
    let _ = std::fs::remove_dir_all(&root);
    0
}

pub fn replay(j: &J) -> i32 {
    crate::panics::install();
    let root = crate::e1::scratch_root();
    let _ = std::fs::create_dir_all(&root);
    let cnt = Counters::default();
    let c = gen_case(j["replay"]["seed"].as_u64().unwrap_or(0), j["replay"]["thorough"].as_bool().unwrap_or(false));
    let p = run_case(&c, &root, &cnt, None);
    let _ = std::fs::remove_dir_all(&root);
    match p {
        None => {
            println!("replay did not reproduce a violation");
            0
        }
        Some(p) => {
            println!("  reproduced: [{}] step {}: {}", p.class, p.step, p.what);
            let root = crate::e1::scratch_root();
            let _ = std::fs::create_dir_all(&root);
            let min = minimise(&c, &root, p.class);
            println!("  minimised to {} operations (order: {}):", min.len(), if c.ts_order { "timestamp" } else { "bytewise" });
            for o in &min {
                println!("    {}", match o {
                    Op::Insert(k, v) => format!("insert({}, {} bytes)", short(k), v.len()),
                    Op::Delete(k) => format!("delete({})", short(k)),
                    Op::Get(k) => format!("get({})", short(k)),
                    Op::Range(a, b) => format!("range({:?}, {:?})", a.as_ref().map(|k| short(k)), b.as_ref().map(|k| short(k))),
                    Op::Cursor(k, f, n) => format!("cursor(seek {}, {} x {})", short(k), n, if *f { "next" } else { "prev" }),
                    Op::Reopen => "reopen".to_string(),
                    Op::Census => "census".to_string(),
                });
            }
            let _ = std::fs::remove_dir_all(&root);
            1
        }
    }
}
