//! Concurrent-history checks (engine E3): C04, C05, C17 and the race part of C01.
use crate::cfg::Cfg;
use crate::e3::{self, CheckStats, Params};
use crate::evidence::Run;
use crate::rng::Rng;
use crate::Args;
use serde_json::{json, Value as J};
use std::collections::{BTreeMap, BTreeSet};
use std::process::{Command, Stdio};

pub fn classes_of(prop: &str) -> &'static [&'static str] {
    match prop {
        "C01" => &["snapshot_read", "fractured_or_stale_read", "realtime", "horizon"],
        "C04" => &["lost_update", "aborted_visible", "unjustified_abort", "unexpected_error"],
        "C05" => &["fractured_or_stale_read", "snapshot_read", "realtime", "horizon", "lost_commit", "seq_overlap", "read_error"],
        "C17" => &["stuck", "panic"],
        _ => &[],
    }
}

fn cfg_for(r: &mut Rng) -> Cfg {
    let mut c = Cfg { flush_on_close: false, ..Cfg::default() };
    c.max_memtable_size = *r.pick(&[16 * 1024, 32 * 1024, 128 * 1024]);
    c.level_count = r.range(2, 4) as u8;
    c.l0_max_files = r.range(1, 3) as usize;
    c.max_bytes_for_level = *r.pick(&[2048, 16 * 1024]);
    c.memtable_stall = r.range(2, 4) as usize;
    c.l0_stall = c.l0_max_files * 3 + 2;
    c.vlog = r.chance(1, 3);
    c.vlog_threshold = 32;
    c
}

/// Parameters of history `i` for a property (the adversary differs per property).
pub fn params_for(prop: &str, r: &mut Rng, thorough: bool) -> Params {
    let mut p = Params::default();
    p.committers = *r.pick(&[1, 2, 4, 7, 8, 12, 16]);
    p.txns_per_committer = if thorough { r.range(60, 300) as usize } else { r.range(30, 90) as usize };
    p.delay_pct = *r.pick(&[0, 10, 30, 60]);
    p.max_delay_us = *r.pick(&[50, 200, 1000]);
    p.maintenance = r.chance(2, 3);
    p.manual_background = r.chance(1, 4);
    if !p.maintenance {
        p.manual_background = false;
    }
    p.value_pad = *r.pick(&[0, 0, 100, 400]);
    match prop {
        "C05" => {
            p.probe_pct = *r.pick(&[10, 30, 60]);
            p.probers = r.range(1, 4) as usize;
            p.group_size = *r.pick(&[2, 8, 40, 120]);
            p.groups = r.range(1, 3) as usize;
            p.counters = 2;
            p.lists = 1;
        }
        "C04" => {
            p.probe_pct = 0;
            p.probers = 1;
            p.counters = r.range(1, 4) as usize;
            p.lists = r.range(1, 3) as usize;
            p.groups = 1;
            p.group_size = 3;
            p.long_txn_every = *r.pick(&[0, 5, 11]);
            p.write_only_pct = *r.pick(&[0, 30, 80]);
        }
        "C17" => {
            p.probe_pct = 0;
            p.probers = r.range(2, 4) as usize;
            p.group_size = *r.pick(&[4, 40]);
            p.value_pad = *r.pick(&[100, 400, 1500]);
            p.close_midway = r.chance(1, 3);
            p.manual_background = false;
            p.maintenance = r.chance(1, 2);
            if r.chance(1, 3) {
                // one committer now and then stays for milliseconds between its WAL write and
                // its apply while many others pass through behind it: the commit queue fills
                // up behind an unapplied tail (flow control must hold them back)
                p.committers = 16;
                p.delay_prefixes = vec!["commit.after_wal"];
                p.delay_pct = 4;
                p.max_delay_us = 8000;
                p.value_pad = 100;
                p.group_size = 4;
                // enough distinct keys that more than a queue's worth of transactions can be
                // in flight without conflicting with each other
                p.counters = 8;
                p.lists = 6;
                p.groups = 6;
            }
        }
        _ => {
            // C01: begin racing with flush / compaction
            p.probe_pct = 5;
            p.probers = 3;
            p.maintenance = true;
            p.manual_background = true;
            p.split_maintenance = true;
            p.long_probe_us = *r.pick(&[500, 3000, 10000]);
            p.max_delay_us = *r.pick(&[200, 1000, 3000]);
            p.delay_pct = *r.pick(&[30, 60]);
            // commits run at full speed while begins, flushes and compaction rounds are stretched
            if r.chance(2, 3) {
                p.delay_prefixes = vec!["compact.", "txn.begin."];
                p.max_delay_us = *r.pick(&[1000, 3000, 8000]);
            }
            p.txns_per_committer = if thorough { r.range(100, 400) as usize } else { r.range(60, 160) as usize };
        }
    }
    p
}

fn stats_json(s: &CheckStats) -> J {
    json!({"committed": s.committed, "conflicts": s.conflicts, "retries": s.retries, "errors": s.errors, "probes": s.probes,
        "probes_at_points": s.probes_at_points, "reads_checked": s.reads_checked, "realtime_pairs": s.realtime_pairs, "fcw_pairs": s.fcw_pairs,
        "justified_aborts": s.justified_aborts, "counters_checked": s.counters_checked, "list_elements_checked": s.list_elements_checked,
        "apply_order_inversions": s.apply_order_inversions, "distinct_horizons": s.distinct_start_seqs, "interleaving_sig": s.interleaving_sig})
}

/// Entry point of `vharness e3-shard <prop> <seed> <tier> <k> <n> <count>`: runs the histories
/// i with i % n == k and prints one JSON line per history.
pub fn shard_main(args: &[String]) -> i32 {
    let prop = args[0].clone();
    let seed: u64 = args[1].parse().unwrap_or(1);
    let thorough = args[2] == "thorough";
    let k: usize = args[3].parse().unwrap_or(0);
    let n: usize = args[4].parse().unwrap_or(1);
    let count: usize = args[5].parse().unwrap_or(1);
    let root = crate::e1::scratch_root();
    let _ = std::fs::create_dir_all(&root);
    for i in 0..count {
        if i % n != k {
            continue;
        }
        let hseed = seed.wrapping_mul(0x5851_F42D_4C95_7F2D).wrapping_add(i as u64 * 104_729 + 7);
        let mut r = Rng::new(hseed);
        let mut cfg = cfg_for(&mut r);
        let p = params_for(&prop, &mut r, thorough);
        // a transaction larger than a memtable is the business of C15 (known finding there):
        // keep every batch well below the arena, counting the worst-case node overhead
        let worst = (p.group_size.max(2) * (p.value_pad + 260)) * 4;
        if cfg.max_memtable_size < worst {
            cfg.max_memtable_size = worst.next_power_of_two();
        }
        let dir = root.join(format!("h{}", i));
        let out = e3::run_history(&cfg, &dir, &p, hseed);
        let v = e3::check(&out, &p);
        let witness: Vec<J> = if v.problems.is_empty() {
            vec![]
        } else {
            // the transactions named in the first problem and the writers of the key it names
            let w = &v.problems[0].1;
            let key = w.find(" read ").map(|pos| w[pos + 6..].split(' ').next().unwrap_or("").to_string()).unwrap_or_default();
            let mut rel: Vec<&e3::TxnRec> = out
                .txns
                .iter()
                .filter(|t| w.contains(&format!("transaction {} ", t.id)) || w.contains(&format!("transactions {} ", t.id)) || (!key.is_empty() && t.writes.iter().any(|(_, k, _)| crate::model::hex(k) == key)))
                .collect();
            rel.sort_by_key(|t| t.begin_invoke);
            rel.iter()
                .map(|t| {
                    let mut j = e3::txn_json(t);
                    j["seq"] = json!(out.marker_seqs.get(&t.id));
                    j["writes"] = json!(t.writes.len());
                    j["reads"] = json!(t.reads.iter().filter(|(k, _)| crate::model::hex(k) == key).map(|(_, v)| v.as_ref().map(|b| if b.len() >= 8 { u64::from_be_bytes(b[..8].try_into().unwrap()) } else { 0 })).collect::<Vec<_>>());
                    j
                })
                .collect()
        };
        let line = json!({
            "i": i, "seed": hseed, "options": cfg.to_json(),
            "params": {"committers": p.committers, "probers": p.probers, "txns_per_committer": p.txns_per_committer, "delay_pct": p.delay_pct, "max_delay_us": p.max_delay_us,
                       "probe_pct": p.probe_pct, "group_size": p.group_size, "maintenance": p.maintenance, "manual_background": p.manual_background,
                       "long_txn_every": p.long_txn_every, "close_midway": p.close_midway, "value_pad": p.value_pad, "write_only_pct": p.write_only_pct},
            "problems": v.problems.iter().take(10).map(|(c, w)| json!([c, w])).collect::<Vec<_>>(),
            "stats": stats_json(&v.stats),
            "inconclusive": out.inconclusive,
            "close": out.close_result,
            "point_hits": out.point_hits.iter().map(|(k, v)| (k.to_string(), *v)).collect::<BTreeMap<String, u64>>(),
            "witness": witness,
            "sample": if i < 2 { json!(out.txns.iter().take(6).map(e3::txn_json).collect::<Vec<_>>()) } else { J::Null },
        });
        println!("{}", line);
    }
    let _ = std::fs::remove_dir_all(&root);
    0
}

/// debug: `vharness e3-debug <prop> <seed> <tier> <i>` re-runs history i and prints the first
/// problem with every transaction that touched the key involved.
pub fn debug_main(args: &[String]) -> i32 {
    let prop = args[0].clone();
    let seed: u64 = args[1].parse().unwrap_or(1);
    let thorough = args[2] == "thorough";
    let i: usize = args[3].parse().unwrap_or(0);
    let hseed = seed.wrapping_mul(0x5851_F42D_4C95_7F2D).wrapping_add(i as u64 * 104_729 + 7);
    let mut r = Rng::new(hseed);
    let mut cfg = cfg_for(&mut r);
    let p = params_for(&prop, &mut r, thorough);
    let worst = (p.group_size.max(2) * (p.value_pad + 260)) * 4;
    if cfg.max_memtable_size < worst {
        cfg.max_memtable_size = worst.next_power_of_two();
    }
    let root = crate::e1::scratch_root();
    let _ = std::fs::create_dir_all(&root);
    if std::env::var_os("VERIF_E3_MON").is_some() {
        std::thread::spawn(|| loop {
            std::thread::sleep(std::time::Duration::from_secs(5));
            let t = e3::ctl().tree.read().unwrap().clone();
            if let Some(t) = t {
                if let Ok(l) = t.verif_layout() {
                    let mut per = std::collections::BTreeMap::new();
                    for x in &l.tables {
                        *per.entry(x.level).or_insert(0usize) += 1;
                    }
                    println!("MON imm {} tables/level {:?} of {} levels, tasks flush {} level {} visible {}", l.immutables, per, l.level_count, l.memtable_task_running, l.level_task_running, t.verif_visible_seq());
                }
            }
        });
    }
    println!("cfg {}", cfg.to_json());
    for attempt in 0..20 {
        let out = e3::run_history(&cfg, &root.join("dbg"), &p, hseed);
        let v = e3::check(&out, &p);
        println!("attempt {}: {} problems, params {:?}", attempt, v.problems.len(), p);
        if let Some((c, w)) = v.problems.first() {
            println!("[{}] {}", c, w);
            // key = token after "read "
            if let Some(pos) = w.find(" read ") {
                let key = w[pos + 6..].split(' ').next().unwrap_or("").to_string();
                let mut rel: Vec<&e3::TxnRec> = out.txns.iter().filter(|t| t.writes.iter().any(|(_, k, _)| crate::model::hex(k) == key) || (w.contains(&format!("transaction {} ", t.id)))).collect();
                rel.sort_by_key(|t| t.begin_invoke);
                for ((id, k), d) in e3::DUMPS.lock().unwrap().iter() {
                    if crate::model::hex(k) == key && w.contains(&format!("transaction {} ", id)) {
                        println!("  DUMP at probe {}: {}", id, d);
                    }
                }
                for t in rel {
                    println!("  txn {} {} client {} horizon {} begin {:?} commit {:?} outcome {:?} seq {:?} nwrites {} reads {:?}", t.id, t.kind, t.client, t.start_seq, (t.begin_invoke, t.begin_return), (t.commit_invoke, t.commit_return), t.outcome, out.marker_seqs.get(&t.id), t.writes.len(),
                        t.reads.iter().filter(|(k, _)| crate::model::hex(k) == key).map(|(_, v)| v.as_ref().map(|b| if b.len() >= 8 { u64::from_be_bytes(b[..8].try_into().unwrap()) } else { 0 })).collect::<Vec<_>>());
                }
            }
            break;
        }
    }
    let _ = std::fs::remove_dir_all(&root);
    0
}

pub struct ConcOutcome {
    pub histories: u64,
    pub sigs: BTreeSet<u64>,
    pub totals: BTreeMap<String, u64>,
    pub point_hits: BTreeMap<String, u64>,
    pub samples: Vec<J>,
}

pub fn run_conc(run: &mut Run, a: &Args, prop: &str, count: usize, procs: usize) -> ConcOutcome {
    let exe = std::env::current_exe().unwrap();
    let mut children = vec![];
    for k in 0..procs {
        let mut c = Command::new(&exe);
        c.arg("e3-shard").arg(prop).arg(a.seed.to_string()).arg(a.tier.name()).arg(k.to_string()).arg(procs.to_string()).arg(count.to_string());
        c.stdout(Stdio::piped()).stderr(Stdio::null());
        children.push(c.spawn().expect("spawn e3 shard"));
    }
    let mine: BTreeSet<&str> = classes_of(prop).iter().cloned().collect();
    let mut o = ConcOutcome { histories: 0, sigs: BTreeSet::new(), totals: BTreeMap::new(), point_hits: BTreeMap::new(), samples: vec![] };
    let mut reported = 0;
    for ch in children {
        let out = ch.wait_with_output().expect("wait shard");
        if !out.status.success() {
            run.inconclusive(&format!("a history shard ended with {:?}", out.status));
        }
        for line in String::from_utf8_lossy(&out.stdout).lines() {
            let Ok(j) = serde_json::from_str::<J>(line) else { continue };
            o.histories += 1;
            if let Some(s) = j["inconclusive"].as_str() {
                run.inconclusive(&format!("history {}: {}", j["i"], s));
            }
            if let Some(st) = j["stats"].as_object() {
                for (k, v) in st {
                    if k == "interleaving_sig" {
                        o.sigs.insert(v.as_u64().unwrap_or(0));
                    } else {
                        *o.totals.entry(k.clone()).or_insert(0) += v.as_u64().unwrap_or(0);
                    }
                }
            }
            if let Some(ph) = j["point_hits"].as_object() {
                for (k, v) in ph {
                    *o.point_hits.entry(k.clone()).or_insert(0) += v.as_u64().unwrap_or(0);
                }
            }
            if !j["sample"].is_null() && o.samples.len() < 2 {
                o.samples.push(json!({"options": j["options"], "params": j["params"], "first_transactions": j["sample"]}));
            }
            if let Some(ps) = j["problems"].as_array() {
                for pr in ps {
                    let class = pr[0].as_str().unwrap_or("");
                    if mine.contains(class) && reported < 6 {
                        reported += 1;
                        run.violation(
                            &format!("[{}] history {}: {}", class, j["i"], pr[1].as_str().unwrap_or("")),
                            json!({"engine": "e3", "property": prop, "history_index": j["i"], "history_seed": j["seed"], "options": j["options"], "params": j["params"], "witness": j["witness"],
                                   "note": "re-run: ./check <prop> --replay <this file> re-executes the same history seed and parameters up to 20 times and reports how often the violation reproduces"}),
                        );
                    }
                }
            }
        }
    }
    o
}

pub fn run(a: &Args, prop: &str) -> i32 {
    let mut run = Run::new(prop, a.tier, a.seed, "exploration");
    crate::scenarios::run_for(&mut run, prop);
    if prop == "C05" {
        crate::matrix::run_for(&mut run, prop);
    }
    let count = match prop {
        "C17" => a.tier.pick(120, 1500),
        _ => a.tier.pick(160, 2500),
    };
    let o = run_conc(&mut run, a, prop, count, 4);
    run.cov("histories", json!(o.histories));
    run.cov("totals", json!(o.totals));
    run.cov("distinct_interleaving_signatures", json!(o.sigs.len()));
    run.cov("yield_point_hits", json!(o.point_hits));
    run.assumptions = vec![
        "histories are recorded at the client boundary (invoke event before the call, return event after the reply, one process-wide tick counter); commit order is reconstructed from the sequence numbers of per-transaction marker keys read back through the public iterator".into(),
        "schedules are sampled: seeded delays at the yield points, probes run from inside yield points, a maintenance task issuing rotations / flushes / compaction rounds; not all interleavings are enumerated".into(),
        "liveness is decided on logical state: a history is 'stuck' only if calls are outstanding, no progress counter moves and no thread of the process is runnable for 10 s; a wall-clock overrun with runnable threads is inconclusive".into(),
    ];
    let rule = match prop {
        "C05" => "one evaluation = one concurrent history (1..16 committers, probers, probes begun from inside the commit pipeline's yield points); checked offline: every read equals the committed history at the reader's horizon (no fractured read of a multi-key transaction), real-time order of commit-return vs begin, monotone horizons, every acknowledged commit present; distinct = distinct hash of the per-history order in which WAL writes and memtable applies finished",
        "C04" => "one evaluation = one concurrent history of read-modify-write counters, append lists and blind multi-key writers (long-lived and write-only transactions included); checked offline: first-committer-wins on sequence numbers, counters and lists conserve every acknowledged update, aborted transactions leave nothing, every conflict/retry is justified; distinct as for C05",
        "C17" => "one evaluation = one stress history with tiny memtables and low stall thresholds, optionally close() in the middle; violated only by a panic or by the quiescent-deadlock criterion; distinct as for C05",
        _ => "one evaluation = one concurrent history with begin racing flush/compaction (manual maintenance task + delays at txn.begin.* / compact.* / flush.* points); snapshot checker on every read; distinct as for C05",
    };
    let samples = if o.samples.is_empty() { vec![json!({"note": "no sample"})] } else { o.samples.clone() };
    run.finish(o.histories, o.sigs.len() as u64, a.tier.pick(40, 400), rule, samples)
}
