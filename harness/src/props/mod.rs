use crate::Args;

pub mod c01;
pub mod c02;
pub mod c03;
pub mod c06;
pub mod c07;
pub mod c08;
pub mod c09;
pub mod c10;
pub mod c11;
pub mod c12;
pub mod c13;
pub mod c14;
pub mod c15;
pub mod c16;
pub mod c18;
pub mod c19;
pub mod conc;
pub mod crash;

pub fn dispatch(a: &Args) -> i32 {
    if let Some(p) = &a.replay {
        return replay(a, p);
    }
    match a.prop.as_str() {
        "C01" => c01::run(a),
        "C02" => c02::run(a),
        "C03" => c03::run(a),
        "C04" | "C05" | "C17" => conc::run(a, &a.prop),
        "C06" => c06::run(a),
        "C07" => c07::run(a),
        "C08" => c08::run(a),
        "C09" => c09::run(a),
        "C10" => c10::run(a),
        "C11" => c11::run(a),
        "C12" => c12::run(a),
        "C13" => c13::run(a),
        "C14" => c14::run(a),
        "C15" => c15::run(a),
        "C16" => c16::run(a),
        "C18" => c18::run(a),
        "C19" => c19::run(a),
        "scenarios" => {
            // debug: run every directed scenario and print the outcome
            let mut code = 0;
            for p in ["C01","C02","C03","C04","C05","C06","C07","C08","C09","C10","C11","C12","C13","C14","C15","C16","C17","C18","C19"] {
                let mut run = crate::evidence::Run::new(p, a.tier, a.seed, "exploration");
                let _ = crate::scenarios::run_for(&mut run, p);
                crate::props::crash::run_scenarios(&mut run, p);
                if !run.violations.is_empty() { code = 1; }
            }
            code
        }
        x => {
            eprintln!("unknown property {x}");
            64
        }
    }
}

fn replay(a: &Args, path: &str) -> i32 {
    let Ok(b) = std::fs::read(path) else {
        eprintln!("cannot read {path}");
        return 64;
    };
    let Ok(j) = serde_json::from_slice::<serde_json::Value>(&b) else {
        eprintln!("cannot parse {path}");
        return 64;
    };
    match j["replay"]["engine"].as_str() {
        Some("e1") => {
            surrealkv::verif::set_manual_background(true);
            match crate::campaign::replay_e1(&j) {
                Some(v) => {
                    println!("VIOLATION property={} replay={}", a.prop, path);
                    println!("  reproduced: [{}] step {}: {}", v.class, v.step, v.what);
                    1
                }
                None => {
                    println!("replay did not reproduce a violation");
                    0
                }
            }
        }
        Some("c16") => {
            let code = c16::replay(&j);
            if code == 1 {
                println!("VIOLATION property={} replay={}", a.prop, path);
            }
            code
        }
        Some("c19") => {
            let code = c19::replay(&j);
            if code == 1 {
                println!("VIOLATION property={} replay={}", a.prop, path);
            }
            code
        }
        Some("c18") => {
            let code = c18::replay(&j);
            if code == 1 {
                println!("VIOLATION property={} replay={}", a.prop, path);
            }
            code
        }
        Some("c13") => {
            let code = c13::replay(&j);
            if code == 1 {
                println!("VIOLATION property={} replay={}", a.prop, path);
            }
            code
        }
        Some("c12") => {
            let code = c12::replay(&j);
            if code == 1 {
                println!("VIOLATION property={} replay={}", a.prop, path);
            }
            code
        }
        _ => {
            eprintln!("replay engine not supported for this file");
            64
        }
    }
}
