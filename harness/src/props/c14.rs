//! C14 - checkpoint and restore reproduce the checkpointed state.
use crate::campaign::{self, Campaign};
use crate::cfg::{VerMode, VlogMode};
use crate::e1::{ExecOpts, GenParams};
use crate::evidence::Run;
use crate::Args;
use serde_json::json;

pub fn campaign(a: &Args) -> Campaign {
    Campaign {
        histories: a.tier.pick(800, 6000),
        variants: a.tier.pick(3, 6),
        gen: GenParams {
            steps: 110,
            nkeys: 12,
            readers: false,
            cursors: false,
            reader_pending: false,
            reopen: true,
            checkpoint: true,
            delete_pct: 35,
            placement_pct: 35,
            ..Default::default()
        },
        ver: VerMode::Any,
        vlog: VlogMode::Any,
        exec: ExecOpts { fresh_battery: true, verify_checkpoint: true, versioned: true, ..Default::default() },
        tweak: |c, r| {
            // small caches and a warm one: cached blocks of the discarded timeline must not be served
            c.cache = *r.pick(&[4096, 1 << 20, 1 << 20]);
        },
        nontrivial: |s| s.restores > 0 && s.commits > 0,
        minimise_budget: 150,
    }
}

pub fn run(a: &Args) -> i32 {
    surrealkv::verif::set_manual_background(true);
    let mut run = Run::new("C14", a.tier, a.seed, "exploration");
    let open = crate::scenarios::run_for(&mut run, "C14");
    let mut c = campaign(a);
    let mut masks = vec![];
    if open.iter().any(|f| f == "C14-version-index-not-restored") {
        // mask of the open finding: histories with checkpoint/restore do not enable the version index
        c.ver = VerMode::OnNoIndexOrOff;
        masks.push("histories with checkpoint/restore run without the version index (C14-version-index-not-restored)");
    }
    run.cov("generator_masks", json!(masks));
    let out = campaign::run_campaign(&c, a.seed, "c14");
    campaign::report_failures(&mut run, &out, &c.exec);
    run.cov("observed", campaign::stats_json(&out.stats));
    run.cov("option_sets", json!(out.cfg_sigs.len()));
    run.assumptions = vec![
        "single driver thread: no commit is in flight when a checkpoint is taken (as the property requires); every reader is dropped before restore".into(),
        "the model is rewound to the checkpoint at restore; every checkpoint directory is also copied and opened standalone".into(),
    ];
    run.finish(
        out.evaluations,
        out.distinct.len() as u64,
        a.tier.pick(60, 600),
        "one evaluation = one generated history with checkpoint and restore steps woven between commits, flushes, compaction rounds and reopens (three independent segments: before the checkpoint, between checkpoint and restore, after the restore); the full query battery runs after every step; non-trivial = at least one restore followed by further commits; distinct = (option signature, level-shape set)",
        out.samples,
    )
}
