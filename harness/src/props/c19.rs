//! C19: one live instance per database directory.
//!
//! Generated sequences of open / close / drop / process-exit / SIGKILL by several openers of
//! one directory - handles inside this process and child processes (`vharness c19-child`) -
//! are run against the real store next to a one-variable model (who owns the directory).
//! Every open attempt must succeed exactly when nobody owns the directory; a refused attempt
//! must leave every file of the directory byte-identical; data committed by earlier owners
//! must still be there for the next owner.

use crate::cfg::Cfg;
use crate::evidence::Run;
use crate::rng::Rng;
use crate::Args;
use serde_json::{json, Value as J};
use std::collections::{BTreeMap, BTreeSet};
use std::io::{BufRead, BufReader, Write};
use std::path::{Path, PathBuf};
use std::process::{Child, ChildStdin, ChildStdout, Command, Stdio};
use surrealkv::{Mode, Tree};

#[derive(Clone, Debug, PartialEq)]
pub enum Op {
    OpenIn(usize),
    CloseIn(usize),
    DropIn(usize),
    OpenChild(usize),
    CloseChild(usize),
    ExitChild(usize),
    KillChild(usize),
    Commit,
    /// the in-process owner takes a checkpoint and restores it at once (same state; the
    /// restore clears and rebuilds the directory while the instance stays open)
    CheckpointRestore,
    /// the in-process owner's handle is cloned and the clone dropped: the store stays open
    CloneDropIn,
}

#[derive(Clone, Copy, Debug, PartialEq)]
enum Owner {
    None,
    In(usize),
    Child(usize),
}

struct ChildProc {
    proc_: Child,
    stdin: ChildStdin,
    stdout: BufReader<ChildStdout>,
    open: bool,
}

impl ChildProc {
    fn line(&mut self) -> String {
        let mut s = String::new();
        let _ = self.stdout.read_line(&mut s);
        s.trim().to_string()
    }
    fn send(&mut self, cmd: &str) -> String {
        let _ = writeln!(self.stdin, "{}", cmd);
        let _ = self.stdin.flush();
        self.line()
    }
}

fn spawn_child(dir: &Path) -> Result<ChildProc, String> {
    let exe = std::env::current_exe().map_err(|e| e.to_string())?;
    let mut c = Command::new(exe).arg("c19-child").arg(dir).stdin(Stdio::piped()).stdout(Stdio::piped()).stderr(Stdio::null()).spawn().map_err(|e| e.to_string())?;
    let stdin = c.stdin.take().ok_or("no stdin")?;
    let stdout = BufReader::new(c.stdout.take().ok_or("no stdout")?);
    Ok(ChildProc { proc_: c, stdin, stdout, open: false })
}

/// `vharness c19-child <dir>`: READY; then commands on stdin: open / commit <n> / close / exit.
pub fn child_main(args: &[String]) -> i32 {
    let dir = PathBuf::from(&args[0]);
    // no background flush / compaction: while an owner is idle the directory must not change,
    // so that a change seen around a refused open is the refused opener's doing
    surrealkv::verif::set_manual_background(true);
    let rt = tokio::runtime::Builder::new_multi_thread().worker_threads(2).enable_all().build().unwrap();
    let cfg = cfg();
    rt.block_on(async move {
        let mut tree: Option<Tree> = None;
        println!("READY");
        let stdin = std::io::stdin();
        let mut line = String::new();
        loop {
            line.clear();
            if stdin.lock().read_line(&mut line).unwrap_or(0) == 0 {
                break;
            }
            let l = line.trim();
            if l == "open" {
                match cfg.open(&dir) {
                    Ok(t) => {
                        tree = Some(t);
                        println!("OK");
                    }
                    Err(e) => println!("ERR {}", e.to_string().replace('\n', " ")),
                }
            } else if let Some(n) = l.strip_prefix("commit ") {
                match &tree {
                    Some(t) => {
                        let r: Result<(), String> = async {
                            let mut tx = t.begin_with_mode(Mode::WriteOnly).map_err(|e| e.to_string())?;
                            tx.set(format!("c{n}").as_bytes(), n.as_bytes()).map_err(|e| e.to_string())?;
                            tx.commit().await.map_err(|e| e.to_string())
                        }
                        .await;
                        println!("{}", if r.is_ok() { "OK".to_string() } else { format!("ERR {}", r.unwrap_err()) });
                    }
                    None => println!("ERR not open"),
                }
            } else if l == "close" {
                if let Some(t) = tree.take() {
                    let r = t.close().await;
                    println!("{}", if r.is_ok() { "OK".to_string() } else { format!("ERR {}", r.unwrap_err()) });
                } else {
                    println!("ERR not open");
                }
            } else if l == "exit" {
                // process exit without close(): no destructor of the store runs
                std::process::exit(0);
            }
        }
    });
    0
}

fn cfg() -> Cfg {
    Cfg { flush_on_close: true, ..Cfg::default() }
}

fn snapshot(dir: &Path) -> BTreeMap<String, Vec<u8>> {
    fn walk(base: &Path, d: &Path, out: &mut BTreeMap<String, Vec<u8>>) {
        if let Ok(rd) = std::fs::read_dir(d) {
            for e in rd.flatten() {
                let p = e.path();
                if p.is_dir() {
                    out.insert(format!("{}/", p.strip_prefix(base).unwrap().display()), vec![]);
                    walk(base, &p, out);
                } else {
                    out.insert(p.strip_prefix(base).unwrap().display().to_string(), std::fs::read(&p).unwrap_or_default());
                }
            }
        }
    }
    let mut m = BTreeMap::new();
    walk(dir, dir, &mut m);
    m
}

fn diff(a: &BTreeMap<String, Vec<u8>>, b: &BTreeMap<String, Vec<u8>>) -> Vec<String> {
    let mut d = vec![];
    for (k, v) in a {
        match b.get(k) {
            None => d.push(format!("{} removed", k)),
            Some(w) if w != v => d.push(format!("{} changed ({} -> {} bytes)", k, v.len(), w.len())),
            _ => {}
        }
    }
    for k in b.keys() {
        if !a.contains_key(k) {
            d.push(format!("{} created", k));
        }
    }
    d
}

pub fn gen_ops(seed: u64, n: usize) -> Vec<Op> {
    let mut r = Rng::new(seed);
    let mut ops = vec![];
    for _ in 0..n {
        ops.push(match r.below(16) {
            0..=3 => Op::OpenIn(r.usize(3)),
            4 | 5 => Op::CloseIn(r.usize(3)),
            6 => Op::DropIn(r.usize(3)),
            7..=9 => Op::OpenChild(r.usize(2)),
            10 => Op::CloseChild(r.usize(2)),
            11 => Op::ExitChild(r.usize(2)),
            12 => Op::KillChild(r.usize(2)),
            13 => Op::CheckpointRestore,
            14 => Op::CloneDropIn,
            _ => Op::Commit,
        });
    }
    ops
}

pub struct Problem {
    pub class: &'static str,
    pub what: String,
    pub step: usize,
}

#[derive(Default)]
pub struct Stats {
    pub opens_granted: u64,
    pub opens_refused: u64,
    pub refused_in_process: u64,
    pub refused_across_processes: u64,
    pub closes: u64,
    pub drops: u64,
    pub exits: u64,
    pub kills: u64,
    pub commits: u64,
    pub restores: u64,
    pub transitions: BTreeSet<String>,
}

pub fn run_seq(dir: &Path, ops: &[Op], st: &mut Stats) -> Option<Problem> {
    let _ = std::fs::remove_dir_all(dir);
    let rt = tokio::runtime::Builder::new_multi_thread().worker_threads(2).enable_all().build().unwrap();
    let cfg = cfg();
    let mut handles: Vec<Option<Tree>> = vec![None, None, None];
    let mut children: Vec<Option<ChildProc>> = vec![None, None];
    let mut owner = Owner::None;
    let mut after_drop = false; // the previous owner was dropped: its close runs in the background
    let mut committed: BTreeSet<u64> = BTreeSet::new();
    let mut next_commit = 0u64;
    let mut prev = "start".to_string();
    let mut problem = None;
    'outer: for (si, op) in ops.iter().enumerate() {
        let fail = |class: &'static str, what: String| Some(Problem { class, what, step: si });
        match op {
            Op::OpenIn(i) | Op::OpenChild(i) => {
                let in_proc = matches!(op, Op::OpenIn(_));
                // an opener that already holds its own handle is skipped
                if (in_proc && handles[*i].is_some()) || (!in_proc && children[*i].as_ref().map(|c| c.open).unwrap_or(false)) {
                    continue;
                }
                let before = if owner != Owner::None { Some(snapshot(dir)) } else { None };
                // after a drop the release happens in a background task: bounded retry
                let mut attempts = 0;
                let result: Result<(), String> = loop {
                    attempts += 1;
                    let r: Result<(), String> = if in_proc {
                        let _g = rt.enter();
                        match cfg.open(dir) {
                            Ok(t) => {
                                handles[*i] = Some(t);
                                Ok(())
                            }
                            Err(e) => Err(e.to_string()),
                        }
                    } else {
                        if children[*i].is_none() {
                            match spawn_child(dir) {
                                Ok(mut c) => {
                                    let _ = c.line(); // READY
                                    children[*i] = Some(c);
                                }
                                Err(e) => {
                                    problem = fail("harness", format!("cannot spawn child: {e}"));
                                    break 'outer;
                                }
                            }
                        }
                        let c = children[*i].as_mut().unwrap();
                        let ans = c.send("open");
                        if ans == "OK" {
                            c.open = true;
                            Ok(())
                        } else {
                            Err(ans)
                        }
                    };
                    if r.is_err() && owner == Owner::None && after_drop && attempts < 400 {
                        std::thread::sleep(std::time::Duration::from_millis(10));
                        continue;
                    }
                    break r;
                };
                st.transitions.insert(format!("{}>{}", prev, if in_proc { "open_in" } else { "open_child" }));
                match (owner, &result) {
                    (Owner::None, Ok(())) => {
                        st.opens_granted += 1;
                        owner = if in_proc { Owner::In(*i) } else { Owner::Child(*i) };
                        after_drop = false;
                        // data of earlier owners is there
                        let seen: Result<BTreeSet<u64>, String> = if in_proc {
                            rt.block_on(async {
                                let m = crate::e2::scan_all(handles[*i].as_ref().unwrap())?;
                                Ok(m.keys().filter_map(|k| String::from_utf8_lossy(k).strip_prefix('c').and_then(|s| s.parse().ok())).collect())
                            })
                        } else {
                            Ok(committed.clone()) // children do not scan
                        };
                        match seen {
                            Ok(s) if s == committed => {}
                            Ok(s) => {
                                problem = fail("data", format!("opener sees commits {:?}, earlier owners acknowledged {:?}", s, committed));
                                break 'outer;
                            }
                            Err(e) => {
                                problem = fail("data", format!("scan by the new owner failed: {e}"));
                                break 'outer;
                            }
                        }
                    }
                    (Owner::None, Err(e)) => {
                        problem = fail("open_refused_without_owner", format!("nobody holds the directory (previous step: {}), yet open failed{}: {}", prev, if after_drop { " for 4 s after the owner was dropped" } else { "" }, e));
                        break 'outer;
                    }
                    (_, Ok(())) => {
                        problem = fail("second_instance", format!("{:?} holds the directory, yet a second open ({}) succeeded", owner, if in_proc { "same process" } else { "other process" }));
                        break 'outer;
                    }
                    (o, Err(_)) => {
                        st.opens_refused += 1;
                        if in_proc == matches!(o, Owner::In(_)) && in_proc {
                            st.refused_in_process += 1;
                        } else {
                            st.refused_across_processes += 1;
                        }
                        let after = snapshot(dir);
                        let d = diff(before.as_ref().unwrap(), &after);
                        if !d.is_empty() {
                            problem = fail("refused_open_touched_directory", format!("{:?} holds the directory; a refused open ({}) changed it: {}", o, if in_proc { "same process" } else { "other process" }, d.join(", ")));
                            break 'outer;
                        }
                    }
                }
                prev = if in_proc { "open_in".into() } else { "open_child".into() };
            }
            Op::CloseIn(i) => {
                if let Some(t) = handles[*i].take() {
                    let r = rt.block_on(async {
                        let r = t.close().await;
                        drop(t);
                        r
                    });
                    st.closes += 1;
                    if let Err(e) = r {
                        problem = fail("close_failed", format!("close failed: {e}"));
                        break 'outer;
                    }
                    if owner == Owner::In(*i) {
                        owner = Owner::None;
                        // close() was awaited, but dropping the handle afterwards schedules a
                        // second close in the background (Drop for Tree)
                        after_drop = true;
                    }
                    st.transitions.insert(format!("{}>close_in", prev));
                    prev = "close_in".into();
                }
            }
            Op::DropIn(i) => {
                if let Some(t) = handles[*i].take() {
                    // every other drop happens while a transaction of that handle is still
                    // alive (it keeps the store's core referenced) and is dropped afterwards
                    let live = if si % 2 == 0 { t.begin_with_mode(surrealkv::Mode::ReadOnly).ok() } else { None };
                    {
                        let _g = rt.enter();
                        drop(t);
                    }
                    if live.is_some() {
                        st.transitions.insert("drop_in_with_live_transaction".into());
                    }
                    {
                        let _g = rt.enter();
                        drop(live);
                    }
                    st.drops += 1;
                    if owner == Owner::In(*i) {
                        owner = Owner::None;
                        after_drop = true;
                    }
                    st.transitions.insert(format!("{}>drop_in", prev));
                    prev = "drop_in".into();
                }
            }
            Op::CloseChild(j) => {
                if let Some(c) = children[*j].as_mut() {
                    if c.open {
                        let ans = c.send("close");
                        c.open = false;
                        st.closes += 1;
                        if ans != "OK" {
                            problem = fail("close_failed", format!("close in the child failed: {ans}"));
                            break 'outer;
                        }
                        if owner == Owner::Child(*j) {
                            owner = Owner::None;
                        }
                        st.transitions.insert(format!("{}>close_child", prev));
                        prev = "close_child".into();
                    }
                }
            }
            Op::ExitChild(j) | Op::KillChild(j) => {
                if let Some(mut c) = children[*j].take() {
                    let was_open = c.open;
                    if matches!(op, Op::ExitChild(_)) {
                        let _ = writeln!(c.stdin, "exit");
                        let _ = c.stdin.flush();
                        st.exits += 1;
                    } else {
                        let _ = c.proc_.kill();
                        st.kills += 1;
                    }
                    let _ = c.proc_.wait();
                    if was_open && owner == Owner::Child(*j) {
                        owner = Owner::None;
                        // a killed owner may leave unflushed commits in the WAL only; they are
                        // still recovered (C02), nothing to adjust in `committed`
                    }
                    let name = if matches!(op, Op::ExitChild(_)) { "exit_child" } else { "kill_child" };
                    st.transitions.insert(format!("{}>{}{}", prev, name, if was_open { "_owner" } else { "" }));
                    prev = name.into();
                }
            }
            Op::CheckpointRestore => {
                if let Owner::In(i) = owner {
                    let ck = dir.with_file_name(format!("{}-ckpt", dir.file_name().unwrap().to_string_lossy()));
                    let _ = std::fs::remove_dir_all(&ck);
                    let t = handles[i].as_ref().unwrap();
                    let r: Result<(), String> = (|| {
                        let _g = rt.enter();
                        t.create_checkpoint(&ck).map_err(|e| format!("create_checkpoint: {e}"))?;
                        t.restore_from_checkpoint(&ck).map_err(|e| format!("restore_from_checkpoint: {e}"))?;
                        Ok(())
                    })();
                    let _ = std::fs::remove_dir_all(&ck);
                    st.restores += 1;
                    if let Err(e) = r {
                        problem = fail("restore_failed", e);
                        break 'outer;
                    }
                    st.transitions.insert(format!("{}>checkpoint_restore", prev));
                    prev = "checkpoint_restore".into();
                }
            }
            Op::CloneDropIn => {
                if let Owner::In(i) = owner {
                    let c = handles[i].as_ref().unwrap().clone();
                    {
                        let _g = rt.enter();
                        drop(c);
                    }
                    // anything the dropped clone set off runs on the runtime
                    std::thread::sleep(std::time::Duration::from_millis(15));
                    st.transitions.insert(format!("{}>clone_drop", prev));
                    prev = "clone_drop".into();
                }
            }
            Op::Commit => {
                let n = next_commit;
                let r: Option<Result<(), String>> = match owner {
                    Owner::In(i) => Some(rt.block_on(async {
                        let t = handles[i].as_ref().unwrap();
                        let mut tx = t.begin_with_mode(Mode::WriteOnly).map_err(|e| e.to_string())?;
                        tx.set(format!("c{n}").as_bytes(), n.to_string().as_bytes()).map_err(|e| e.to_string())?;
                        tx.commit().await.map_err(|e| e.to_string())
                    })),
                    Owner::Child(j) => {
                        let ans = children[j].as_mut().unwrap().send(&format!("commit {n}"));
                        Some(if ans == "OK" { Ok(()) } else { Err(ans) })
                    }
                    Owner::None => None,
                };
                if let Some(r) = r {
                    next_commit += 1;
                    st.commits += 1;
                    match r {
                        Ok(()) => {
                            committed.insert(n);
                        }
                        Err(e) => {
                            problem = fail("commit_failed", format!("commit by the owner {:?} failed: {e}", owner));
                            break 'outer;
                        }
                    }
                }
            }
        }
    }
    // tidy up
    for c in children.iter_mut().flatten() {
        let _ = c.proc_.kill();
        let _ = c.proc_.wait();
    }
    rt.block_on(async {
        for h in handles.iter_mut() {
            if let Some(t) = h.take() {
                let _ = t.close().await;
            }
        }
        tokio::time::sleep(std::time::Duration::from_millis(5)).await;
    });
    drop(rt);
    let _ = std::fs::remove_dir_all(dir);
    problem
}

pub fn run(a: &Args) -> i32 {
    crate::panics::install();
    let mut run = Run::new("C19", a.tier, a.seed, "exploration");
    crate::scenarios::run_for(&mut run, "C19");
    surrealkv::verif::set_manual_background(true);
    let root = crate::e1::scratch_root();
    let _ = std::fs::create_dir_all(&root);
    let seqs = a.tier.pick(40, 6000);
    let found: std::sync::Mutex<Vec<(J, Problem)>> = std::sync::Mutex::new(vec![]);
    let total: std::sync::Mutex<Stats> = std::sync::Mutex::new(Stats::default());
    let samples: std::sync::Mutex<Vec<J>> = std::sync::Mutex::new(vec![]);
    crate::campaign::par_for(seqs, |i| {
        let seed = a.seed.wrapping_mul(0xA24B_AED4_963E_E407).wrapping_add(i as u64 * 7877 + 9);
        let ops = gen_ops(seed, a.tier.pick(40, 80));
        let mut st = Stats::default();
        let p = run_seq(&root.join(format!("c19-{}", i)), &ops, &mut st);
        if i < 3 {
            samples.lock().unwrap().push(json!({"seed": seed, "first_ops": ops.iter().take(12).map(|o| format!("{:?}", o)).collect::<Vec<_>>(), "granted": st.opens_granted, "refused": st.opens_refused}));
        }
        let mut t = total.lock().unwrap();
        t.opens_granted += st.opens_granted;
        t.opens_refused += st.opens_refused;
        t.refused_in_process += st.refused_in_process;
        t.refused_across_processes += st.refused_across_processes;
        t.closes += st.closes;
        t.drops += st.drops;
        t.exits += st.exits;
        t.kills += st.kills;
        t.commits += st.commits;
        t.restores += st.restores;
        t.transitions.extend(st.transitions);
        if let Some(p) = p {
            found.lock().unwrap().push((json!({"engine": "c19", "seed": seed, "ops": a.tier.pick(40, 80)}), p));
        }
    });
    let mut reported: BTreeMap<&'static str, usize> = BTreeMap::new();
    for (rep, p) in found.into_inner().unwrap() {
        let k = reported.entry(p.class).or_insert(0);
        *k += 1;
        if *k <= 3 {
            run.violation(&format!("[{}] step {}: {}", p.class, p.step, p.what), rep);
        }
    }
    let t = total.into_inner().unwrap();
    run.cov("sequences", json!(seqs));
    run.cov("opens_granted", json!(t.opens_granted));
    run.cov("opens_refused", json!(t.opens_refused));
    run.cov("refused_same_process", json!(t.refused_in_process));
    run.cov("refused_across_processes", json!(t.refused_across_processes));
    run.cov("closes", json!(t.closes));
    run.cov("drops_without_close", json!(t.drops));
    run.cov("process_exits_without_close", json!(t.exits));
    run.cov("sigkills", json!(t.kills));
    run.cov("commits", json!(t.commits));
    run.cov("checkpoint_restores_by_the_live_owner", json!(t.restores));
    run.cov("transition_kinds_seen", json!(t.transitions));
    run.assumptions = vec![
        "openers are handles in this process (3 slots) and child processes of the same binary (2 slots) driven over pipes; background flush / compaction is switched off in all of them (manual mode) so that an idle owner does not change the directory by itself".into(),
        "after an owner is dropped without close() its release runs in a background task: the next open is retried for up to 4 s before 'refused without owner' is reported".into(),
    ];
    let _ = std::fs::remove_dir_all(&root);
    run.finish(
        t.opens_granted + t.opens_refused,
        t.transitions.len() as u64,
        a.tier.pick(12, 20),
        "one evaluation = one open attempt in a generated sequence of open / close / drop / commit / process exit / SIGKILL by 3 in-process and 2 child-process openers of one directory; the attempt must succeed exactly when the model says nobody holds the directory; a refused attempt must leave every file byte-identical; the new owner must see every commit acknowledged to earlier owners; distinct = distinct (previous action > action) transitions exercised",
        samples.into_inner().unwrap(),
    )
}

pub fn replay(j: &J) -> i32 {
    crate::panics::install();
    let root = crate::e1::scratch_root();
    let _ = std::fs::create_dir_all(&root);
    let ops = gen_ops(j["replay"]["seed"].as_u64().unwrap_or(0), j["replay"]["ops"].as_u64().unwrap_or(40) as usize);
    let mut st = Stats::default();
    let p = run_seq(&root.join("c19-replay"), &ops, &mut st);
    let _ = std::fs::remove_dir_all(&root);
    match p {
        None => {
            println!("replay did not reproduce a violation");
            0
        }
        Some(p) => {
            println!("  reproduced: [{}] step {}: {}", p.class, p.step, p.what);
            println!("  operations: {:?}", &ops[..=p.step.min(ops.len() - 1)]);
            1
        }
    }
}
