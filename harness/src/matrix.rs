//! Engine E4m: yield-point x action schedule matrix.
//!
//! Random delays only sample schedules. This engine forces, one at a time, every pair
//! (yield point P, action A): a fixed driver sequence (begin reader, commit, rotate, flush,
//! compaction round, commit, reopen) runs on a store with data on every tier, and the first
//! thread that reaches P is parked there while a helper thread performs A (a reader beginning
//! and reading, a commit, a rotation, a flush, a compaction round, a flush of everything);
//! the parked thread resumes when the helper is done or after 300 ms (the helper may need a
//! lock the parked thread holds - then it simply finishes later, which is also a legal
//! schedule). Afterwards every reader opened before, during and after is compared with the
//! model at its horizon, the final state with the commit order, and the store is closed
//! without flush and reopened (only the commit log + installed tables survive).
//!
//! Pairs that would put two flushes or two compaction rounds in flight at once are skipped:
//! the store has exactly one flush task and one compaction task.

use crate::cfg::Cfg;
use crate::e3::ctl;
use crate::model::hex;
use serde_json::{json, Value as J};
use std::collections::{BTreeMap, BTreeSet};
use std::path::Path;
use std::sync::atomic::{AtomicBool, AtomicU64, Ordering};
use std::sync::{Arc, Mutex};
use surrealkv::{LSMIterator, Mode, Transaction, Tree};

pub const POINTS: &[&str] = &[
    "txn.begin.after_load",
    "txn.begin.after_register",
    "commit.before_lock",
    "commit.after_wal",
    "commit.after_apply",
    "commit.after_mark_applied",
    "publish.dequeued",
    "publish.after_visible",
    "commit.after_publish",
    "rotate.before",
    "iter.state.after_immutables",
    "flush.after_sst",
    "flush.after_index",
    "flush.before_wal_cleanup",
    "compact.after_snapshots",
    "compact.before_manifest",
    "compact.before_cleanup",
];

#[derive(Clone, Copy, Debug, PartialEq)]
pub enum Action {
    ReaderBegins,
    Commit,
    Rotate,
    FlushOne,
    CompactOnce,
    RotateAndFlushAll,
    CommitThenRotateFlush,
    /// a reader begins (and is kept), then the keys it sees are overwritten / deleted and the
    /// new versions flushed to a table
    ReaderThenOverwriteFlushed,
}

pub const ACTIONS: &[Action] = &[
    Action::ReaderBegins,
    Action::Commit,
    Action::Rotate,
    Action::FlushOne,
    Action::CompactOnce,
    Action::RotateAndFlushAll,
    Action::CommitThenRotateFlush,
    Action::ReaderThenOverwriteFlushed,
];

fn legal(p: &str, a: Action) -> bool {
    let flushing = matches!(a, Action::FlushOne | Action::RotateAndFlushAll | Action::CommitThenRotateFlush | Action::ReaderThenOverwriteFlushed);
    let compacting = matches!(a, Action::CompactOnce);
    if p.starts_with("flush.") && flushing {
        return false;
    }
    if p.starts_with("compact.") && compacting {
        return false;
    }
    true
}

type State = BTreeMap<Vec<u8>, Vec<u8>>;

struct Reader {
    name: String,
    tx: Transaction,
    horizon: u64,
}

pub struct Problem {
    pub class: &'static str,
    pub what: String,
}

fn key(i: usize) -> Vec<u8> {
    format!("k{:02}", i).into_bytes()
}

/// highest visible sequence number anyone has observed after one of its own commits returned
static FLOOR: AtomicU64 = AtomicU64::new(0);

struct Commits {
    /// (first seq, writes) of every acknowledged commit
    list: Mutex<Vec<(u64, Vec<(Vec<u8>, Option<Vec<u8>>)>, u64)>>, // (marker id, writes, _)
    next: AtomicU64,
    regress: Mutex<Vec<String>>,
}

async fn commit(t: &Tree, c: &Commits, writes: Vec<(Vec<u8>, Option<Vec<u8>>)>) -> Result<u64, String> {
    // a write conflict with the helper's commit is legal: begin again
    for _ in 0..4 {
        let id = c.next.fetch_add(1, Ordering::SeqCst);
        let mut tx = t.begin_with_mode(Mode::WriteOnly).map_err(|e| e.to_string())?;
        let mk = format!("\x00m/{:06}", id).into_bytes();
        tx.set(&mk, &id.to_be_bytes()).map_err(|e| e.to_string())?;
        for (k, v) in &writes {
            match v {
                Some(v) => tx.set(k, v).map_err(|e| e.to_string())?,
                None => tx.delete(k).map_err(|e| e.to_string())?,
            }
        }
        match tx.commit().await {
            Ok(()) => {
                c.list.lock().unwrap().push((id, writes, 0));
                // the horizon never moves backwards: what an earlier committer saw after its
                // commit returned is a lower bound for everyone later
                let v = t.verif_visible_seq();
                let before = FLOOR.fetch_max(v, Ordering::SeqCst);
                if v < before {
                    c.regress.lock().unwrap().push(format!("after commit {} returned the visible sequence number is {}, but {} had been observed after an earlier commit returned", id, v, before));
                }
                return Ok(id);
            }
            Err(surrealkv::Error::TransactionWriteConflict) | Err(surrealkv::Error::TransactionRetry) => continue,
            Err(e) => return Err(format!("commit {id}: {e}")),
        }
    }
    Err("commit: four write conflicts in a row".into())
}

/// whether readers opened during the schedule are kept open until the final checks (an open
/// reader defers some clean-ups, e.g. of value-log files, so one option set runs without)
static HOLD_READERS: AtomicBool = AtomicBool::new(true);

/// 0: mixed lengths; 1: the initial data is short (stays inline when the value log is on) and
/// everything written during the schedule is long (goes to the value log at its flush)
static VALUE_SHAPE: AtomicU64 = AtomicU64::new(0);

fn val(id: u64, k: usize) -> Vec<u8> {
    match VALUE_SHAPE.load(Ordering::Relaxed) {
        1 if id < 4 => format!("v{}-{}", id, k).into_bytes(),
        1 => format!("v{}-{}-{}", id, k, "L".repeat(150 + k)).into_bytes(),
        _ => format!("v{}-{}-{}", id, k, "x".repeat((id as usize * 7 + k * 3) % 90)).into_bytes(),
    }
}

fn read_all(tx: &Transaction) -> Result<State, String> {
    let mut it = tx.range(&b"k"[..], &b"l"[..]).map_err(|e| e.to_string())?;
    let mut m = BTreeMap::new();
    let mut ok = it.seek_first().map_err(|e| e.to_string())?;
    while ok {
        m.insert(it.key().user_key().to_vec(), it.value().map_err(|e| e.to_string())?);
        ok = it.next().map_err(|e| e.to_string())?;
    }
    Ok(m)
}

fn marker_seqs(t: &Tree) -> Result<BTreeMap<u64, u64>, String> {
    let tx = t.begin_with_mode(Mode::ReadOnly).map_err(|e| e.to_string())?;
    let mut it = tx.range(&b"\x00m/"[..], &b"\x00m0"[..]).map_err(|e| e.to_string())?;
    let mut m = BTreeMap::new();
    let mut ok = it.seek_first().map_err(|e| e.to_string())?;
    while ok {
        let k = it.key();
        let id: u64 = String::from_utf8_lossy(&k.user_key()[3..]).parse().unwrap_or(0);
        m.insert(id, k.seq_num());
        ok = it.next().map_err(|e| e.to_string())?;
    }
    Ok(m)
}

/// state at horizon h given commits ordered by sequence number
fn state_at(order: &[(u64, u64, Vec<(Vec<u8>, Option<Vec<u8>>)>)], h: u64) -> State {
    let mut s = BTreeMap::new();
    for (seq, _id, writes) in order {
        // first sequence number = the marker key's; last = first + number of other writes;
        // a commit is visible at h iff its last sequence number is <= h
        if *seq + writes.len() as u64 > h {
            continue;
        }
        for (k, v) in writes {
            match v {
                Some(v) => {
                    s.insert(k.clone(), v.clone());
                }
                None => {
                    s.remove(k);
                }
            }
        }
    }
    s
}

fn diff(got: &State, exp: &State) -> String {
    for (k, v) in exp {
        match got.get(k) {
            None => return format!("{} is missing (expected {} bytes)", hex(k), v.len()),
            Some(g) if g != v => return format!("{} = {:?} but the committed history says {:?}", hex(k), String::from_utf8_lossy(&g[..g.len().min(14)]), String::from_utf8_lossy(&v[..v.len().min(14)])),
            _ => {}
        }
    }
    for k in got.keys() {
        if !exp.contains_key(k) {
            return format!("{} is listed although the committed history has it deleted / never written", hex(k));
        }
    }
    "?".into()
}

pub struct Outcome {
    pub problems: Vec<Problem>,
    pub fired: bool,
    pub helper_done_in_time: bool,
}

/// One cell of the matrix.
pub fn run_cell(dir: &Path, cfg: &Cfg, point: &'static str, action: Action) -> Outcome {
    let _ = std::fs::remove_dir_all(dir);
    surrealkv::verif::set_manual_background(true);
    let rt = tokio::runtime::Builder::new_multi_thread().worker_threads(3).enable_all().build().unwrap();
    let c = ctl();
    c.reset();
    let fired = Arc::new(AtomicBool::new(false));
    let in_time = Arc::new(AtomicBool::new(true));
    let helper_running = Arc::new(AtomicBool::new(false));
    let problems: Arc<Mutex<Vec<Problem>>> = Arc::new(Mutex::new(vec![]));
    let res: Result<(), String> = rt.block_on(async {
        let t = Arc::new(cfg.open(dir).map_err(|e| format!("open: {e}"))?);
        FLOOR.store(0, Ordering::SeqCst);
        let commits = Arc::new(Commits { list: Mutex::new(vec![]), next: AtomicU64::new(1), regress: Mutex::new(vec![]) });
        let readers: Arc<Mutex<Vec<Reader>>> = Arc::new(Mutex::new(vec![]));
        // data on every tier: two tables (one compacted down), an immutable memtable, the active one
        commit(&t, &commits, (0..8).map(|i| (key(i), Some(val(1, i)))).collect()).await?;
        t.verif_flush().map_err(|e| e.to_string())?;
        commit(&t, &commits, (0..8).filter(|i| i % 2 == 0).map(|i| (key(i), Some(val(2, i)))).collect()).await?;
        t.verif_flush().map_err(|e| e.to_string())?;
        let _ = t.verif_compact_once();
        commit(&t, &commits, vec![(key(1), Some(val(3, 1))), (key(2), None)]).await?;
        t.verif_flush().map_err(|e| e.to_string())?;
        // several values in one memtable: with small value-log files its flush seals a few of them
        commit(&t, &commits, vec![(key(3), Some(val(4, 3))), (key(9), Some(val(4, 9))), (key(11), Some(val(4, 11))), (key(12), Some(val(4, 12))), (key(13), Some(val(4, 13))), (key(14), Some(val(4, 14)))]).await?;
        t.verif_rotate().map_err(|e| e.to_string())?;
        commit(&t, &commits, vec![(key(4), Some(val(5, 4)))]).await?;
        let open_reader = |name: &str| -> Result<Reader, String> {
            let tx = t.begin_with_mode(Mode::ReadOnly).map_err(|e| e.to_string())?;
            let h = tx.verif_start_seq();
            Ok(Reader { name: name.to_string(), tx, horizon: h })
        };
        let hold = HOLD_READERS.load(Ordering::Relaxed);
        if hold {
            readers.lock().unwrap().push(open_reader("opened before the schedule")?);
        }
        // the action, performed by a helper thread while the first thread at `point` is parked
        {
            let t2 = t.clone();
            let commits2 = commits.clone();
            let readers2 = readers.clone();
            let fired2 = fired.clone();
            let in_time2 = in_time.clone();
            let running2 = helper_running.clone();
            let h = tokio::runtime::Handle::current();
            c.at_point_once(
                point,
                Arc::new(move || {
                    fired2.store(true, Ordering::SeqCst);
                    let t3 = t2.clone();
                    let commits3 = commits2.clone();
                    let readers3 = readers2.clone();
                    let h2 = h.clone();
                    let (txd, rxd) = std::sync::mpsc::channel::<()>();
                    running2.store(true, Ordering::SeqCst);
                    let running3 = running2.clone();
                    std::thread::spawn(move || {
                        let _g = h2.enter();
                        match action {
                            Action::ReaderBegins => {
                                if let Ok(tx) = t3.begin_with_mode(Mode::ReadOnly) {
                                    let hz = tx.verif_start_seq();
                                    let _ = tx.get(&key(1));
                                    if HOLD_READERS.load(Ordering::Relaxed) {
                                        readers3.lock().unwrap().push(Reader { name: format!("begun by a helper at {}", point), tx, horizon: hz });
                                    }
                                }
                            }
                            Action::Commit => {
                                let _ = h2.block_on(commit(&t3, &commits3, vec![(key(5), Some(val(90, 5))), (key(1), Some(val(90, 1))), (key(6), None)]));
                            }
                            Action::Rotate => {
                                let _ = t3.verif_rotate();
                            }
                            Action::FlushOne => {
                                let _ = t3.verif_flush_one();
                            }
                            Action::CompactOnce => {
                                let _ = t3.verif_compact_once();
                            }
                            Action::RotateAndFlushAll => {
                                let _ = t3.verif_flush();
                            }
                            Action::ReaderThenOverwriteFlushed => {
                                // versions that only this reader can see: written after every
                                // reader that existed before, overwritten right after it began
                                let _ = h2.block_on(commit(&t3, &commits3, vec![(key(1), Some(val(93, 1))), (key(4), None), (key(6), Some(val(93, 6)))]));
                                if let Ok(tx) = t3.begin_with_mode(Mode::ReadOnly) {
                                    let hz = tx.verif_start_seq();
                                    if HOLD_READERS.load(Ordering::Relaxed) {
                                        readers3.lock().unwrap().push(Reader { name: format!("begun by a helper at {} between two commits to the same keys, both then flushed", point), tx, horizon: hz });
                                    }
                                }
                                let _ = h2.block_on(commit(&t3, &commits3, vec![(key(1), Some(val(92, 1))), (key(4), Some(val(92, 4))), (key(6), None), (key(5), Some(val(92, 5)))]));
                                let _ = t3.verif_flush();
                            }
                            Action::CommitThenRotateFlush => {
                                let _ = h2.block_on(commit(&t3, &commits3, vec![(key(5), Some(val(91, 5))), (key(0), Some(val(91, 0)))]));
                                let _ = t3.verif_rotate();
                                let _ = t3.verif_flush_one();
                            }
                        }
                        running3.store(false, Ordering::SeqCst);
                        let _ = txd.send(());
                    });
                    if rxd.recv_timeout(std::time::Duration::from_millis(300)).is_err() {
                        in_time2.store(false, Ordering::SeqCst);
                    }
                }),
            );
        }
        // process-crash images: copies of the directory between driver steps (every acknowledged
        // commit has been handed to the operating system by then), with the commits
        // acknowledged so far
        let snaps: Arc<Mutex<Vec<(std::path::PathBuf, String, Vec<u64>)>>> = Arc::new(Mutex::new(vec![]));
        let snap = |label: &str| {
            let n = snaps.lock().unwrap().len();
            let to = dir.with_file_name(format!("{}-crash{}", dir.file_name().unwrap().to_string_lossy(), n));
            let _ = std::fs::remove_dir_all(&to);
            let acked: Vec<u64> = commits.list.lock().unwrap().iter().map(|x| x.0).collect();
            if crate::props::c12::copy_dir(dir, &to).is_ok() {
                let _ = std::fs::remove_file(to.join("LOCK"));
                snaps.lock().unwrap().push((to, label.to_string(), acked));
            }
        };
        // the driver sequence: reaches every point of POINTS
        {
            let r = open_reader("opened by the driver (begin yield points)")?;
            if hold {
                readers.lock().unwrap().push(r);
            }
        }
        commit(&t, &commits, vec![(key(0), Some(val(10, 0))), (key(7), None), (key(10), Some(val(10, 10)))]).await?;
        if hold {
            readers.lock().unwrap().push(open_reader("opened after the first driver commit")?);
        }
        // the store has one flush task and one compaction task: a helper that is still at work
        // (it had to wait for the parked thread) finishes before the driver's own maintenance
        // steps, and before a directory copy is taken as a crash image
        macro_rules! wait_helper {
            () => {
                for _ in 0..2500 {
                    if !helper_running.load(Ordering::SeqCst) {
                        break;
                    }
                    tokio::time::sleep(std::time::Duration::from_millis(2)).await;
                }
            };
        }
        wait_helper!();
        snap("after the first driver commit");
        t.verif_rotate().map_err(|e| format!("rotate: {e}"))?;
        wait_helper!();
        snap("after the driver's rotation");
        // a range cursor created here: its view is put together from the active memtable, the
        // immutable ones and the levels, with a yield point in between
        let mid = open_reader("scanning in the driver while memtables are immutable")?;
        let mid_scan = (mid.horizon, read_all(&mid.tx));
        if hold {
            readers.lock().unwrap().push(mid);
        }
        wait_helper!();
        t.verif_flush_one().map_err(|e| format!("flush: {e}"))?;
        tokio::time::sleep(std::time::Duration::from_millis(3)).await; // detached WAL clean-up
        wait_helper!();
        snap("after the flush of the oldest immutable memtable");
        commit(&t, &commits, vec![(key(0), Some(val(11, 0))), (key(3), None)]).await?;
        wait_helper!();
        snap("after the second driver commit");
        t.verif_flush().map_err(|e| format!("flush: {e}"))?;
        tokio::time::sleep(std::time::Duration::from_millis(3)).await;
        wait_helper!();
        snap("after the flush of everything");
        let _ = t.verif_compact_once().map_err(|e| format!("compaction: {e}"))?;
        wait_helper!();
        let _ = t.verif_compact_once();
        commit(&t, &commits, vec![(key(8), Some(val(12, 8)))]).await?;
        wait_helper!();
        // let a late helper finish
        for _ in 0..200 {
            if in_time.load(Ordering::SeqCst) {
                break;
            }
            tokio::time::sleep(std::time::Duration::from_millis(5)).await;
            if commits.list.lock().unwrap().len() as u64 + 1 >= commits.next.load(Ordering::SeqCst) {
                break;
            }
        }
        tokio::time::sleep(std::time::Duration::from_millis(10)).await;
        c.reset();
        // ---- checks ----
        for r in commits.regress.lock().unwrap().iter() {
            problems.lock().unwrap().push(Problem { class: "horizon", what: r.clone() });
        }
        let seqs = marker_seqs(&t)?;
        let list = commits.list.lock().unwrap().clone();
        let mut order: Vec<(u64, u64, Vec<(Vec<u8>, Option<Vec<u8>>)>)> = vec![];
        for (id, writes, _) in &list {
            match seqs.get(id) {
                Some(s) => order.push((*s, *id, writes.clone())),
                None => problems.lock().unwrap().push(Problem { class: "lost_commit", what: format!("commit {} was acknowledged but its marker key is not in the store", id) }),
            }
        }
        order.sort();
        let visible = t.verif_visible_seq();
        match &mid_scan.1 {
            Ok(got) => {
                let exp = state_at(&order, mid_scan.0);
                if *got != exp {
                    problems.lock().unwrap().push(Problem { class: "snapshot_read", what: format!("range cursor created in the driver after its rotation (horizon {}): scan: {}", mid_scan.0, diff(got, &exp)) });
                }
            }
            Err(e) => problems.lock().unwrap().push(Problem { class: "read_error", what: format!("range cursor created in the driver after its rotation: scan failed: {e}") }),
        }
        for r in readers.lock().unwrap().iter() {
            let exp = state_at(&order, r.horizon);
            match read_all(&r.tx) {
                Ok(got) => {
                    if got != exp {
                        problems.lock().unwrap().push(Problem { class: "snapshot_read", what: format!("reader {} (horizon {}): scan: {}", r.name, r.horizon, diff(&got, &exp)) });
                    }
                }
                Err(e) => problems.lock().unwrap().push(Problem { class: "read_error", what: format!("reader {} (horizon {}): scan failed: {e}", r.name, r.horizon) }),
            }
            for i in 0..15 {
                match r.tx.get(&key(i)) {
                    Ok(v) => {
                        if v.as_ref() != exp.get(&key(i)) {
                            problems.lock().unwrap().push(Problem {
                                class: "snapshot_read",
                                what: format!("reader {} (horizon {}): get({}) = {:?}, the committed history at its horizon says {:?}", r.name, r.horizon, hex(&key(i)), v.map(|b| String::from_utf8_lossy(&b[..b.len().min(12)]).to_string()), exp.get(&key(i)).map(|b| String::from_utf8_lossy(&b[..b.len().min(12)]).to_string())),
                            });
                            break;
                        }
                    }
                    Err(e) => {
                        problems.lock().unwrap().push(Problem { class: "read_error", what: format!("reader {}: get failed: {e}", r.name) });
                        break;
                    }
                }
            }
        }
        readers.lock().unwrap().clear();
        let final_exp = state_at(&order, u64::MAX >> 8);
        let fresh = t.begin_with_mode(Mode::ReadOnly).map_err(|e| e.to_string())?;
        match read_all(&fresh) {
            Ok(got) => {
                if got != final_exp {
                    problems.lock().unwrap().push(Problem { class: "final_state", what: format!("after the schedule (visible sequence number {}), a fresh reader: {}", visible, diff(&got, &final_exp)) });
                }
            }
            Err(e) => problems.lock().unwrap().push(Problem { class: "read_error", what: format!("fresh scan failed: {e}") }),
        }
        drop(fresh);
        // crash images: every commit acknowledged before the copy is there; the state is a prefix
        for (img, label, acked) in snaps.lock().unwrap().iter() {
            let need = order.iter().filter(|o| acked.contains(&o.1)).map(|o| o.0 + o.2.len() as u64).max().unwrap_or(0);
            match cfg.open(img) {
                Err(e) => problems.lock().unwrap().push(Problem { class: "crash_open", what: format!("process crash {}: the store does not open: {e}", label) }),
                Ok(t2) => {
                    match t2.begin_with_mode(Mode::ReadOnly).map_err(|e| e.to_string()).and_then(|tx| read_all(&tx)) {
                        Ok(got) => {
                            let mut hs: Vec<u64> = order.iter().map(|o| o.0 + o.2.len() as u64).filter(|h| *h >= need).collect();
                            hs.push(need);
                            if !hs.iter().any(|h| state_at(&order, *h) == got) {
                                let exp = state_at(&order, need);
                                let lost = order.iter().filter(|o| acked.contains(&o.1)).any(|o| o.2.iter().any(|(k, v)| v.is_some() && exp.get(k) == v.as_ref() && got.get(k) != v.as_ref()));
                                problems.lock().unwrap().push(Problem {
                                    class: if lost { "lost_after_crash" } else { "not_prefix_after_crash" },
                                    what: format!("process crash {}: commits {:?} had been acknowledged; the recovered state is not the commit order up to them or beyond: {}", label, acked, diff(&got, &exp)),
                                });
                            }
                        }
                        Err(e) => problems.lock().unwrap().push(Problem { class: "read_error", what: format!("process crash {}: scan failed: {e}", label) }),
                    }
                    crate::e2::close_tree(t2).await;
                }
            }
            let _ = std::fs::remove_dir_all(img);
        }
        // close without flushing, reopen: everything acknowledged must be there
        let t = match Arc::try_unwrap(t) {
            Ok(t) => t,
            Err(_) => return Err("harness: store handle still shared at the end of the cell".into()),
        };
        crate::e2::close_tree(t).await;
        match cfg.open(dir) {
            Err(e) => problems.lock().unwrap().push(Problem { class: "reopen", what: format!("reopen after the schedule failed: {e}") }),
            Ok(t2) => {
                match t2.begin_with_mode(Mode::ReadOnly).map_err(|e| e.to_string()).and_then(|tx| read_all(&tx)) {
                    Ok(got) => {
                        if got != final_exp {
                            problems.lock().unwrap().push(Problem { class: "lost_after_reopen", what: format!("after close (no flush) + reopen: {}", diff(&got, &final_exp)) });
                        }
                    }
                    Err(e) => problems.lock().unwrap().push(Problem { class: "read_error", what: format!("scan after reopen failed: {e}") }),
                }
                crate::e2::close_tree(t2).await;
            }
        }
        Ok(())
    });
    c.reset();
    drop(rt);
    let _ = std::fs::remove_dir_all(dir);
    let mut ps = std::mem::take(&mut *problems.lock().unwrap());
    if let Err(e) = res {
        ps.push(Problem { class: "driver_error", what: e });
    }
    Outcome { problems: ps, fired: fired.load(Ordering::SeqCst), helper_done_in_time: in_time.load(Ordering::SeqCst) }
}

pub fn cfgs() -> Vec<Cfg> {
    vec![
        Cfg { flush_on_close: false, level_count: 3, l0_max_files: 1, max_bytes_for_level: 512, memtable_stall: 64, l0_stall: 64, ..Cfg::default() },
        Cfg { flush_on_close: false, level_count: 2, l0_max_files: 2, max_bytes_for_level: 2048, memtable_stall: 64, l0_stall: 64, vlog: true, vlog_threshold: 16, vlog_max_file: 512, ..Cfg::default() },
        // value log on, but nothing installed refers to it until the schedule's own flushes:
        // short initial values, long values during the schedule, tiny value-log files
        Cfg { flush_on_close: false, level_count: 3, l0_max_files: 1, max_bytes_for_level: 512, memtable_stall: 64, l0_stall: 64, vlog: true, vlog_threshold: 40, vlog_max_file: 256, ..Cfg::default() },
        // the same without any long-lived reader (index 3: see HOLD_READERS)
        Cfg { flush_on_close: false, level_count: 3, l0_max_files: 1, max_bytes_for_level: 512, memtable_stall: 64, l0_stall: 64, vlog: true, vlog_threshold: 40, vlog_max_file: 256, ..Cfg::default() },
    ]
}

/// Which problem classes belong to which property.
pub fn classes_of(prop: &str) -> &'static [&'static str] {
    match prop {
        "C01" => &["snapshot_read", "read_error", "horizon"],
        "C11" => &["read_error", "final_state", "snapshot_read"],
        "C05" => &["final_state", "lost_commit", "horizon"],
        "C02" => &["lost_after_reopen", "lost_after_crash"],
        "C03" => &["not_prefix_after_crash"],
        "C07" => &["reopen", "crash_open"],
        _ => &[],
    }
}

pub struct MatrixOutcome {
    pub cells: u64,
    pub fired: u64,
    pub late_helpers: u64,
    pub fired_pairs: BTreeSet<String>,
    pub found: Vec<(String, String, J)>, // (class, what, replay)
    pub driver_errors: Vec<String>,
}

/// Runs the whole matrix (sequentially: the point hook is process-wide).
pub fn run_matrix(root: &Path) -> MatrixOutcome {
    crate::panics::install();
    let mut o = MatrixOutcome { cells: 0, fired: 0, late_helpers: 0, fired_pairs: BTreeSet::new(), found: vec![], driver_errors: vec![] };
    for (ci, cfg) in cfgs().iter().enumerate() {
        for p in POINTS {
            for a in ACTIONS {
                if !legal(p, *a) {
                    continue;
                }
                VALUE_SHAPE.store(if ci >= 2 { 1 } else { 0 }, Ordering::Relaxed);
                HOLD_READERS.store(ci != 3, Ordering::Relaxed);
                let out = run_cell(&root.join("matrix"), cfg, p, *a);
                o.cells += 1;
                if out.fired {
                    o.fired += 1;
                    o.fired_pairs.insert(format!("{}x{:?}", p, a));
                }
                if !out.helper_done_in_time {
                    o.late_helpers += 1;
                }
                for pr in out.problems {
                    let rep = json!({"engine": "matrix", "cfg": ci, "point": p, "action": format!("{:?}", a)});
                    if pr.class == "driver_error" {
                        o.driver_errors.push(format!("cfg {} {} x {:?}: {}", ci, p, a, pr.what));
                    } else {
                        o.found.push((pr.class.to_string(), format!("schedule matrix, options #{}: first thread at {} parked while a helper does {:?}: {}", ci, p, a, pr.what), rep));
                    }
                }
            }
        }
    }
    o
}

/// `vharness matrix` : subprocess entry (the matrix owns the process-wide point hook)
pub fn main_json() -> i32 {
    let root = crate::e1::scratch_root();
    let _ = std::fs::create_dir_all(&root);
    // debug: vharness matrix <cfg index> <point> <action index>
    let argv: Vec<String> = std::env::args().collect();
    if argv.len() >= 5 {
        let ci: usize = argv[2].parse().unwrap_or(0);
        let p = POINTS.iter().find(|p| **p == argv[3]).copied().unwrap_or(POINTS[0]);
        let a = ACTIONS[argv[4].parse::<usize>().unwrap_or(0).min(ACTIONS.len() - 1)];
        VALUE_SHAPE.store(if ci >= 2 { 1 } else { 0 }, Ordering::Relaxed);
        HOLD_READERS.store(ci != 3, Ordering::Relaxed);
        let out = run_cell(&root.join("matrix"), &cfgs()[ci], p, a);
        println!("cell cfg {} {} x {:?}: fired {} helper in time {}", ci, p, a, out.fired, out.helper_done_in_time);
        for pr in out.problems {
            println!("  [{}] {}", pr.class, pr.what);
        }
        let _ = std::fs::remove_dir_all(&root);
        return 0;
    }
    let o = run_matrix(&root);
    let _ = std::fs::remove_dir_all(&root);
    println!(
        "{}",
        json!({"cells": o.cells, "fired": o.fired, "late_helpers": o.late_helpers, "fired_pairs": o.fired_pairs,
               "found": o.found.iter().map(|(c, w, r)| json!([c, w, r])).collect::<Vec<_>>(), "driver_errors": o.driver_errors})
    );
    0
}

/// Runs the matrix in a subprocess and reports the problems whose class belongs to `prop`.
pub fn run_for(run: &mut crate::evidence::Run, prop: &str) {
    let exe = match std::env::current_exe() {
        Ok(e) => e,
        Err(_) => return,
    };
    let out = std::process::Command::new(exe).arg("matrix").stderr(std::process::Stdio::null()).output();
    let Ok(out) = out else {
        run.inconclusive("schedule matrix: could not start");
        return;
    };
    let text = String::from_utf8_lossy(&out.stdout);
    let Some(line) = text.lines().rev().find(|l| l.starts_with('{')) else {
        run.inconclusive(&format!("schedule matrix: no result (exit {:?})", out.status));
        return;
    };
    let Ok(j) = serde_json::from_str::<J>(line) else {
        run.inconclusive("schedule matrix: unreadable result");
        return;
    };
    let mine: BTreeSet<&str> = classes_of(prop).iter().cloned().collect();
    let mut n = 0;
    for f in j["found"].as_array().cloned().unwrap_or_default() {
        let c = f[0].as_str().unwrap_or("");
        if mine.contains(c) {
            n += 1;
            if n <= 4 {
                run.violation(&format!("[{}] {}", c, f[1].as_str().unwrap_or("")), f[2].clone());
            }
        }
    }
    for e in j["driver_errors"].as_array().cloned().unwrap_or_default().iter().take(3) {
        run.inconclusive(&format!("schedule matrix: {}", e.as_str().unwrap_or("")));
    }
    run.cov(
        "schedule_matrix",
        json!({"cells": j["cells"], "cells_where_the_point_was_reached": j["fired"], "helpers_finishing_after_the_parked_thread_resumed": j["late_helpers"], "pairs_exercised": j["fired_pairs"]}),
    );
}
