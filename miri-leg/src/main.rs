//! Interpreter-sized workloads over the lock-free pieces of surrealkv (hook H8): the memtable
//! (skip list over an arena) under concurrent writers and snapshot readers, and the commit
//! pipeline (ring queue, in-order publication, flow control, failure paths) over a mock
//! environment. The same binary runs natively (bigger parameters) and under Miri, which is
//! the oracle for undefined behaviour and data races; the behavioural oracles below run in both.
//!
//!   vmiri memtable <seed> <scale>      vmiri pipeline <seed> <scale>
//! Prints one line `VMIRI scenario=.. seed=.. events=.. ...` and exits 0, or `VMIRI-VIOLATION ...`
//! and exits 1. All parameters come from argv (Miri does not forward the environment).

use std::collections::{BTreeMap, BTreeSet, HashMap};
use std::future::Future;
use std::pin::pin;
use std::sync::atomic::{AtomicBool, AtomicU64, Ordering};
use std::sync::{Arc, Mutex};
use std::task::{Context, Poll, Wake, Waker};
use std::thread;

use surrealkv::verif::{VerifCommitEnv, VerifMemTable, VerifPipeline};

struct Rng(u64);
impl Rng {
	fn new(seed: u64) -> Self {
		Rng(seed.wrapping_mul(0x9E37_79B9_7F4A_7C15) ^ 0xD1B5_4A32_D192_ED03)
	}
	fn next(&mut self) -> u64 {
		self.0 ^= self.0 << 13;
		self.0 ^= self.0 >> 7;
		self.0 ^= self.0 << 17;
		self.0
	}
	fn below(&mut self, n: u64) -> u64 {
		self.next() % n
	}
}

struct ThreadWaker(thread::Thread, AtomicBool);
impl Wake for ThreadWaker {
	fn wake(self: Arc<Self>) {
		self.1.store(true, Ordering::Release);
		self.0.unpark();
	}
}

/// Minimal executor: the pipeline only uses runtime-agnostic primitives (semaphore, one-shot).
fn block_on<F: Future>(f: F) -> F::Output {
	let mut f = pin!(f);
	let tw = Arc::new(ThreadWaker(thread::current(), AtomicBool::new(false)));
	let waker = Waker::from(Arc::clone(&tw));
	let mut cx = Context::from_waker(&waker);
	loop {
		if let Poll::Ready(v) = f.as_mut().poll(&mut cx) {
			return v;
		}
		while !tw.1.swap(false, Ordering::Acquire) {
			thread::park();
		}
	}
}

fn violation(scenario: &str, seed: u64, what: String) -> ! {
	println!("VMIRI-VIOLATION scenario={scenario} seed={seed} what={what}");
	std::process::exit(1)
}

fn key(i: u64) -> Vec<u8> {
	format!("k{i:02}").into_bytes()
}

// ---------------------------------------------------------------------------------------------
// memtable: writers insert batches with sequence numbers above S0 while readers hold snapshot S0
// ---------------------------------------------------------------------------------------------

fn memtable(seed: u64, scale: u64) {
	let sc = "memtable";
	let mut rng = Rng::new(seed);
	let nkeys = 5 + rng.below(4);
	let writers = 2 + rng.below(2) as usize;
	let readers = 2usize;
	let batches = 4 * scale as usize;
	let arena = if rng.below(3) == 0 { 6 * 1024 } else { 256 * 1024 }; // small: some batches are refused
	let mt = VerifMemTable::new(arena);

	// preload below S0
	let mut model: BTreeMap<(Vec<u8>, std::cmp::Reverse<u64>), (u8, Vec<u8>)> = BTreeMap::new();
	let mut seq = 1u64;
	for b in 0..(3 + rng.below(4)) {
		let n = 1 + rng.below(3);
		let mut ents = Vec::new();
		let mut used = BTreeSet::new();
		for e in 0..n {
			let k = rng.below(nkeys);
			if !used.insert(k) {
				continue;
			}
			let v = if rng.below(5) == 0 { None } else { Some(format!("p{b}e{e}").into_bytes()) };
			ents.push((key(k), v));
		}
		if mt.add(seq, &ents).is_err() {
			break;
		}
		for (i, (k, v)) in ents.iter().enumerate() {
			model.insert(
				(k.clone(), std::cmp::Reverse(seq + i as u64)),
				(if v.is_some() { 1 } else { 0 }, v.clone().unwrap_or_default()),
			);
		}
		seq += ents.len() as u64;
	}
	let s0 = seq - 1;
	let snapshot_answer = |k: &[u8]| -> Option<(u64, Vec<u8>)> {
		model
			.range((k.to_vec(), std::cmp::Reverse(u64::MAX))..=(k.to_vec(), std::cmp::Reverse(0)))
			.next()
			.map(|((_, s), (_, v))| (s.0, v.clone()))
	};

	// writers' plans: disjoint sequence ranges above S0
	let mut plans: Vec<Vec<(u64, Vec<(Vec<u8>, Option<Vec<u8>>)>)>> = vec![Vec::new(); writers];
	let mut next_seq = s0 + 1;
	for b in 0..batches {
		for (w, plan) in plans.iter_mut().enumerate() {
			let n = 1 + rng.below(3);
			let mut ents = Vec::new();
			let mut used = BTreeSet::new();
			for e in 0..n {
				let k = rng.below(nkeys);
				if !used.insert(k) {
					continue;
				}
				let v = if rng.below(6) == 0 {
					None
				} else {
					let pad = if rng.below(4) == 0 { 200 } else { 0 };
					let mut v = format!("w{w}b{b}e{e}").into_bytes();
					v.resize(v.len() + pad, b'.');
					Some(v)
				};
				ents.push((key(k), v));
			}
			plan.push((next_seq, ents.clone()));
			next_seq += ents.len() as u64;
		}
	}
	let expected_value: HashMap<(Vec<u8>, u64), Vec<u8>> = plans
		.iter()
		.flatten()
		.flat_map(|(s, ents)| {
			ents.iter().enumerate().map(move |(i, (k, v))| ((k.clone(), s + i as u64), v.clone().unwrap_or_default()))
		})
		.collect();
	let batch_of: HashMap<u64, (u64, usize)> = plans
		.iter()
		.flatten()
		.flat_map(|(s, ents)| (0..ents.len()).map(move |i| (s + i as u64, (*s, ents.len()))))
		.collect();

	let done = AtomicBool::new(false);
	let events = AtomicU64::new(0);
	let accepted: Mutex<BTreeSet<u64>> = Mutex::new(BTreeSet::new()); // first seq of accepted batches
	let refused = AtomicU64::new(0);
	let reader_rounds = 3 * scale;

	thread::scope(|s| {
		for (w, plan) in plans.iter().enumerate() {
			let mt = mt.clone();
			let accepted = &accepted;
			let refused = &refused;
			let events = &events;
			let expected_value = &expected_value;
			s.spawn(move || {
				for (i, (seq, ents)) in plan.iter().enumerate() {
					match mt.add(*seq, ents) {
						Ok(()) => {
							accepted.lock().unwrap().insert(*seq);
							// read-back by the writer itself
							for (j, (k, _)) in ents.iter().enumerate() {
								let want = seq + j as u64;
								match mt.get(k, want) {
									Some((s, _, v)) if s == want && v == expected_value[&(k.clone(), want)] => {}
									other => violation(sc, seed, format!("writer {w} batch {i}: own entry {:?}@{want} reads back as {other:?}", String::from_utf8_lossy(k))),
								}
							}
						}
						Err(_) => {
							refused.fetch_add(1, Ordering::Relaxed);
						}
					}
					events.fetch_add(1, Ordering::Relaxed);
					if i % 2 == 0 {
						thread::yield_now();
					}
				}
			});
		}
		for r in 0..readers {
			let mt = mt.clone();
			let model = &model;
			let snapshot_answer = &snapshot_answer;
			let expected_value = &expected_value;
			let done = &done;
			let events = &events;
			let accepted = &accepted;
			let batch_of = &batch_of;
			let mut rng = Rng::new(seed * 31 + r as u64);
			s.spawn(move || {
				// An insertion links the new node into the forward chain first and sets the
				// backward link of its successor afterwards: until `add` has returned, a forward
				// walk may list an entry that a backward walk still steps over (the store
				// publishes a commit only after its `add` has returned). So: what any walk has
				// seen stays in forward walks; what a backward walk has seen stays in every
				// walk; and whatever was added by an `add` that had returned before a walk began
				// is in that walk, whichever its direction.
				let mut must_fwd: BTreeSet<(Vec<u8>, u64)> = BTreeSet::new();
				let mut must_bwd: BTreeSet<(Vec<u8>, u64)> = BTreeSet::new();
				let mut round = 0;
				while round < reader_rounds || !done.load(Ordering::Acquire) {
					round += 1;
					if round > reader_rounds * 6 {
						break;
					}
					// (1) point reads at snapshot S0 do not change while newer versions arrive
					for _ in 0..3 {
						let k = key(rng.below(nkeys));
						let got = mt.get(&k, s0).map(|(s, _, v)| (s, v));
						if got != snapshot_answer(&k) {
							violation(sc, seed, format!("reader {r}: get({:?}, snapshot {s0}) = {got:?}, the snapshot holds {:?}", String::from_utf8_lossy(&k), snapshot_answer(&k)));
						}
						events.fetch_add(1, Ordering::Relaxed);
					}
					// (2) a walk in either direction is strictly ordered, holds every entry of the
					// snapshot, only entries somebody wrote, and everything seen earlier
					let forward = rng.below(2) == 0;
					let completed: BTreeSet<u64> = accepted.lock().unwrap().clone();
					let mut walk = match mt.scan(forward) {
						Ok(w) => w,
						Err(e) => violation(sc, seed, format!("reader {r}: scan failed: {e}")),
					};
					if !forward {
						walk.reverse();
					}
					for w in walk.windows(2) {
						let a = (&w[0].0, std::cmp::Reverse(w[0].1));
						let b = (&w[1].0, std::cmp::Reverse(w[1].1));
						if a >= b {
							violation(sc, seed, format!("reader {r}: {} walk out of order: {:?}@{} before {:?}@{}", if forward { "forward" } else { "backward" }, String::from_utf8_lossy(&w[0].0), w[0].1, String::from_utf8_lossy(&w[1].0), w[1].1));
						}
					}
					let now: BTreeSet<(Vec<u8>, u64)> = walk.iter().map(|e| (e.0.clone(), e.1)).collect();
					for ((k, s), (_, v)) in model.iter() {
						match walk.iter().find(|e| &e.0 == k && e.1 == s.0) {
							Some(e) if &e.3 == v => {}
							other => violation(sc, seed, format!("reader {r}: snapshot entry {:?}@{} missing or altered in a walk: {other:?}", String::from_utf8_lossy(k), s.0)),
						}
					}
					for e in walk.iter().filter(|e| e.1 > s0) {
						match expected_value.get(&(e.0.clone(), e.1)) {
							Some(v) if v == &e.3 => {}
							_ => violation(sc, seed, format!("reader {r}: walk returned {:?}@{} = {:?}, which nobody wrote", String::from_utf8_lossy(&e.0), e.1, String::from_utf8_lossy(&e.3))),
						}
					}
					let dir = if forward { "forward" } else { "backward" };
					let must = if forward { &must_fwd } else { &must_bwd };
					if let Some(lost) = must.iter().find(|x| !now.contains(*x)) {
						violation(sc, seed, format!("reader {r}: entry {:?}@{} listed by an earlier {} walk is gone from a {dir} walk (round {round})", String::from_utf8_lossy(&lost.0), lost.1, if forward { "forward or backward" } else { "backward" }));
					}
					for (k, s) in expected_value.keys() {
						if completed.contains(&batch_of[s].0) && !now.contains(&(k.clone(), *s)) {
							violation(sc, seed, format!("reader {r}: entry {:?}@{s}, whose add() had returned before the walk began, is missing from a {dir} walk (round {round})", String::from_utf8_lossy(k)));
						}
					}
					if !forward {
						must_bwd.extend(now.iter().cloned());
					}
					must_fwd.extend(now);
					events.fetch_add(1, Ordering::Relaxed);
					thread::yield_now();
				}
			});
		}
		// the scope joins writers first only implicitly; flag completion from a watcher
		let done = &done;
		let events = &events;
		let total = (writers * batches) as u64;
		s.spawn(move || {
			let mut spins = 0u64;
			while events.load(Ordering::Relaxed) < total && spins < 2_000_000 {
				thread::yield_now();
				spins += 1;
			}
			done.store(true, Ordering::Release);
		});
	});

	// quiescent: exactly the snapshot plus the accepted batches, each whole
	let fin = mt.scan(true).unwrap_or_else(|e| violation(sc, seed, format!("final scan failed: {e}")));
	let acc = accepted.lock().unwrap().clone();
	let mut want: BTreeSet<(Vec<u8>, u64)> = model.keys().map(|(k, s)| (k.clone(), s.0)).collect();
	for (s, ents) in plans.iter().flatten() {
		if acc.contains(s) {
			for (i, (k, _)) in ents.iter().enumerate() {
				want.insert((k.clone(), s + i as u64));
			}
		}
	}
	let got: BTreeSet<(Vec<u8>, u64)> = fin.iter().map(|e| (e.0.clone(), e.1)).collect();
	if got != want {
		let extra: Vec<_> = got.difference(&want).take(3).collect();
		let missing: Vec<_> = want.difference(&got).take(3).collect();
		let part = extra.iter().any(|(_, s)| batch_of.get(s).is_some_and(|(b, _)| !acc.contains(b)));
		violation(sc, seed, format!("final content differs: extra {extra:?} missing {missing:?}{}", if part { " (part of a refused batch is present)" } else { "" }));
	}
	println!(
		"VMIRI scenario=memtable seed={seed} events={} keys={nkeys} writers={writers} accepted_batches={} refused_batches={} snapshot_entries={} final_entries={}",
		events.load(Ordering::Relaxed),
		acc.len(),
		refused.load(Ordering::Relaxed),
		model.len(),
		fin.len()
	);
}

// ---------------------------------------------------------------------------------------------
// pipeline: more committers than permits, failing writes and applies, an observer of the horizon
// ---------------------------------------------------------------------------------------------

#[derive(Default)]
struct EnvLog {
	written: Vec<(u64, u32, bool)>,        // (first seq, count, write ok) in call order
	apply_done: BTreeMap<u64, bool>,       // first seq -> apply ok
	apply_started: BTreeSet<u64>,
}

struct Env {
	log: Mutex<EnvLog>,
	mt: VerifMemTable,
	fail_write_every: u64,
	fail_apply_every: u64,
	slow_every: u64,
	writes: AtomicU64,
	applies: AtomicU64,
}

impl VerifCommitEnv for Env {
	fn write(&self, seq: u64, count: u32) -> Result<(), String> {
		let n = self.writes.fetch_add(1, Ordering::Relaxed) + 1;
		let ok = !(self.fail_write_every > 0 && n % self.fail_write_every == 0);
		self.log.lock().unwrap().written.push((seq, count, ok));
		if ok {
			Ok(())
		} else {
			Err("injected write failure".into())
		}
	}

	fn apply(&self, seq: u64, entries: &[(Vec<u8>, Option<Vec<u8>>)]) -> Result<(), String> {
		let n = self.applies.fetch_add(1, Ordering::Relaxed) + 1;
		self.log.lock().unwrap().apply_started.insert(seq);
		if self.slow_every > 0 && n % self.slow_every == 0 {
			for _ in 0..40 {
				thread::yield_now();
			}
		}
		let ok = !(self.fail_apply_every > 0 && n % self.fail_apply_every == 0);
		let res = if ok { self.mt.add(seq, entries).map_err(|e| e.to_string()) } else { Err("injected apply failure".into()) };
		self.log.lock().unwrap().apply_done.insert(seq, res.is_ok());
		res
	}
}

fn pipeline(seed: u64, scale: u64) {
	let sc = "pipeline";
	let mut rng = Rng::new(seed ^ 0xABCD);
	let committers = 9 + rng.below(4) as usize; // more than the seven permits / eight slots
	let per = 2 * scale as usize;
	let nkeys = 4 + rng.below(20);
	let env = Arc::new(Env {
		log: Mutex::new(EnvLog::default()),
		mt: VerifMemTable::new(1 << 20),
		fail_write_every: [0, 0, 5, 3][rng.below(4) as usize],
		fail_apply_every: [0, 0, 4, 7][rng.below(4) as usize],
		slow_every: [0, 3, 5][rng.below(3) as usize],
		writes: AtomicU64::new(0),
		applies: AtomicU64::new(0),
	});
	let pipe = Arc::new(VerifPipeline::new(Arc::clone(&env) as Arc<dyn VerifCommitEnv>));
	let done = AtomicBool::new(false);
	let events = AtomicU64::new(0);
	// (id, start_seq, keys, result ok, visible right after return)
	let results: Mutex<Vec<(String, u64, Vec<Vec<u8>>, bool, u64)>> = Mutex::new(Vec::new());
	let horizon_samples = AtomicU64::new(0);

	thread::scope(|s| {
		for c in 0..committers {
			let pipe = Arc::clone(&pipe);
			let results = &results;
			let events = &events;
			let mut rng = Rng::new(seed * 131 + c as u64);
			s.spawn(move || {
				for i in 0..per {
					let start = pipe.visible();
					let n = 1 + rng.below(2);
					let mut keys = BTreeSet::new();
					for _ in 0..n {
						keys.insert(rng.below(nkeys));
					}
					let id = format!("c{c}i{i}");
					let ents: Vec<(Vec<u8>, Option<Vec<u8>>)> =
						keys.iter().map(|k| (key(*k), Some(id.clone().into_bytes()))).collect();
					let res = block_on(pipe.commit(&ents, start));
					let vis = pipe.visible();
					results.lock().unwrap().push((id, start, ents.iter().map(|e| e.0.clone()).collect(), res.is_ok(), vis));
					events.fetch_add(1, Ordering::Relaxed);
					if rng.below(3) == 0 {
						thread::yield_now();
					}
				}
			});
		}
		// observer: the horizon never passes a batch whose apply has not finished, never goes back
		let env2 = Arc::clone(&env);
		let pipe2 = Arc::clone(&pipe);
		let done = &done;
		let horizon_samples = &horizon_samples;
		s.spawn(move || {
			let mut last = 0u64;
			let mut rounds = 0u64;
			while !done.load(Ordering::Acquire) && rounds < 3_000_000 {
				rounds += 1;
				let v = pipe2.visible();
				if v < last {
					violation(sc, seed, format!("visible sequence number went back from {last} to {v}"));
				}
				last = v;
				{
					let log = env2.log.lock().unwrap();
					for (seq, count, wok) in log.written.iter() {
						let last_seq = seq + *count as u64 - 1;
						if *wok && *seq <= v && !log.apply_done.contains_key(seq) {
							violation(sc, seed, format!("horizon {v} covers batch {seq}..={last_seq} whose apply has not finished"));
						}
					}
				}
				horizon_samples.fetch_add(1, Ordering::Relaxed);
				thread::yield_now();
			}
		});
		let events = &events;
		let total = (committers * per) as u64;
		s.spawn(move || {
			let mut spins = 0u64;
			while events.load(Ordering::Relaxed) < total && spins < 50_000_000 {
				thread::yield_now();
				spins += 1;
			}
			done.store(true, Ordering::Release);
		});
	});

	let total = (committers * per) as u64;
	if events.load(Ordering::Relaxed) < total {
		violation(sc, seed, format!("only {} of {total} commit calls returned", events.load(Ordering::Relaxed)));
	}
	let log = env.log.lock().unwrap();
	// the log was written in strictly increasing, gap-free sequence order
	let mut expect = 1u64;
	for (seq, count, _) in log.written.iter() {
		if *seq != expect {
			violation(sc, seed, format!("environment write for seq {seq}, expected {expect}: order or allocation broken"));
		}
		expect = seq + *count as u64;
	}
	let res = results.lock().unwrap();
	let fin = env.mt.scan(true).unwrap_or_else(|e| violation(sc, seed, format!("final scan failed: {e}")));
	let seq_of_id: HashMap<String, u64> =
		fin.iter().map(|e| (String::from_utf8_lossy(&e.3).to_string(), e.1)).fold(HashMap::new(), |mut m, (id, s)| {
			let e = m.entry(id).or_insert(s);
			*e = (*e).min(s);
			m
		});
	let mut ok = 0u64;
	let mut failed = 0u64;
	let mut winners: BTreeMap<Vec<u8>, Vec<(u64, u64, String)>> = BTreeMap::new(); // key -> (commit seq, start, id)
	for (id, start, keys, rok, vis) in res.iter() {
		if *rok {
			ok += 1;
			let Some(seq) = seq_of_id.get(id) else {
				violation(sc, seed, format!("commit {id} returned success but nothing of it was applied"));
			};
			let last = seq + keys.len() as u64 - 1;
			if *vis < last {
				violation(sc, seed, format!("commit {id} (seq ..={last}) returned success while the horizon was {vis}"));
			}
			if log.apply_done.get(seq) != Some(&true) {
				violation(sc, seed, format!("commit {id} returned success but its apply failed or never ran"));
			}
			for k in keys {
				winners.entry(k.clone()).or_default().push((*seq, *start, id.clone()));
			}
		} else {
			failed += 1;
			if let Some(seq) = seq_of_id.get(id) {
				violation(sc, seed, format!("commit {id} returned an error but its writes are in the memtable at seq {seq}"));
			}
		}
	}
	// first committer wins: a successful writer of a key began after the previous successful one finished
	let mut conflicts_checked = 0u64;
	for (k, v) in winners.iter_mut() {
		v.sort();
		for w in v.windows(2) {
			conflicts_checked += 1;
			if w[1].1 < w[0].0 {
				violation(sc, seed, format!("{} (snapshot {}) and {} (commit seq {}) both committed key {:?}", w[1].2, w[1].1, w[0].2, w[0].0, String::from_utf8_lossy(k)));
			}
		}
	}
	let end = log.written.iter().filter(|w| w.2).map(|w| w.0 + w.1 as u64 - 1).max().unwrap_or(0);
	let all_end = expect - 1;
	let vis = pipe.visible();
	if vis < end || vis > all_end {
		violation(sc, seed, format!("at rest the horizon is {vis}; last logged seq {end}, last allocated {all_end}"));
	}
	pipe.shutdown();
	println!(
		"VMIRI scenario=pipeline seed={seed} events={} committers={committers} keys={nkeys} ok={ok} failed={failed} write_failures={} apply_failures={} horizon_samples={} same_key_pairs={conflicts_checked} final_horizon={vis}",
		events.load(Ordering::Relaxed),
		log.written.iter().filter(|w| !w.2).count(),
		log.apply_done.values().filter(|b| !**b).count(),
		horizon_samples.load(Ordering::Relaxed),
	);
}

fn main() {
	let a: Vec<String> = std::env::args().collect();
	if a.len() < 4 {
		eprintln!("usage: vmiri memtable|pipeline <seed> <scale>");
		std::process::exit(2);
	}
	let seed: u64 = a[2].parse().unwrap();
	let scale: u64 = a[3].parse().unwrap();
	match a[1].as_str() {
		"memtable" => memtable(seed, scale),
		"pipeline" => pipeline(seed, scale),
		_ => std::process::exit(2),
	}
}
